.PHONY: setup manifest sany
setup: sany
	@/venv/bin/python -c "import pydoctor, bs4, hypothesis; print('python deps ok')"
	@mkdir -p evidence replays
sany:
	@for f in spec/*.tla; do java -cp /opt/veriftools/tla/tla2tools.jar:/opt/veriftools/tla/CommunityModules-deps.jar tla2sany.SANY $$f > /tmp/sany.$$$$ 2>&1 || { cat /tmp/sany.$$$$; rm -f /tmp/sany.$$$$; exit 1; }; rm -f /tmp/sany.$$$$; done; echo "SANY ok"
manifest:
	/venv/bin/python -m harness.manifest
