.PHONY: setup manifest sany
setup: sany
	@/venv/bin/python -c "import pydoctor, bs4, hypothesis; print('python deps ok')"
	@mkdir -p evidence replays
sany:
	@cd spec && for f in *.tla; do java -cp /opt/veriftools/tla/tla2tools.jar:/opt/veriftools/tla/CommunityModules-deps.jar tla2sany.SANY $$f > ../.sany.out 2>&1 || { cat ../.sany.out; rm -f ../.sany.out; exit 1; }; if grep -q "Semantic errors\|Parse Error\|\*\*\* Errors" ../.sany.out; then cat ../.sany.out; rm -f ../.sany.out; exit 1; fi; done; rm -f ../.sany.out; echo "SANY ok"
manifest:
	/venv/bin/python -m harness.manifest
