"""
Fourth batch of adversarial source trees for C01: docstring markup that drives the reST / epytext machinery into its corners
(file access directives, recursive substitutions, deep nesting, odd roles), expression forms in every place an expression is
displayed (defaults, annotations, decorators, bases, constant values), and statement forms of recent Python versions.
Same format as harness/adversarial.py.
"""
from __future__ import annotations

from typing import Any, Dict, List

from .adversarial import case


def _doc(body: str, indent: str = "    ") -> str:
    lines = body.split("\n")
    return indent + "'''\n" + "\n".join((indent + l) if l else "" for l in lines) + "\n" + indent + "'''\n"


def cases4() -> List[Dict[str, Any]]:
    out: List[Dict[str, Any]] = []
    A = out.append
    # ---- reStructuredText corners (also parsed as epytext / google by the other docformats: must not matter)
    rst_blocks = {
        "include": ".. include:: /etc/hostname\n\n.. include:: nonexistent.txt\n   :literal:\n",
        "raw": ".. raw:: html\n\n   <script>x</script>\n\n.. raw:: html\n   :file: /etc/hostname\n\n.. raw:: latex\n\n   \\foo\n",
        "csv": ".. csv-table:: t\n   :file: /etc/hostname\n\n.. csv-table:: u\n   :header: a, b\n\n   1, 2, 3, 4\n",
        "substitution-loop": "|a| and |b|\n\n.. |a| replace:: |b|\n.. |b| replace:: |a|\n",
        "substitution-self": "|x|\n\n.. |x| replace:: again |x|\n",
        "footnotes": "[#]_ [#]_ [1]_ [#named]_ [*]_ [CIT]_\n\n.. [#] one\n.. [1] clash\n.. [*] sym\n",
        "targets": "`a`_ `a`_ a_ __ anonymous__\n\n.. _a: http://x\n.. _a: http://y\n.. __: z\n",
        "sections": "Title\n=====\n\nSub\n---\n\nSubsub\n~~~\n\nTitle\n=====\n\n---\n\nshort\n==\n",
        "tables": "+---+---+\n| a | b |\n+===+===+\n| 1 |\n+---+---+\n\n=== ===\n a   b\n=== ===\n 1\n",
        "roles": ":unknown:`x` :math:`\\frac{` :code:`y` :py:func:`z` :ref:`q` :sup:`2` :raw-html:`<b>` :emphasis:`e` :title-reference:`t` :pep:`x` :rfc:`-1`\n\n.. role:: custom(unknownbase)\n\n.. role:: raw-html(raw)\n   :format: html\n\n:raw-html:`<i>i</i>`\n",
        "directives": ".. unknown-directive:: x\n\n.. code:: python\n   :number-lines: abc\n\n   x = (\n\n.. class:: a b c\n\n.. meta::\n   :keywords: x\n\n.. contents::\n\n.. sectnum::\n\n.. header:: h\n\n.. footer:: f\n\n.. date::\n\n.. title:: t\n\n.. target-notes::\n\n.. math::\n\n   \\begin{x\n\n.. figure:: x.png\n   :figwidth: wide\n\n.. image::\n\n.. list-table::\n\n   * - a\n   * - b\n     - c\n",
        "admonitions": ".. note::\n.. warning:: w\n   :class: x\n.. admonition::\n\n   no title\n.. versionadded::\n.. versionchanged:: 1.0 text\n   more\n.. deprecated:: \n.. VersionAdded:: 1\n",
        "doctest": ">>> print(\n... 1\nfoo\n>>> \n\n    >>> indented\n",
        "lineblock": "| a\n|   b\n|c\n\n- item\n\n  - nested\n - dedented wrongly\n\n1. a\n3. c\n#. auto\n",
        "fieldlists": ":param: no name\n:param a b c d: too many\n:type: x\n:raises: \n:returns\n:rtype\n::\n:param x: ok\n:param x: twice\n:keyword k:\n:ivar: \n:var 1: digit\n:param *args: star\n:param **kw: stars\n",
    }
    for name, body in rst_blocks.items():
        A(case(f"rst-{name}", {"pk/m.py": "'''\n" + body + "'''\n__docformat__ = 'restructuredtext'\n"
               "def f(x, *args, **kw):\n" + _doc(body) + "class C:\n" + _doc(body) + "    a = 1\n" + _doc(body)}))
    deep_list = "".join("  " * i + "- level\n\n" for i in range(120))
    deep_quote = "".join("  " * i + "quote\n\n" for i in range(150))
    A(case("rst-deep-nesting", {"pk/m.py": "__docformat__ = 'restructuredtext'\ndef f():\n" + _doc(deep_list) + "def g():\n" + _doc(deep_quote)}))
    A(case("epytext-deep-nesting", {"pk/m.py": "__docformat__ = 'epytext'\ndef f():\n" + _doc("B{" * 400 + "x" + "}" * 400)
           + "def g():\n" + _doc(deep_list.replace("- level", "- level")) + "def h():\n" + _doc("L{" * 50 + "a" + "}" * 50 + " U{" * 50 + "b" + "}" * 50)}))
    A(case("epytext-corners", {"pk/m.py": "__docformat__ = 'epytext'\ndef f(a):\n" + _doc(
        "L{} U{} C{} E{lb} E{nosuch} E{} X{} G{} S{} M{\\frac} I{B{C{M{L{a<b>}}}}} L{text <} L{<a>} L{a <b> <c>} U{x<>}\n"
        "@param: missing\n@param a b: two\n@unknowntag x: y\n@type a: C{int\n@return: r\n@return: twice\n@rtype:\n@raise:\n@raise E\n@see:\n"
        "@note\n@param a: fine\n@param a: again\n@group g: a,b\n@sort: x\n@newfield a, b, c, d: e\n@newfield x: X\n@x: y\n@deffield\n"
        "Heading\n=======\n Wrong indent\n  - list\n - dedent\n1. a\n1. b\n\n>>> doctest\n  literal::\n    block\n   under\n")}))
    # ---- expression forms everywhere an expression is displayed
    exprs = [
        "lambda a=1, *b, c=(yield_ := 2), **d: (a, b)", "(y := 5)", "not not x", "-(-1)", "+1", "~0", "2**-1", "(2**3)**4", "-2**2", "a @ b",
        "a if b else c if d else e", "1 < 2 < 3 != 4", "a[1:2, ::3, ...]", "a[()]", "a[1,]", "f(*a, **b)(c)(d=1)", "f().g[0].h", "[*a, *b]",
        "{**a, 'k': 1}", "{*a}", "{}", "()", "(1,)", "[i for i in x if i for j in i]", "{k: v for k, v in x}", "(i async for i in x)" if False else "(i for i in x)",
        "f'{a!r:>{w}} {{x}} {b=} {c:%Y-%m}'", "f'{\"q\"}' f\"{'z'}\"", "b'\\xff\\x00'", "'a' 'b'", "...", "1j", "-0.0", "1e400", "1_000", "0o7", "0b1",
        "__debug__", "None", "True is not False", "a.b.c.d.e", "x if (yield_) else y", "[[[]]]", "{(): {}}", "'\\N{BULLET}'", "'\\U0001F600'", "\"\"\"tri\nple\"\"\"",
        "r'\\d+\\\\'", "Ellipsis", "NotImplemented", "type(None)", "(lambda: (yield_))()", "a <<= 1" if False else "a << 1", "x[y:=1]", "print(end='')",
        "dict(a=1)['a']", "(a, *b, c)", "-x ** -y", "not a == b", "a and b or c and not d", "[x for x in (yield_,)]",
    ]
    src = "import re, typing, dataclasses, functools\nyield_ = 0\nx = y = a = b = c = d = e = w = f = g = 0\n"
    for i, ex in enumerate(exprs):
        src += f"V{i} = {ex}\n'''doc'''\ndef d{i}(p={ex}, *, q: '{ex if chr(39) not in ex and chr(10) not in ex else 'int'}' = None) -> None:\n    'doc'\n"
    A(case("expression-zoo", {"pk/m.py": src}))
    A(case("decorator-and-base-forms", {"pk/m.py": (
        "import functools, typing, dataclasses\nT = typing.TypeVar('T')\nbases = (object,)\nkw = {}\n"
        "def deco(*a, **k):\n    return lambda f: f\nclass B: pass\nclass M(type): pass\n"
        "@deco\n@deco()\n@deco(1)(2) if False else deco\n@(lambda f: f)\n@deco[0] if False else deco\n@functools.lru_cache(maxsize=None)\n@functools.wraps(deco)\ndef f(): 'doc'\n"
        "class A1(*bases): pass\nclass A2(**kw): pass\nclass A3(B, metaclass=M, x=1): pass\nclass A4(B if True else object): pass\nclass A5(type('X', (), {})): pass\n"
        "class A6(typing.Generic[T]): pass\nclass A7(typing.List[int]): pass\nclass A8((B)): pass\nclass A9(B, *bases[1:]): pass\nclass A10(A10 if False else B): pass\n"
        "class A11(typing.NamedTuple):\n    a: int\n    b: 'str' = ''\nclass A12(typing.TypedDict, total=False):\n    k: int\nclass A13(typing.Protocol[T]):\n    def m(self) -> T: ...\n"
        "@dataclasses.dataclass(frozen=True, **kw)\nclass D1:\n    a: int = dataclasses.field(default_factory=list)\n    b: typing.ClassVar[int] = 1\n    c: dataclasses.InitVar[int] = 2\n"
        "@staticmethod\n@classmethod\n@property\ndef weird(): pass\nclass P:\n    @property\n    @staticmethod\n    def p(): pass\n    @classmethod\n    @property\n    def q(cls): pass\n"
        "    @functools.cached_property\n    def r(self): 'doc'\n    @functools.singledispatchmethod\n    def s(self, a): pass\n    @s.register\n    def _(self, a: int): pass\n")}))
    A(case("python312-statements", {"pk/m.py": (
        "type Alias = int\n'''doc of alias'''\ntype Gen[T] = list[T]\ntype Rec = list[Rec]\nclass C[T: (int, str), *Ts, **P]:\n    type Inner[U] = dict[T, U]\n    def m[V](self, a: V) -> V: 'doc'\n"
        "def f[T = int](a: T = None) -> T: pass\n" if False else
        "type Alias = int\n'''doc of alias'''\ntype Gen[T] = list[T]\ntype Rec = list[Rec]\nclass C[T: (int, str), *Ts, **P]:\n    type Inner[U] = dict[T, U]\n    def m[V](self, a: V) -> V: 'doc'\n"
        "async def co():\n    'doc'\n    async with a as b, c as d:\n        pass\n    async for i in x:\n        pass\n    return [await z async for z in y]\n"
        "def gen():\n    x = yield from g()\n    nonlocal_ = 1\nglobal_name = 1\ndef g2():\n    global global_name\n    global_name = 2\n"
        "match command:\n    case Point(x=0, y=0) | Point(x=1):\n        a1 = 1\n    case [Point(), *rest] if rest:\n        class InCase: 'doc'\n    case {'k': str() as s, **others}:\n        pass\n    case (1 | 2) as n:\n        pass\n"
        "try:\n    pass\nexcept* (ValueError, TypeError) as eg:\n    pass\nwith (a as b, c):\n    pass\nassert x, 'msg'\ndel a1\nprint(f'{x!r:{width}.{prec}}')\nlambda: (yield)\n"
        "x: int\ny: 'List[int]' = []\nz: typing.Final = 3\nclass K:\n    __slots__ = ('a', 'b')\n    __match_args__ = ('a',)\n    a: int\n    def __init_subclass__(cls, /, flag=False, **kw): pass\n"
        "def pos_only(a, b=1, /, c=2, *, d, e=3, **f): 'doc'\ndef only_kw(*, a): pass\ndef star(*a: int, **k: str) -> 'None': pass\n")}))
    # ---- string / bytes docstrings that are not plain literals
    A(case("docstring-forms", {"pk/m.py": (
        "f'''not a docstring {1}'''\ndef a():\n    f'f-string {a}'\ndef b():\n    b'bytes'\ndef c():\n    'a' 'b' 'c'\ndef d():\n    ('parenthesised')\ndef e():\n    '''\\\n    continuation\\\n    lines'''\n"
        "def f():\n    '\\x00\\x01\\x1b[31m\\r\\n\\t\\v\\f'\ndef g():\n    r'raw \\d \\\\'\ndef h():\n    u'unicode \\u2028 \\u2029 \\x85'\ndef i():\n    '\\n\\n\\n'\ndef j():\n    ''\n"
        "class K:\n    'doc'\n    'second string'\n    x = 1\n    'x doc'\n    'x second'\n    b'bytes after'\n    f'fstring after'\n")}))
    A(case("names-that-are-special", {"pk/m.py": (
        "__all__ = ['__doc__', '__name__', 'None', '']\n__doc__ = 'assigned'\n__name__ = 'renamed'\n__file__ = 1\n__path__ = []\n__docformat__ = __doc__\n__version__ = '1'\n"
        "class object: pass\nclass type: pass\nclass property: pass\nclass staticmethod: pass\ndef classmethod(f): return f\nclass overload: pass\nclass Exception: pass\nclass E(Exception): pass\n"
        "class C:\n    __doc__ = 'cls'\n    __module__ = 'elsewhere'\n    __qualname__ = 'Q'\n    __dict__ = {}\n    __class__ = int\n    __init__ = None\n    __new__ = 1\n    mro = 1\n    @property\n    def p(self): pass\n    @classmethod\n    def q(cls): pass\n"),
        "pk/__main__.py": "print(1)\n", "pk/__init__.py": "from . import __main__\n", "pk/index.py": "x = 1\n", "pk/moduleIndex.py": "y = 1\n",
        "pk/CON.py": "z = 1\n", "pk/a b.py": "w = 1\n", "pk/-dash.py": "v = 1\n", "pk/déjà.py": "u = 1\n"}))
    # ---- leads of the round-10 seeding agents
    A(case("string-annotations-that-do-not-parse", {"pk/m.py": (
        "from typing import List, TypeAlias\nT = List[int]\nT += \"x[\"\nT: TypeAlias\nU: TypeAlias = 'List['\nU += 'int]'\n"
        "def f(a: \"" + "-" * 3000 + "1\", b: '(' = 1) -> \"" + "(" * 400 + "\": pass\nv: \"" + "[" * 1500 + "\" = 0\n"
        "class C:\n    w: 'a b' = 1\n    w += 'c d'\n")}))
    A(case("class-name-longer-than-a-file-name", {"pk/m.py": "class " + "K" * 260 + ":\n    'doc'\n    def m(self): pass\nclass Short(" + "K" * 260 + "):\n    pass\n"}))
    A(case("calls-that-unpack-their-arguments", {"pk/m.py": (
        "import re, attr, functools\nfrom twisted.python.deprecate import deprecated\nfrom incremental import Version\n"
        "ARGS = (r'\\d+', re.I)\nKW = {'flags': re.I}\nOPTIONS = ()\n"
        "PAT = re.compile(*ARGS)\n'doc'\nPAT2 = re.compile(*ARGS, **KW)\nPAT3 = re.compile(**KW)\nPAT4 = re.compile()\nPAT5 = re.compile('a', 'b', 'c', 'd')\n"
        "def lexer(text, pattern=re.compile(*ARGS), other=re.compile(pattern='x', *ARGS)):\n    'doc'\n"
        "def deco(*a, **k):\n    return lambda f: f\n@deco(re.compile(*ARGS))\ndef decorated(): 'doc'\n"
        "@attr.s(*OPTIONS)\nclass A:\n    x = attr.ib(*OPTIONS)\n    y = attr.ib(**KW)\n@attr.s(**KW)\nclass B:\n    pass\n"
        "@deprecated(*ARGS)\ndef old(): 'doc'\n@deprecated(**KW)\nclass Old: pass\n@deprecated(Version(*ARGS))\ndef older(): pass\n")}))
    A(case("file-names-that-are-not-utf8", {"pk/q\udcff.py": "def f():\n    'doc'\nclass K:\n    'doc'\n", "pk/sub\udcfe/__init__.py": "x = 1\n",
                                             "pk/sub\udcfe/m.py": "from .. import *\nclass M: pass\n", "pk/__init__.py": "'doc'\n"}))
    # ---- leads of the round-11 seeding agents: section headings whose anchors have to be told apart
    long1 = "Converting the legacy configuration files of the previous major version to the new format, on the command line"
    long2 = "Converting the legacy configuration files of the previous major version to the new format, from Python code"
    heads = [long1, long2, long1, "Usage", "Usage", "Usage", "Usage-1", "Usage 1", "1", "\u4f7f\u3044\u65b9", "\u4f7f\u3044\u65b9", "---", "W" * 600, "W" * 600 + " again", ("word " * 80).strip(), ("word " * 80) + "more"]

    groups = [[long1, long2, long1], ["Usage", "Usage", "Usage", "Usage-1", "Usage 1"], ["1", "1"], ["\u4f7f\u3044\u65b9", "\u4f7f\u3044\u65b9", "\u4f7f\u3044\u65b9-1"],
              ["W" * 600, "W" * 600 + " again", "W" * 600], [("word " * 80).strip(), ("word " * 80) + "more"], heads]

    def sections(hs: List[str], under: str) -> str:
        return "Intro.\n\n" + "".join(f"{h}\n{under * max(len(h), 3)}\n\nText about it.\n\n" for h in hs)

    def module(fmt: str, u1: str, u2: str) -> str:
        return f"__docformat__ = '{fmt}'\n" + "".join(f"def f{k}():\n" + _doc(sections(g, u1)) + f"def g{k}():\n" + _doc(sections(g, u2)) for k, g in enumerate(groups))
    A(case("section-headings-that-repeat", {"pk/e.py": module("epytext", "=", "-"), "pk/r.py": module("restructuredtext", "=", "~"),
                                            "pk/n.py": "__docformat__ = 'numpy'\ndef f():\n" + _doc("Summary.\n\nNotes\n-----\nx\n\nNotes\n-----\ny\n\n" + long1 + "\n" + "-" * len(long1) + "\nz\n")}))
    # ---- options that change how the tree enters the system (the trees are ordinary)
    two = {"a.py": "from fake.b import f\nimport fake.b\nimport fake\ndef g():\n    'doc'\n", "b.py": "from fake import a\ndef f():\n    'doc'\n"}
    for name, roots in (("importer-first", ["a.py", "b.py"]), ("imported-first", ["b.py", "a.py"])):
        A({**case("prepend-package-" + name, two, roots), "extra": ["--prepend-package=fake"]})
    A({**case("prepend-package-dotted", {"pk/__init__.py": "from top.sub.pk import m\n", "pk/m.py": "import top.sub\nfrom top import sub\nclass K: pass\n"}), "extra": ["--prepend-package=top.sub"]})
    return out
