"""
Shared plumbing of the pydoctor verification harness.

* Ctx      - one run of one property check (tier, seed, scratch dir, counters, verdict, evidence)
* run_tlc  - run TLC on a module of /verif/spec (copied to scratch), parse counters and PrintT JSON
* findings - classification of observed violations against /verif/known_findings.json

Verdict discipline (DESIGN.md 2.4):
  exit 1 + "VIOLATION property=<id> replay=<path>"  only for a property violation observed on the REAL code
  exit 0 + "KNOWN-FINDING: property=<id> ..."       for violations listed (open) in known_findings.json
  exit 2                                             machinery failure (TLC error, spec/CPython disagreement...)
"""
from __future__ import annotations

import hashlib
import json
import os
import re
import shutil
import subprocess
import sys
import tempfile
import time
from pathlib import Path
from typing import Any, Callable, Dict, Iterable, List, Optional, Sequence

VERIF = Path(__file__).resolve().parent.parent
SPEC_DIR = VERIF / "spec"
EVIDENCE_DIR = VERIF / "evidence"
REPLAY_DIR = VERIF / "replays"
KNOWN_FINDINGS = VERIF / "known_findings.json"
TLA_JAR = "/opt/veriftools/tla/tla2tools.jar:/opt/veriftools/tla/CommunityModules-deps.jar"
NCPU = os.cpu_count() or 4


class MachineryError(Exception):
    """Our own tooling failed (never reported as a VIOLATION)."""


# --------------------------------------------------------------------------------------------- TLC

class TLCResult:
    def __init__(self, rc: int, out: str, wall: float):
        self.rc = rc
        self.out = out
        self.wall = wall
        self.generated = 0
        self.distinct = 0
        self.depth = 0
        self.violated: List[str] = []      # names of violated invariants / properties
        self.errors: List[str] = []        # other "Error:" lines
        self.printed: List[Any] = []       # values printed with PrintT(ToJson(..))
        self.raw_printed: List[str] = []   # other PrintT lines
        self.coverage: Dict[str, int] = {} # action name -> distinct states found by it (-coverage)
        self._parse()

    def _parse(self) -> None:
        for line in self.out.splitlines():
            s = line.strip()
            if not s:
                continue
            m = re.match(r"^(\d+) states generated, (\d+) distinct states found", s)
            if m:
                self.generated, self.distinct = int(m.group(1)), int(m.group(2))
                continue
            m = re.match(r"^The depth of the complete state graph search is (\d+)", s)
            if m:
                self.depth = int(m.group(1))
                continue
            m = re.match(r"^Error: Invariant (\S+) is violated", s)
            if m:
                self.violated.append(m.group(1))
                continue
            m = re.match(r"^Error: Action property (\S+) is violated", s)
            if m:
                self.violated.append(m.group(1))
                continue
            if s.startswith("Error: Temporal properties were violated"):
                self.violated.append("<temporal>")
                continue
            if s.startswith("Error: The behavior up to this point is") and self.violated:
                continue                         # the counterexample of the invariant/property violation reported above
            if s.startswith("Error:"):
                self.errors.append(s)
                continue
            m = re.match(r"^<(\w+) line \d+, col \d+ to line \d+, col \d+ of module (\w+)>: (\d+):(\d+)", s)
            if m:
                self.coverage[m.group(1)] = self.coverage.get(m.group(1), 0) + int(m.group(3))
                continue
            if s.startswith('"') and s.endswith('"'):
                try:
                    inner = json.loads(s)
                    if isinstance(inner, str) and inner[:1] in "[{":
                        self.printed.append(json.loads(inner))
                        continue
                except Exception:
                    pass
                self.raw_printed.append(s)
            elif s.startswith("<<") or s.startswith("["):
                self.raw_printed.append(s)

    @property
    def ok(self) -> bool:
        """TLC finished model checking without any error."""
        return self.rc == 0 and not self.violated and not self.errors

    def summary(self) -> Dict[str, Any]:
        return {"generated": self.generated, "distinct": self.distinct, "depth": self.depth,
                "violated": self.violated, "errors": self.errors[:5], "wall_s": round(self.wall, 2)}


def stage_specs(scratch: Path) -> Path:
    """Copy the spec family to scratch so generated MC_* modules and TLC metadata never touch /verif/spec."""
    dst = scratch / "spec"
    if not dst.exists():
        shutil.copytree(SPEC_DIR, dst)
    return dst


def run_tlc(scratch: Path, module: str, cfg: str, *, workers: int | str = "auto", env: Dict[str, str] | None = None,
            simulate: str | None = None, depth: int | None = None, seed: int | None = None, timeout: int = 1200,
            coverage: bool = False, deadlock: bool = False, extra: Sequence[str] = (), java_opts: Sequence[str] = (),
            cfg_name: str | None = None, check: bool = False) -> TLCResult:
    """
    Run TLC on spec/<module>.tla (staged into scratch) with the given cfg *text*.
    `simulate`: e.g. "num=1000" -> -simulate num=1000.  `check`: raise MachineryError unless TLC ends cleanly
    (invariant violations are NOT machinery errors; they are reported in .violated).
    """
    sdir = stage_specs(scratch)
    cfgp = sdir / (cfg_name or f"{module}_{hashlib.sha1(cfg.encode()).hexdigest()[:8]}.cfg")
    cfgp.write_text(cfg)
    meta = scratch / f"meta_{cfgp.stem}_{time.time_ns()}"
    cmd = ["java", "-XX:+UseParallelGC", "-Xss16m", *java_opts, "-cp", TLA_JAR, "tlc2.TLC",
           "-noGenerateSpecTE", "-metadir", str(meta), "-config", str(cfgp),
           "-workers", str(workers)]
    if not deadlock:
        cmd.append("-deadlock")           # -deadlock = do NOT check for deadlock
    if coverage:
        cmd += ["-coverage", "1"]
    if simulate is not None:
        cmd += ["-simulate", simulate]
    if depth is not None:
        cmd += ["-depth", str(depth)]
    if seed is not None:
        cmd += ["-seed", str(seed)]
    cmd += list(extra)
    cmd.append(str(sdir / f"{module}.tla"))
    e = dict(os.environ)
    e.pop("JAVA_TOOL_OPTIONS", None)
    if env:
        e.update(env)
    t0 = time.time()
    try:
        p = subprocess.run(cmd, cwd=str(sdir), env=e, capture_output=True, text=True, timeout=timeout)
    except subprocess.TimeoutExpired as ex:
        raise MachineryError(f"TLC timeout after {timeout}s on {module}") from ex
    finally:
        shutil.rmtree(meta, ignore_errors=True)
    res = TLCResult(p.returncode, p.stdout + "\n" + p.stderr, time.time() - t0)
    if check and (res.errors or (res.rc != 0 and not res.violated)):
        tail = "\n".join(res.out.splitlines()[-40:])
        raise MachineryError(f"TLC failed on {module} (rc={res.rc}): {res.errors[:3]}\n{tail}")
    return res


def sany(module_path: Path) -> bool:
    p = subprocess.run(["java", "-cp", TLA_JAR, "tla2sany.SANY", str(module_path)], cwd=str(module_path.parent),
                       capture_output=True, text=True)
    return p.returncode == 0 and "Semantic errors" not in p.stdout and "Parse Error" not in p.stdout \
        and "Could not parse" not in p.stdout and "***Parse" not in p.stdout


# ----------------------------------------------------------------------------------- TLA+ literals

def tla(v: Any) -> str:
    """Python value -> TLA+ literal (lists -> tuples, sets/frozensets -> sets, dicts with str keys -> records)."""
    if isinstance(v, bool):
        return "TRUE" if v else "FALSE"
    if isinstance(v, int):
        return str(v)
    if isinstance(v, str):
        return json.dumps(v)
    if isinstance(v, (list, tuple)):
        return "<<" + ", ".join(tla(x) for x in v) + ">>"
    if isinstance(v, (set, frozenset)):
        return "{" + ", ".join(sorted(tla(x) for x in v)) + "}"
    if isinstance(v, dict):
        if not v:
            return "[x \\in {} |-> 0]"
        if all(isinstance(k, str) and re.match(r"^[A-Za-z_][A-Za-z0-9_]*$", k) for k in v):
            return "[" + ", ".join(f"{k} |-> {tla(x)}" for k, x in v.items()) + "]"
        return "(" + " @@ ".join(f"({tla(k)} :> {tla(x)})" for k, x in v.items()) + ")"
    if v is None:
        return '"none"'
    raise TypeError(f"no TLA+ literal for {type(v)}")


# ------------------------------------------------------------------------------------------ findings

def load_known_findings(prop: str) -> List[Dict[str, Any]]:
    if not KNOWN_FINDINGS.exists():
        return []
    return [f for f in json.loads(KNOWN_FINDINGS.read_text()) if f.get("property") == prop]


# ----------------------------------------------------------------------------------------------- Ctx

class Ctx:
    """State of one check run."""

    def __init__(self, prop: str, tier: str, seed: int, replay: Optional[str] = None):
        self.prop = prop
        self.tier = tier
        self.seed = seed
        self.replay = replay
        self.t0 = time.time()
        base = os.environ.get("VERIF_SCRATCH") or os.environ.get("TMPDIR") or tempfile.gettempdir()
        self.scratch = Path(tempfile.mkdtemp(prefix=f"verif-{prop}-", dir=base))
        self.level = "model_checking"
        self.states = 0
        self.transitions = 0
        self.traces = 0
        self.evaluations = 0
        self.samples: List[Any] = []
        self.extra: Dict[str, Any] = {}
        self.assumptions: List[str] = []
        self.exhaustive = False
        self.tlc_runs: List[Dict[str, Any]] = []
        self.violations: List[Dict[str, Any]] = []    # unlisted -> exit 1
        self.known_seen: Dict[str, int] = {}           # finding id -> count
        self.known_example: Dict[str, Any] = {}
        self.drift: List[Any] = []
        self.notes: List[str] = []
        self._known = [f for f in load_known_findings(prop) if f.get("status") == "open"]
        self._matchers: Dict[str, Callable[[Dict[str, Any]], bool]] = {}
        self.quick = tier == "quick"
        if not replay and REPLAY_DIR.exists():          # replay files of earlier runs of this property are stale
            for f in REPLAY_DIR.glob(f"{prop}-*.json"):
                try:
                    f.unlink()
                except OSError:
                    pass

    # ---- TLC
    def tlc(self, module: str, cfg: str, **kw: Any) -> TLCResult:
        count = kw.pop("count", True)
        r = run_tlc(self.scratch, module, cfg, **kw)
        if count:
            self.states += r.distinct
            self.transitions += r.generated
        self.tlc_runs.append({"module": module, **r.summary()})
        return r

    def spec_dir(self) -> Path:
        return stage_specs(self.scratch)

    # ---- samples
    def sample(self, x: Any, limit: int = 6) -> None:
        if len(self.samples) < limit:
            self.samples.append(x)

    # ---- verdicts
    def register_matcher(self, finding_id: str, fn: Callable[[Dict[str, Any]], bool]) -> None:
        self._matchers[finding_id] = fn

    def violation(self, witness: Dict[str, Any]) -> str:
        """
        Record a property violation observed on the real implementation.
        `witness` must contain 'invariant' and enough to re-run ('input' / 'behaviour' ...).
        Returns 'known:<id>' or 'new'.
        """
        for f in self._known:
            fn = self._matchers.get(f["id"])
            if fn is not None:
                try:
                    hit = fn(witness)
                except Exception:
                    hit = False
                if hit:
                    self.known_seen[f["id"]] = self.known_seen.get(f["id"], 0) + 1
                    self.known_example.setdefault(f["id"], witness)
                    return "known:" + f["id"]
        if len(self.violations) < 200:
            self.violations.append(witness)
        else:
            self.extra["violations_truncated"] = self.extra.get("violations_truncated", 0) + 1
        return "new"

    def drift_note(self, x: Any) -> None:
        if len(self.drift) < 50:
            self.drift.append(x)
        self.extra["drift_count"] = self.extra.get("drift_count", 0) + 1

    # ---- end of run
    def finish(self, rule: str = "", distinct_nontrivial: Optional[int] = None) -> int:
        wall = time.time() - self.t0
        out_lines: List[str] = []
        for f in self._known:
            n = self.known_seen.get(f["id"], 0)
            if n:
                out_lines.append(f"KNOWN-FINDING: property={self.prop} {f['id']}: {f.get('what', '')} (seen {n}x)")
        replay_paths: List[str] = []
        seen_keys = set()
        for w in self.violations:
            key = w.get("key") or hashlib.sha1(json.dumps(w, sort_keys=True, default=str).encode()).hexdigest()[:12]
            if key in seen_keys:
                continue
            seen_keys.add(key)
            if len(replay_paths) >= 30:
                continue
            REPLAY_DIR.mkdir(exist_ok=True)
            path = REPLAY_DIR / f"{self.prop}-{hashlib.sha1(str(key).encode()).hexdigest()[:10]}.json"
            path.write_text(json.dumps({"property": self.prop, "tier": self.tier, "seed": self.seed, **w},
                                       indent=1, default=str))
            replay_paths.append(str(path))
            out_lines.append(f"VIOLATION property={self.prop} replay={path}")
        cov: Dict[str, Any] = {
            "states": self.states, "transitions": self.transitions,
            "traces_validated_against_impl": self.traces,
            "evaluations": max(self.evaluations, self.traces),
            "distinct_nontrivial": distinct_nontrivial if distinct_nontrivial is not None else max(self.evaluations, self.traces),
            "rule": rule,
            "samples": self.samples or ["(no sample recorded)"],
            "exhaustive": self.exhaustive,
            "tlc_runs": self.tlc_runs,
            "known_findings_seen": self.known_seen,
            "known_finding_examples": {k: _shorten(v) for k, v in self.known_example.items()},
            "drift": self.drift,
            "notes": self.notes,
            **self.extra,
        }
        ev = {"property_id": self.prop, "tier": self.tier, "seed": self.seed, "level": self.level,
              "coverage": cov, "assumptions": self.assumptions, "wall_s": round(wall, 2),
              "violations": len(seen_keys)}
        if not self.replay:
            EVIDENCE_DIR.mkdir(exist_ok=True)
            (EVIDENCE_DIR / f"{self.prop}.json").write_text(json.dumps(ev, indent=1, default=str))
        for l in out_lines:
            print(l)
        print(f"[{self.prop}] tier={self.tier} seed={self.seed} states={self.states} transitions={self.transitions} "
              f"traces/behaviours bound to impl={self.traces} known={sum(self.known_seen.values())} "
              f"violations={len(seen_keys)} wall={wall:.1f}s")
        self.cleanup()
        return 1 if seen_keys else 0

    def cleanup(self) -> None:
        shutil.rmtree(self.scratch, ignore_errors=True)


def _shorten(v: Any, n: int = 2000) -> Any:
    s = json.dumps(v, default=str)
    return v if len(s) <= n else s[:n] + "..."


def chunks(seq: Sequence[Any], n: int) -> Iterable[Sequence[Any]]:
    for i in range(0, len(seq), n):
        yield seq[i:i + n]
