"""
Third batch of adversarial source trees for C01 (round 7 of the seeded changes and the leads of the seeding agents).
Same format as harness/adversarial.py.
"""
from __future__ import annotations

from typing import Any, Dict, List

from .adversarial import case

FF = "\\x0c"            # written as an escape in the generated source: the docstring VALUE contains a form feed
NONCHAR = "\\uffff"
NONCHAR2 = "\\ufffe"


def cases3() -> List[Dict[str, Any]]:
    out: List[Dict[str, Any]] = []
    A = out.append
    # a docstring that parses but cannot be converted to HTML, rendered for an object that does not own it
    A(case("unconvertible-docstring-inherited", {"pk/m.py": (
        "class Base:\n"
        f"    def m(self):\n        'text with a form feed {FF} inside'\n"
        f"    def n(self):\n        'non character {NONCHAR}'\n"
        "class Sub(Base):\n    def m(self):\n        pass\n    def n(self):\n        pass\n"
        "class Deeper(Sub):\n    def m(self): pass\n")}))
    A(case("unconvertible-field-of-undocumented-attribute", {
        "pk/m.py": (
            f"'''\nModule.\n\n@var z: module variable {FF}\n'''\n"
            f"class C:\n    '''\n    Summary.\n\n    @ivar x: form feed {FF} here\n    @cvar y: non character {NONCHAR2}\n    @type x: C{{int}} {FF}\n    '''\n"
            "    x = 1\n    y = 2\nz = 3\n"),
        "pk/r.py": (
            f"'''\nModule.\n\n:var w: rst {FF} field\n'''\n__docformat__ = 'restructuredtext'\nw = 1\n"
            f"class K:\n    '''\n    Class.\n\n    :ivar a: text {NONCHAR}\n    '''\n    a = 1\n"),
        "pk/g.py": (
            "__docformat__ = 'google'\n"
            f"class G:\n    '''Summary.\n\n    Attributes:\n        a (int {NONCHAR}): text {FF}\n    '''\n    a = 1\n")}))
    # nested packages not analysed yet, entered from a module analysed before them
    A(case("nested-packages-deep-import-first", {
        "proj/__init__.py": "", "proj/a_tool.py": "from proj.lib.core.util import clamp\n",
        "proj/lib/__init__.py": "from .core import api\n", "proj/lib/core/__init__.py": "from . import api\n",
        "proj/lib/core/api.py": "from .util import clamp\n", "proj/lib/core/util.py": "def clamp(): pass\n",
        "proj/zz_tool.py": "import proj.lib.core.api\n"}, roots=["proj"]))
    A(case("nested-packages-three-levels", {
        "top.py": "from q.r.s.t import leaf\n", "q/__init__.py": "from .r import s\n", "q/r/__init__.py": "from .s import t\n",
        "q/r/s/__init__.py": "from . import t\n", "q/r/s/t.py": "leaf = 1\n"}, roots=["top.py", "q"]))
    # type comments that are not expressions
    A(case("type-comment-not-an-expression", {"pk/m.py": (
        "timeout = 3  # type: in seconds\nretries = {}  # type: Dict[str, int\n"
        "class C:\n    x = 1  # type: (\n    def f(self):\n        self.y = 2  # type: 1 +\n"
        "z = []  # type: ignore[assignment]\nw = 1  # type: lambda\n")}))
    # a package that re-exports a module which imports the package back while it is still analysed
    A(case("reexport-of-module-importing-back", {"a/__init__.py": "__all__ = ['m']\nfrom b import m\n", "b/__init__.py": "", "b/m.py": "import a\nclass K: pass\n"},
           roots=["a", "b"]))
    for k, roots in enumerate((["pkg", "y.py"], ["y.py", "pkg"])):
        A(case(f"module-reexported-while-analysed-{k}", {"pkg/__init__.py": "", "pkg/x.py": "import y\nclass X: pass\n", "y.py": "from pkg import x\n__all__ = ['x']\n"}, roots=roots))
    A(case("root-module-named-index", {"index.py": "def f():\n    'doc'\nclass K: pass\n"}, roots=["index.py"]))
    A(case("setter-named-like-nested-class", {"pk/m.py": "class A:\n    class x: pass\n    @x.setter\n    def x(self, v): pass\n    @property\n    def y(self): pass\n    class y: pass\n"}))
    # --- round 8
    A(case("constructors-without-parameters", {"pk/m.py": (
        "class Token:\n    def __init__():\n        'no self'\n    @classmethod\n    def blank() -> 'Token':\n        'factory without cls'\n"
        "class Other:\n    def __new__():\n        pass\n    @staticmethod\n    def make() -> 'Other': pass\n    @classmethod\n    def build(*args) -> 'Other': pass\n")}))
    A(case("type-field-for-missing-variable-inherited", {
        "pk/m.py": (
            "class Base:\n    \"\"\"\n    Base.\n\n    @type colour: C{str}\n    @type size: C{int}\n    \"\"\"\n    size = 1\n"
            "class Sub(Base):\n    'sub'\n    def m(self): pass\nclass SubSub(Sub):\n    pass\n"),
        "pk/r.py": "__docformat__ = 'restructuredtext'\nclass RBase:\n    \"\"\"\n    Base.\n\n    :type ghost: str\n    \"\"\"\nclass RSub(RBase):\n    pass\n"}))
    for k, (plug, pub) in enumerate((("aplugin", "zpublic"), ("zplugin", "apublic"))):
        A(case(f"class-moved-while-its-body-is-visited-{k}", {
            "app/__init__.py": "",
            f"app/{plug}.py": f"class Plugin:\n    'doc'\n    from app.{pub} import registry\n    def run(self): pass\nclass After:\n    pass\n",
            f"app/{pub}.py": f"from app.{plug} import Plugin\n__all__ = ['Plugin', 'registry']\nregistry = []\n"}, roots=["app"]))
    A(case("huge-hex-integer", {"pk/m.py": "X = 0x" + "f" * 4000 + "\n'doc'\ndef f(a=0x" + "e" * 3800 + "): pass\n"}))
    # --- round 9
    # either half of a surrogate pair, alone, wherever a docstring or a string value is read
    A(case("lone-surrogate-halves", {"pk/m.py": (
        "'''module \\udc00 low half'''\n"
        "def f():\n    'trailing half \\udfff'\n"
        "def g():\n    'leading half \\udbff'\n"
        "class C:\n    'both \\udc00\\ud800 in the wrong order'\n    x = 1\n    'attribute doc \\udead'\n"
        "    def m(self, a='\\udfff'):\n        '@param a: value \\udc80'\n"
        "Y = '\\udfff'\n'doc of Y \\ude00'\n")}))
    # zope interfaces spread over modules that import each other: the derived interface is visited before / after its base exists
    for k, (base, derived) in enumerate((("a_base", "b_derived"), ("b_base", "a_derived"))):
        A(case(f"zope-interface-cycle-{k}", {
            "zc/__init__.py": "",
            f"zc/{base}.py": f"from zope.interface import Interface\nfrom zc import {derived}\nclass IBase(Interface):\n    def ping():\n        'Ping.'\n",
            f"zc/{derived}.py": f"from zc.{base} import IBase\nclass IDerived(IBase):\n    'derived'\n    def pong():\n        'Pong.'\nclass IDeeper(IDerived):\n    pass\n",
            "zc/zimpl.py": f"from zope.interface import implementer\nfrom zc.{derived} import IDerived, IDeeper\n@implementer(IDerived)\nclass Impl:\n    def ping(self): pass\n    def pong(self): pass\n"
                           "@implementer(IDeeper)\nclass Impl2(Impl):\n    pass\n"}, roots=["zc"]))
    # a function that has overloads only (no implementation), with and without annotations, in a class and in a module
    A(case("overloads-without-implementation", {"pk/m.py": (
        "from typing import overload\n@overload\ndef f(a: int) -> int: ...\n@overload\ndef f(a: str) -> str: ...\n"
        "class C:\n    @overload\n    def m(self, a: int) -> int:\n        '''\n        @param a: documented\n        '''\n    @overload\n    def m(self, a): ...\n"),
        "pk/stub.pyi": "from typing import overload\n@overload\ndef g(a: int) -> int: ...\n"}))
    return out
