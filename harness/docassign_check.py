"""
C03 side check: docstrings replaced by an assignment to __doc__ (`C.__doc__ = "..."`, `f.__doc__ = "..."`, `mod.K.__doc__`
from another module).  The docstring pydoctor carries for the object - in the model AND in what it renders (parsed
docstring, summary) - must be the one the interpreter reports after importing the package.
"""
from __future__ import annotations

import json
import subprocess
import sys
from pathlib import Path
from typing import Any, Dict, List

from . import projects as P

FILES = {
    "dp/__init__.py": "",
    "dp/own.py": (
        "class WithDoc:\n    '''original text of WithDoc'''\n    def meth(self):\n        '''original text of meth'''\n"
        "class NoDoc:\n    pass\n"
        "def func():\n    '''original text of func'''\n"
        "def bare():\n    pass\n"
        "class Twice:\n    '''original text of Twice'''\n"
        "WithDoc.__doc__ = 'replaced text of WithDoc'\n"
        "NoDoc.__doc__ = 'first text of NoDoc'\n"
        "func.__doc__ = 'replaced text of func'\n"
        "bare.__doc__ = 'first text of bare'\n"
        "WithDoc.meth.__doc__ = 'replaced text of meth'\n"
        "Twice.__doc__ = 'second text of Twice'\n"
        "Twice.__doc__ = 'third text of Twice'\n"
        "class Inside:\n    '''original text of Inside'''\n    def m(self):\n        '''original text of m'''\n    m.__doc__ = 'replaced text of m'\n"
    ),
    "dp/target.py": "class Far:\n    '''original text of Far'''\n    x = 1\ndef far_func():\n    '''original text of far_func'''\n",
    "dp/zsetter.py": "from dp import target\nfrom dp.target import far_func\ntarget.Far.__doc__ = 'replaced text of Far'\nfar_func.__doc__ = 'replaced text of far_func'\n",
    # the module that assigns is analysed BEFORE the module it reaches through `from package import module`
    "dp/ztarget.py": "class Late:\n    'original text of Late'\n    def m(self):\n        'original text of Late.m'\ndef late_func():\n    'original text of late_func'\n",
    "dp/asetter.py": ("from dp import ztarget\nfrom . import ztarget as zt\nztarget.Late.__doc__ = 'replaced text of Late'\n"
                      "zt.late_func.__doc__ = 'replaced text of late_func'\nztarget.Late.m.__doc__ = 'replaced text of Late.m'\n"),
}
ORACLE = ("import sys, json, importlib, inspect; sys.path.insert(0, sys.argv[1])\n"
          "import dp.own, dp.target, dp.zsetter, dp.ztarget, dp.asetter\n"
          "out = {}\n"
          "for m in (dp.own, dp.target, dp.ztarget):\n"
          "    for n, v in vars(m).items():\n"
          "        if n.startswith('_') or getattr(v, '__module__', None) != m.__name__: continue\n"
          "        out[m.__name__ + '.' + n] = inspect.getdoc(v)\n"
          "        if isinstance(v, type):\n"
          "            for k, w in vars(v).items():\n"
          "                if inspect.isfunction(w): out[m.__name__ + '.' + n + '.' + k] = inspect.getdoc(w)\n"
          "print(json.dumps(out))")


FIELDS_SRC = ('"""Module.\n\n@type x: int\n@var y: doc of y\n@type w: str\n@var w: both fields\n"""\n'
              "x = 1\ny = 2\nz = 3\nw = 'w'\n"
              'class K:\n    """\n    Class.\n\n    @type a: int\n    @cvar b: doc of b\n    @ivar c: doc of c\n    """\n'
              "    a = 1\n    b = 2\n    c = 3\n    d = 4\n")
FIELDS_ORACLE = ("import sys, json; sys.path.insert(0, sys.argv[1]); import fieldsmod as m\n"
                 "print(json.dumps({'fieldsmod': sorted(n for n in vars(m) if not n.startswith('__')),"
                 " 'fieldsmod.K': sorted(n for n in vars(m.K) if not n.startswith('__'))}))")


def check_fields(scratch: Path) -> List[Dict[str, Any]]:
    """Variables that also have a @type / @var / @cvar / @ivar field in the docstring of their module or class are bound by the
       code like any other: they must be documented (present, with a kind, visible)."""
    base = scratch / "fieldsmod_dir"
    base.mkdir(parents=True)
    (base / "fieldsmod.py").write_text(FIELDS_SRC)
    r = subprocess.run([sys.executable, "-I", "-c", FIELDS_ORACLE, str(base)], capture_output=True, text=True, timeout=60)
    if r.returncode != 0:
        raise RuntimeError("fields oracle failed: " + r.stderr[-400:])
    want = json.loads(r.stdout)
    b = P.build_sources(paths=[base / "fieldsmod.py"], record_states=False)
    out: List[Dict[str, Any]] = []
    for scope, names in want.items():
        so = b["system"].allobjects.get(scope)
        for n in names:
            o = so.contents.get(n) if so is not None else None
            if o is None or o.kind is None or not o.isVisible:
                out.append({"object": f"{scope}.{n}", "expected": "documented", "what": "variable with a docstring field",
                            "got": None if o is None else f"kind={o.kind} visible={o.isVisible}"})
    return out


OVERLOAD_SRC = ("from typing import overload\nclass C:\n    @overload\n    def f(self, a: int) -> int: ...\n    @overload\n    def f(self, a: str) -> str: ...\n"
                "    x = 1\n    def f(self, a):\n        'doc of f'\n    y = 2\n    def g(self):\n        'doc of g'\n"
                "@overload\ndef h(a: int) -> int: ...\nz = 3\ndef h(a):\n    'doc of h'\n")


def check_overload_neighbours(scratch: Path) -> List[Dict[str, Any]]:
    """A variable assigned just before a function definition has no docstring (a string in the function body documents the function)."""
    b = P.build_sources(texts=[("ovm", OVERLOAD_SRC)], record_states=False)
    out: List[Dict[str, Any]] = []
    for name in ("ovm.C.x", "ovm.C.y", "ovm.z"):
        o = b["system"].allobjects.get(name)
        if o is None or o.docstring is not None:
            out.append({"object": name, "expected": None, "what": "docstring of a variable assigned before a function definition",
                        "got": None if o is None else o.docstring})
    for name, doc in (("ovm.C.f", "doc of f"), ("ovm.C.g", "doc of g"), ("ovm.h", "doc of h")):
        o = b["system"].allobjects.get(name)
        if o is None or o.docstring != doc:
            out.append({"object": name, "expected": doc, "what": "docstring in the model", "got": None if o is None else o.docstring})
    return out


def _names(system: Any, modname: str) -> Dict[str, Any]:
    """name -> docstring for everything documented in the module and in its classes (qualified by the class name)."""
    out: Dict[str, Any] = {}
    mod = system.allobjects.get(modname)
    if mod is None:
        return out
    for n, o in mod.contents.items():
        out[n] = o.docstring
        for n2, o2 in getattr(o, "contents", {}).items():
            out[f"{n}.{n2}"] = o2.docstring
    return out


_NS_ORACLE = ("import sys, json, inspect, importlib; sys.path.insert(0, sys.argv[1]); m = importlib.import_module(sys.argv[2]); out = {}\n"
              "for n, v in vars(m).items():\n"
              "    if n.startswith('__') or (inspect.ismodule(v)) or getattr(v, '__module__', m.__name__) != m.__name__: continue\n"
              "    out[n] = inspect.getdoc(v) if (inspect.isclass(v) or inspect.isroutine(v)) else None\n"
              "    if inspect.isclass(v):\n"
              "        for k, w in vars(v).items():\n"
              "            if k.startswith('__') and k != '__init__': continue\n"
              "            f = w.__func__ if isinstance(w, (staticmethod, classmethod)) else w\n"
              "            out[n + '.' + k] = inspect.getdoc(f) if inspect.isroutine(f) else None\n"
              "print(json.dumps(out))")


def _cpython_names(base: Path, modname: str) -> Dict[str, Any]:
    r = subprocess.run([sys.executable, "-I", "-c", _NS_ORACLE, str(base), modname], capture_output=True, text=True, timeout=60)
    if r.returncode != 0:
        raise RuntimeError("namespace oracle failed: " + r.stderr[-400:])
    return json.loads(r.stdout)


def _diff(what: str, want: Dict[str, Any], got: Dict[str, Any]) -> List[Dict[str, Any]]:
    out = []
    for n in sorted(set(want) | set(got)):
        if n not in got:
            out.append({"object": n, "expected": "documented", "got": None, "what": what + ": missing"})
        elif n not in want:
            out.append({"object": n, "expected": "not bound by the code", "got": "documented", "what": what + ": invented"})
        elif want[n] is not None and want[n] != got[n]:
            out.append({"object": n, "expected": want[n], "got": got[n], "what": what + ": docstring"})
    return out


REBUILD_V1 = "class OldClass:\n    'old class'\n    def method(self):\n        'old method'\ndef old_func():\n    'old func'\ndef stays():\n    'first version'\n"
REBUILD_V2 = "class NewClass:\n    'new class'\n    @classmethod\n    def make(cls):\n        'make'\nasync def new_coro():\n    'coro'\ndef stays():\n    'second version'\n"


def check_rebuild_history(scratch: Path) -> List[Dict[str, Any]]:
    """History: analyse a file, edit it, analyse it again with a new System in the same process: the second documentation is that
       of the second text."""
    base = scratch / "rebuild"
    base.mkdir(parents=True)
    f = base / "proj.py"
    out: List[Dict[str, Any]] = []
    for step, text in (("first build", REBUILD_V1), ("second build (file edited)", REBUILD_V2)):
        f.write_text(text)
        want = _cpython_names(base, "proj")
        b = P.build_sources(paths=[f], record_states=False)
        out += _diff("rebuild history, " + step, want, _names(b["system"], "proj"))
    return out


OLDSTYLE_SRC = ("class Registry:\n    'doc'\n    def register(func, name=None):\n        'register'\n        func.registered_name = name\n        func.enabled = True\n"
                "    register = staticmethod(register)\n"
                "    def configure(klass, strict=False):\n        'configure'\n        klass.strict = strict\n    configure = classmethod(configure)\n"
                "    def plain(self):\n        'plain'\n        self.seen = 1\n")
OWN_OVERLOAD_SRC = ("def overload(func):\n    'a dispatch helper of the project, not typing.overload'\n    return func\n"
                    "@overload\ndef area(shape):\n    'area of a shape'\n"
                    "class Canvas:\n    'canvas'\n    @overload\n    def draw(self, shape):\n        'draw a shape'\n    @staticmethod\n    @overload\n    def blank():\n        'a blank canvas'\n")


def check_statics(scratch: Path) -> List[Dict[str, Any]]:
    """Old-style static / class methods whose body assigns attributes on their first parameter (not instance variables of the
       class); a project-defined decorator that happens to be called `overload` (the functions keep their docstrings)."""
    base = scratch / "statics"
    base.mkdir(parents=True)
    out: List[Dict[str, Any]] = []
    for modname, src, allow_instance in (("oldstyle", OLDSTYLE_SRC, {"Registry.seen"}), ("ownoverload", OWN_OVERLOAD_SRC, set())):
        (base / f"{modname}.py").write_text(src)
        want = _cpython_names(base, modname)
        b = P.build_sources(paths=[base / f"{modname}.py"], record_states=False)
        got = {n: d for n, d in _names(b["system"], modname).items() if n not in allow_instance}     # instance variables set through self are documented on purpose
        out += _diff(modname, want, got)
    return out


BLANK_SRC = ("class Storage:\n    'Abstract storage.'\n"
             "    def read(self, key):\n        \"\"\"\n        Return the value.\n\n        Raises KeyError.\n        \"\"\"\n"
             "    def write(self, key, value):\n        'Store value under key.'\n"
             "    def flush(self):\n        'Write the pending changes.'\n"
             "    def close(self):\n        'Close the storage.'\n"
             "    def sync(self):\n        'Sync.'\n"
             "class MemoryStorage(Storage):\n    'Keeps everything in a dict.'\n"
             "    def read(self, key):\n        return 1\n"
             "    def write(self, key, value):\n        'In memory.'\n"
             "    def flush(self):\n        \"\"\n        # a blank docstring switches the inherited text off\n"
             "    def close(self):\n        \"\"\"\n        \"\"\"\n"
             "    def sync(self):\n        '   '\n        return None\n"
             "class Deeper(MemoryStorage):\n    'deeper'\n    def flush(self): pass\n    def read(self, key): pass\n    def sync(self): pass\n"
             "def helper():\n    \"\"\n"
             "def spaces():\n    '  \\t '\n"
             "def documented():\n    'Real text.'\n")

_DOC_ORACLE = ("import sys, json, inspect, importlib; sys.path.insert(0, sys.argv[1]); m = importlib.import_module(sys.argv[2]); out = {}\n"
               "for n, v in vars(m).items():\n"
               "    if n.startswith('__'): continue\n"
               "    if inspect.isfunction(v): out[n] = inspect.getdoc(v)\n"
               "    if inspect.isclass(v):\n"
               "        for k, w in vars(v).items():\n"
               "            if inspect.isfunction(w): out[n + '.' + k] = inspect.getdoc(getattr(v, k))\n"
               "print(json.dumps(out))")


def check_blank_docstrings(scratch: Path) -> List[Dict[str, Any]]:
    """The docstring each function / method carries, INCLUDING the one a method without a docstring takes from the class it
       overrides (inspect.getdoc); an explicitly blank docstring is a docstring: it switches the inherited text off.
       'No text' is compared as such (None and '' are the same)."""
    from pydoctor import epydoc2stan, model
    base = scratch / "blank"
    base.mkdir(parents=True)
    (base / "blankmod.py").write_text(BLANK_SRC)
    r = subprocess.run([sys.executable, "-I", "-c", _DOC_ORACLE, str(base), "blankmod"], capture_output=True, text=True, timeout=60)
    if r.returncode != 0:
        raise RuntimeError("docstring oracle failed: " + r.stderr[-400:])
    want = json.loads(r.stdout)
    b = P.build_sources(paths=[base / "blankmod.py"], record_states=False)
    out: List[Dict[str, Any]] = []
    for name, doc in sorted(want.items()):
        o = b["system"].allobjects.get("blankmod." + name)
        if not isinstance(o, model.Function):
            out.append({"object": name, "expected": doc, "got": None, "what": "blank docstrings: missing function"})
            continue
        got, _src = model.get_docstring(o)
        if (got or "").strip() != (doc or "").strip():
            out.append({"object": name, "expected": doc, "got": got, "what": "blank docstrings: docstring (own or inherited)"})
            continue
        shown = rendered_text(o)
        if (doc or "").split() and doc.split()[0] not in shown:
            out.append({"object": name, "expected": doc, "got": shown[:200], "what": "blank docstrings: as rendered"})
        if not (doc or "").strip() and any(w in shown for w in ("pending", "Close the storage", "Sync.")):
            out.append({"object": name, "expected": doc, "got": shown[:200], "what": "blank docstrings: inherited text rendered although switched off"})
    return out


TARGETS_SRC = ("a, b = 1, 2\nc = d = 3\n[e, f] = [4, 5]\n(g, (h, i)) = (1, (2, 3))\nk: int = 5\nm = 1\nm += 1\nn = o = p = 0\n*q, r = [1, 2]\n"
               "s, [t, (u, *v)] = 1, [2, (3, 4)]\n"
               "class C:\n    'doc'\n    x, y = 1, 2\n    z = w = 3\n    [aa, bb] = [1, 2]\n    (cc, (dd, *ee)) = (1, (2, 3))\n"
               "    def f(self):\n        'doc'\n        self.ip, self.iq = 1, 2\n        self.ir = self.it = 3\n        [self.iu, (self.iv, *self.iw)] = [1, (2, 3)]\n")
TARGETS_INSTANCE = {"C.ip", "C.iq", "C.ir", "C.it", "C.iu", "C.iv", "C.iw"}     # bound on instances, documented on purpose


def check_assignment_targets(scratch: Path) -> List[Dict[str, Any]]:
    """Every name an assignment statement binds in a module or class body is documented, whatever the form of the target:
       tuple, list, nested and starred unpacking, chained targets, annotated and augmented assignments (vs the namespace CPython
       builds); the instance variables bound through self in the same forms are documented too."""
    base = scratch / "targets"
    base.mkdir(parents=True)
    (base / "targetsmod.py").write_text(TARGETS_SRC)
    want = _cpython_names(base, "targetsmod")
    b = P.build_sources(paths=[base / "targetsmod.py"], record_states=False)
    got = _names(b["system"], "targetsmod")
    out = _diff("assignment targets", want, {n: d for n, d in got.items() if n not in TARGETS_INSTANCE})
    for n in sorted(TARGETS_INSTANCE - set(got)):
        out.append({"object": n, "expected": "documented (instance variable)", "got": None, "what": "assignment targets: missing"})
    return out


ASYNC_SRC = ("from typing import overload, Awaitable\n"
             "@overload\nasync def fetch(a: int) -> int: ...\n@overload\nasync def fetch(a: str) -> str: ...\ndef fetch(a):\n    'sync implementation returning an awaitable'\n"
             "@overload\ndef send(a: int) -> int: ...\n@overload\ndef send(a: str) -> str: ...\nasync def send(a):\n    'async implementation'\n"
             "async def plain_co():\n    'a coroutine'\ndef plain():\n    'a function'\n"
             "class Client:\n    'doc'\n    @overload\n    async def get(self, a: int) -> int: ...\n    @overload\n    async def get(self, a: str) -> str: ...\n"
             "    def get(self, a):\n        'sync'\n    async def post(self):\n        'co'\n    def put(self):\n        'fn'\n"
             "    async def twice(self):\n        'first, async'\n    def twice(self):\n        'second, sync'\n")
_ASYNC_ORACLE = ("import sys, json, inspect, importlib; sys.path.insert(0, sys.argv[1]); m = importlib.import_module(sys.argv[2]); out = {}\n"
                 "for n, v in vars(m).items():\n"
                 "    if inspect.isfunction(v) and v.__module__ == m.__name__: out[n] = inspect.iscoroutinefunction(v)\n"
                 "    if inspect.isclass(v) and v.__module__ == m.__name__:\n"
                 "        for k, w in vars(v).items():\n"
                 "            if inspect.isfunction(w): out[n + '.' + k] = inspect.iscoroutinefunction(w)\n"
                 "print(json.dumps(out))")


def check_async_kinds(scratch: Path) -> List[Dict[str, Any]]:
    """Coroutine or not: what the interpreter says of the function finally bound to the name (inspect.iscoroutinefunction), also
       when `async def` overload stubs precede a plain implementation (or the reverse) and when a name is defined twice."""
    from pydoctor import model
    base = scratch / "asynckinds"
    base.mkdir(parents=True)
    (base / "asyncmod.py").write_text(ASYNC_SRC)
    r = subprocess.run([sys.executable, "-I", "-c", _ASYNC_ORACLE, str(base), "asyncmod"], capture_output=True, text=True, timeout=60)
    if r.returncode != 0:
        raise RuntimeError("coroutine oracle failed: " + r.stderr[-400:])
    want = json.loads(r.stdout)
    b = P.build_sources(paths=[base / "asyncmod.py"], record_states=False)
    out: List[Dict[str, Any]] = []
    for name, co in sorted(want.items()):
        o = b["system"].allobjects.get("asyncmod." + name)
        if not isinstance(o, model.Function):
            out.append({"object": name, "expected": co, "got": None, "what": "coroutine kind: missing function"})
        elif bool(o.is_async) != co:
            out.append({"object": name, "expected": co, "got": bool(o.is_async), "what": "coroutine kind"})
    return out


OVERRIDE_SRC = ("class Shape:\n    'doc'\n    @property\n    def sides(self):\n        'prop'\n        return 0\n    def area(self):\n        'meth'\n"
                "    kind = 'shape'\n    class Inner:\n        'nested'\n    @classmethod\n    def make(cls):\n        'cm'\n"
                "class Triangle(Shape):\n    'doc'\n    sides = 3\n    kind = 'tri'\n    area = 1.5\n    Inner = None\n    make = 0\n"
                "class Deeper(Triangle):\n    'doc'\n    sides = 4\n    area = 2.5\n"
                # a base whose NAME is bound again further down: the class statement used the binding of its time
                "class Record:\n    'plain'\nclass Entry(Record):\n    'entry'\nclass Record(Exception):\n    'now an exception'\n"
                "class Problem(Exception):\n    'exc'\nclass Timeout(Problem):\n    'timeout'\nclass Problem:\n    'now plain'\n")
OVERRIDE_KNOWN = {"Triangle.area", "Triangle.Inner", "Triangle.make", "Deeper.area"}      # see findings.d: inherited-member-overridden-by-variable
_KIND_ORACLE = ("import sys, json, inspect, importlib; sys.path.insert(0, sys.argv[1]); m = importlib.import_module(sys.argv[2]); out = {}\n"
                "def kind(v):\n"
                "    if inspect.isclass(v): return 'exception' if issubclass(v, BaseException) else 'class'\n"
                "    if isinstance(v, property): return 'property'\n"
                "    if isinstance(v, (classmethod, staticmethod)) or inspect.isfunction(v): return 'function'\n"
                "    return 'variable'\n"
                "for n, v in vars(m).items():\n"
                "    if n.startswith('__'): continue\n"
                "    out[n] = kind(v)\n"
                "    if inspect.isclass(v) and v.__module__ == m.__name__:\n"
                "        for k, w in vars(v).items():\n"
                "            if not k.startswith('__'): out[n + '.' + k] = kind(w)\n"
                "print(json.dumps(out))")


def check_overriding_variables(scratch: Path) -> List[Dict[str, Any]]:
    """What a subclass body binds is documented in the subclass, also when a base class has a member of that name of another sort
       (a class variable overriding an inherited property, method, nested class); and a class keeps the ancestry of the class
       statement's time when the NAME of its base is bound to another class further down (class or exception class)."""
    from pydoctor import model
    base = scratch / "overrides"
    base.mkdir(parents=True)
    (base / "overridemod.py").write_text(OVERRIDE_SRC)
    r = subprocess.run([sys.executable, "-I", "-c", _KIND_ORACLE, str(base), "overridemod"], capture_output=True, text=True, timeout=60)
    if r.returncode != 0:
        raise RuntimeError("kind oracle failed: " + r.stderr[-400:])
    want = json.loads(r.stdout)
    b = P.build_sources(paths=[base / "overridemod.py"], record_states=False)
    K = model.DocumentableKind
    got: Dict[str, str] = {}
    for k, o in b["system"].allobjects.items():
        if k == "overridemod" or " " in k:
            continue
        name = k[len("overridemod."):]
        got[name] = ("exception" if o.kind is K.EXCEPTION else "class") if isinstance(o, model.Class) else \
                    "function" if isinstance(o, model.Function) else "property" if o.kind is K.PROPERTY else "variable"
    out: List[Dict[str, Any]] = []
    for n in sorted(set(want) | set(got)):
        if want.get(n) != got.get(n):
            out.append({"object": n, "expected": want.get(n), "got": got.get(n),
                        "what": "overriding variables: " + ("missing" if n not in got else "invented" if n not in want else "kind"),
                        "known_shape": n in OVERRIDE_KNOWN and n not in got})
    return out


def rendered_text(obj: Any) -> str:
    """The text of the docstring as the pages show it (parsed docstring -> stan -> flattened, tags removed)."""
    import re
    from pydoctor import epydoc2stan
    from pydoctor.stanutils import flatten
    html = flatten(epydoc2stan.format_docstring(obj))
    return re.sub(r"\s+", " ", re.sub(r"<[^>]+>", " ", html)).strip()


PROP_SRC = ("class C:\n    'doc'\n    @property\n    def x(self):\n        'real doc of x'\n        return 1\n    'a stray string after the property'\n"
            "    @property\n    def nodoc(self):\n        return 1\n    'a stray string after a property without docstring'\n"
            "    @property\n    def y(self):\n        'doc of y'\n    @y.setter\n    def y(self, v):\n        'doc of the setter'\n    'a stray string after the setter'\n"
            "    def f(self):\n        'doc of f'\n    'a stray string after a method'\n"
            "    class N:\n        'doc of N'\n    'a stray string after a nested class'\n"
            "    @property\n    def z(self):\n        'doc of z'\n    z.__doc__ = 'z set by assignment'\n"
            "    @property\n    def z2(self):\n        'doc of z2'\n    @property\n    def z3(self):\n        return 3\n"
            "def g():\n    'doc of g'\n'a stray string after a function'\n"
            "C.z2.__doc__ = 'z2 set at module level'\nC.z3.__doc__ = 'z3 set at module level'\nC.f.__doc__ = 'f set at module level'\n")
_PROP_ORACLE = ("import sys, json, inspect, importlib; sys.path.insert(0, sys.argv[1]); m = importlib.import_module(sys.argv[2]); out = {}\n"
                "out['g'] = m.g.__doc__\n"
                "for k, w in vars(m.C).items():\n"
                "    if k.startswith('__'): continue\n"
                "    out['C.' + k] = w.__doc__\n"
                "print(json.dumps(out))")


def check_property_docstrings(scratch: Path) -> List[Dict[str, Any]]:
    """A bare string documents the ASSIGNMENT it follows, nothing else: after the definition of a property (a method, a nested class, a
       function) it is not a docstring of anything.  Compared with the __doc__ CPython gives every member."""
    base = scratch / "propdoc"
    base.mkdir(parents=True)
    (base / "propmod.py").write_text(PROP_SRC)
    r = subprocess.run([sys.executable, "-I", "-c", _PROP_ORACLE, str(base), "propmod"], capture_output=True, text=True, timeout=60)
    if r.returncode != 0:
        raise RuntimeError("property docstring oracle failed: " + r.stderr[-400:])
    want = json.loads(r.stdout)
    b = P.build_sources(paths=[base / "propmod.py"], record_states=False)
    out: List[Dict[str, Any]] = []
    for name, doc in sorted(want.items()):
        o = b["system"].allobjects.get("propmod." + name)
        if o is None:
            out.append({"object": name, "expected": doc, "got": None, "what": "property docstrings: missing member"})
        elif (o.docstring or None) != (doc or None):
            out.append({"object": name, "expected": doc, "got": o.docstring, "what": "property docstrings: docstring in the model"})
    return out


REBOUND_SRC = ("DEFAULT_TIMEOUT = 2.5\nNAME = 'n'\nITEMS = [1]\n"
               "timeout = 30\ntimeout = DEFAULT_TIMEOUT\n"            # a literal, then a name
               "mode = 0\nmode = NAME\n"
               "first = DEFAULT_TIMEOUT\nfirst = 7\n"                 # a name, then a literal
               "twice = 1\ntwice = 'text'\n"                          # two literals of different types
               "seq = 'x'\nseq = ITEMS\nseq = (1, 2)\n"              # literal, name, literal
               "chain = 1\nchain = mode\n"                            # a name bound to a name
               "un, packed = 1, 2\nun = 'again'\n"
               "lit = 1\nlit, other = 'x', 'y'\n"                     # a literal, then re-bound by unpacking
               "lit2 = 1\nfor lit2 in ('a',):\n    pass\n"           # ... by a loop
               "lit3 = 1\nwith open(__file__) as lit3:\n    pass\n"  # ... by a with statement
               "aug = 1\naug += 1.5\n"                                # augmented: int + float
               "flags = True\nflags += True\n"                        # bool + bool is an int
               "HALF = 2 ** -1\nPOW = 2 ** 8\nSUM = 1 + 2\nCAT = 'a' + 'b'\nBOTH = [1] + [2]\nQUO = 7 // 2\nMODF = 7 % 2.0\nNEG = True - True\n"
               "TRUTH = True\nTRUTH &= False\nshift = 1\nshift <<= 70\nmixed = 1\nmixed *= 'ab'\n"
               "cond = 1\nif True:\n    cond = 'taken'\n"
               "class Limits:\n    'doc'\n    size = 10\n    size = DEFAULT_TIMEOUT\n    label = 1\n    label = 'l'\n    ratio = NAME\n    ratio = 0.5\n"
               "    def __init__(self):\n        'doc'\n        self.depth = 1\n        self.depth = NAME\n")
_REBOUND_ORACLE = ("import sys, json, importlib; sys.path.insert(0, sys.argv[1]); m = importlib.import_module(sys.argv[2]); out = {}\n"
                   "for n, v in vars(m).items():\n"
                   "    if not n.startswith('__') and not isinstance(v, type): out[n] = type(v).__name__\n"
                   "for n, v in vars(m.Limits).items():\n"
                   "    if not n.startswith('__'): out['Limits.' + n] = type(v).__name__\n"
                   "out['Limits.depth'] = type(m.Limits().depth).__name__\n"
                   "print(json.dumps(out))")


def check_rebound_literal_types(scratch: Path) -> List[Dict[str, Any]]:
    """'A type inferred for a variable assigned a literal is the actual type of that value': for variables bound several times
       (literal then name, name then literal, literals of different types, augmented, unpacked then re-bound) the type pydoctor
       states - when it states one - is the type of the value the name has after the import."""
    import ast as _ast
    from pydoctor import model
    base = scratch / "rebound"
    base.mkdir(parents=True)
    (base / "reboundmod.py").write_text(REBOUND_SRC)
    r = subprocess.run([sys.executable, "-I", "-c", _REBOUND_ORACLE, str(base), "reboundmod"], capture_output=True, text=True, timeout=60)
    if r.returncode != 0:
        raise RuntimeError("rebound oracle failed: " + r.stderr[-400:])
    want = json.loads(r.stdout)
    b = P.build_sources(paths=[base / "reboundmod.py"], record_states=False)
    out: List[Dict[str, Any]] = []
    for name, ty in sorted(want.items()):
        o = b["system"].allobjects.get("reboundmod." + name)
        if not isinstance(o, model.Attribute) or o.annotation is None:
            continue                                  # no type stated: nothing to be wrong about
        try:
            stated = _ast.unparse(o.annotation).split("[")[0].split(".")[-1]
        except Exception:
            continue
        if stated != ty:
            out.append({"object": name, "expected": ty, "got": stated, "what": "rebound variables: inferred type"})
    return out


WRAP_SRC = ("def convert(x):\n    'module-level convert'\ndef build(x):\n    'module-level build'\n"
            "class Base:\n    'doc'\n    def convert(self, x):\n        'method convert'\n    def build(cls):\n        'class method build'\n    build = classmethod(build)\n"
            "    def util(x):\n        'static util'\n    util = staticmethod(util)\n    def plain(self):\n        'plain'\n"
            "class Derived(Base):\n    'doc'\n    convert = staticmethod(convert)\n    plain = classmethod(build)\n"
            "class Further(Derived):\n    'doc'\n    util = classmethod(convert)\n")
_WRAP_ORACLE = ("import sys, json, importlib; sys.path.insert(0, sys.argv[1]); m = importlib.import_module(sys.argv[2]); out = {}\n"
                "for n in ('convert', 'build', 'util', 'plain'):\n"
                "    v = vars(m.Base)[n]\n"
                "    out[n] = 'STATIC_METHOD' if isinstance(v, staticmethod) else 'CLASS_METHOD' if isinstance(v, classmethod) else 'METHOD'\n"
                "print(json.dumps(out))")


def check_wrapping_in_subclasses(scratch: Path) -> List[Dict[str, Any]]:
    """`name = staticmethod(something)` in the body of a SUBCLASS binds a name of the subclass: the method of that name the base
       class defines keeps its kind (compared with what CPython has in Base.__dict__)."""
    base = scratch / "wrapsub"
    base.mkdir(parents=True)
    (base / "wrapmod.py").write_text(WRAP_SRC)
    r = subprocess.run([sys.executable, "-I", "-c", _WRAP_ORACLE, str(base), "wrapmod"], capture_output=True, text=True, timeout=60)
    if r.returncode != 0:
        raise RuntimeError("wrapping oracle failed: " + r.stderr[-400:])
    want = json.loads(r.stdout)
    b = P.build_sources(paths=[base / "wrapmod.py"], record_states=False)
    out: List[Dict[str, Any]] = []
    for name, kind in sorted(want.items()):
        o = b["system"].allobjects.get("wrapmod.Base." + name)
        got = o.kind.name if o is not None and o.kind is not None else None
        if got != kind:
            out.append({"object": "Base." + name, "expected": kind, "got": got, "what": "wrapping in subclasses: kind of the base's method"})
    return out


def check(scratch: Path) -> List[Dict[str, Any]]:
    base = scratch / "docassign"
    for rel, text in FILES.items():
        f = base / rel
        f.parent.mkdir(parents=True, exist_ok=True)
        f.write_text(text)
    r = subprocess.run([sys.executable, "-I", "-c", ORACLE, str(base)], capture_output=True, text=True, timeout=60)
    if r.returncode != 0:
        raise RuntimeError("__doc__ oracle failed: " + r.stderr[-400:])
    want = json.loads(r.stdout)
    b = P.build_sources(paths=[base / "dp"], record_states=False)
    system = b["system"]
    out: List[Dict[str, Any]] = []
    for name, doc in sorted(want.items()):
        o = system.allobjects.get(name)
        if o is None:
            out.append({"object": name, "expected": doc, "got": None, "what": "missing object"})
            continue
        if (o.docstring or None) != doc:
            out.append({"object": name, "expected": doc, "got": o.docstring, "what": "docstring in the model"})
            continue
        if doc:
            shown = rendered_text(o)
            if doc not in shown:
                out.append({"object": name, "expected": doc, "got": shown[:200], "what": "docstring as rendered"})
    return out + check_fields(scratch) + check_overload_neighbours(scratch) + check_rebuild_history(scratch) + check_statics(scratch) + check_blank_docstrings(scratch) + check_assignment_targets(scratch) + check_async_kinds(scratch) + check_overriding_variables(scratch) + check_property_docstrings(scratch) + check_rebound_literal_types(scratch) + check_wrapping_in_subclasses(scratch)
