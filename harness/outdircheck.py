"""
OutDir.tla <-> code: a HISTORY of runs into one --html-output directory.

TLC enumerates every history (which roots, full run / --html-summary-pages / --html-subject, interrupted before which step) and
prints, for each, the directory after every run as the model has it: file name -> nothing | file (what, written by which run) |
link.  Every history is replayed with the real driver.main on source trees of its own (the project name carries the number of
the run, so a page tells which run wrote it); an interruption is an exception raised at the entry of the step.  After each run
the real directory is projected the same way and compared with the model (drift); the property clauses - the run ends with a
documented status without an exception, its pages are under their names, index.html is the project index when there are several
roots, no link dangles after a complete run - are evaluated on the real directory.
"""
from __future__ import annotations

import concurrent.futures as cf
import contextlib
import io
import json
import os
import re
import shutil
import tempfile
import traceback
from pathlib import Path
from typing import Any, Dict, List, Sequence

from .core import Ctx, MachineryError

CFG = """SPECIFICATION Spec
CONSTANTS MaxRuns = {maxruns}
RootSets = {rootsets}
Modes = {modes}
AbortPoints = {aborts}
Outputs = {outputs}
UnlinkBeforePage = {unlink}
CONSTRAINT Emit
INVARIANT PagesAtTheirNames
INVARIANT IndexIsTheIndex
INVARIANT RootReachableByName
INVARIANT NoDanglingLink
INVARIANT InventoryWritten
PROPERTY StepsWriteTheirOwnNames
"""
FILE_OF = {"index": "index.html", "sum": "moduleIndex.html", "inv": "objects.inv"}


def tla_set(xs: Any) -> str:
    return "{" + ", ".join(tla_set(x) if isinstance(x, (list, tuple, set, frozenset)) else f'"{x}"' for x in xs) + "}"


class _Interrupted(BaseException):
    pass


def project_dir(out: Path, names: List[str]) -> Dict[str, Dict[str, Any]]:
    res: Dict[str, Dict[str, Any]] = {}
    for n in names:
        p = out / FILE_OF.get(n, n + ".html")
        e = {"t": "none", "role": "", "run": 0, "to": ""}
        if p.is_symlink():
            to = os.readlink(p)
            e.update(t="link", to=next((k for k in names if FILE_OF.get(k, k + ".html") == to), to))
        elif p.exists():
            raw = p.read_bytes()[:4000].decode("utf-8", "replace")
            m = re.search(r"projrun(\d+)", raw)
            e.update(t="file", run=int(m.group(1)) if m else 0)
            t = re.search(r"<title>([^<]*)</title>", raw)
            title = t.group(1).strip() if t else ""
            if n == "inv" or raw.startswith("# Sphinx inventory"):
                e["role"] = "inv"
            elif title.startswith("API Documentation for"):
                e["role"] = "projindex"
            elif title == "Module Index":
                e["role"] = "sum"
            else:
                e["role"] = "page:" + title
        res[n] = e
    return res


def one_run(k: int, run: Dict[str, Any], base: Path, out: Path) -> Dict[str, Any]:
    """One real run of the history: returns status / exception."""
    from pydoctor import driver, sphinx
    from pydoctor.templatewriter import search
    from pydoctor.templatewriter import writer as tw
    src = base / f"src{k}"
    for r in run["roots"]:
        d = src / r
        d.mkdir(parents=True)
        (d / "__init__.py").write_text(f'"""Root {r}, run {k}."""\nclass K{k}:\n    "doc"\n    def m(self):\n        "doc"\n')
        (d / "sub.py").write_text(f'"""Sub-module, run {k}."""\ndef f(a, b=1):\n    "doc"\n')
    args = [f"--html-output={out}", f"--project-name=projrun{k}", "--quiet", "--quiet"]
    if run["mode"] == "summary":
        args.append("--html-summary-pages")
    elif run["mode"] == "subject":
        args.append(f"--html-subject={run['subject']}")
    if run.get("out") == "html":
        args.append("--make-html")
    elif run.get("out") == "inv":
        args.append("--make-intersphinx")
    args += [str(src / r) for r in run["roots"]]
    saved = (tw.TemplateWriter.writeSummaryPages, search.write_lunr_index, tw.TemplateWriter.writeIndividualFiles, sphinx.SphinxInventoryWriter.generate)
    ab = run["abort"]

    def summ(self: Any, system: Any) -> Any:
        if ab == "summ":
            raise _Interrupted("before the summary pages")
        return saved[0](self, system)

    def lunr(*a: Any, **kw: Any) -> Any:
        r = saved[1](*a, **kw)
        if ab == "link":
            raise _Interrupted("before the link")
        return r

    def pages(self: Any, obs: Any) -> Any:
        if ab == "pages":
            raise _Interrupted("before the pages")
        return saved[2](self, obs)

    def inv(self: Any, *a: Any, **kw: Any) -> Any:
        if ab == "inv":
            raise _Interrupted("before the inventory")
        return saved[3](self, *a, **kw)

    tw.TemplateWriter.writeSummaryPages, search.write_lunr_index = summ, lunr          # type: ignore
    tw.TemplateWriter.writeIndividualFiles, sphinx.SphinxInventoryWriter.generate = pages, inv   # type: ignore
    res: Dict[str, Any] = {"code": None, "exception": "", "interrupted": False, "traceback": ""}
    buf = io.StringIO()
    try:
        with contextlib.redirect_stdout(buf), contextlib.redirect_stderr(buf):
            try:
                res["code"] = driver.main(args)
            except _Interrupted:
                res["interrupted"] = True
            except SystemExit as e:
                res["exception"] = f"SystemExit({e.code})"
            except BaseException as e:
                res["exception"] = f"{type(e).__name__}: {e}"
                res["traceback"] = traceback.format_exc()[-1200:]
    finally:
        tw.TemplateWriter.writeSummaryPages, search.write_lunr_index = saved[0], saved[1]     # type: ignore
        tw.TemplateWriter.writeIndividualFiles, sphinx.SphinxInventoryWriter.generate = saved[2], saved[3]   # type: ignore
    return res


def replay_history(job: Dict[str, Any]) -> Dict[str, Any]:
    hist = job["hist"]
    base = Path(tempfile.mkdtemp(prefix="outdir-", dir=job["scratch"]))
    out = base / "out"
    bad: List[Dict[str, Any]] = []
    drift: List[Dict[str, Any]] = []
    try:
        for k, run in enumerate(hist, 1):
            want = {e["n"]: {x: e[x] for x in ("t", "role", "run", "to")} for e in run["fs"]}
            names = sorted(want)
            r = one_run(k, run, base, out)
            got = project_dir(out, names)
            if r["exception"]:
                bad.append({"invariant": "NoUncaughtException", "run": k, "exception": r["exception"], "traceback": r["traceback"]})
                break
            if r["interrupted"] != (not run["completed"]):
                drift.append({"what": "outdir: the interruption point was (not) reached", "run": k, "spec_completed": run["completed"]})
                break
            if not r["interrupted"] and r["code"] not in (0, 2, 3):
                bad.append({"invariant": "UndocumentedExitStatus", "run": k, "code": r["code"]})
            if run["completed"] and run.get("out") == "inv":
                e = got["inv"]
                if not (e["t"] == "file" and e["run"] == k):
                    bad.append({"invariant": "InventoryWritten", "run": k, "found": e})
            elif run["completed"]:
                roots = run["roots"]
                subjects = roots if run["mode"] == "full" else [run["subject"]] if run["mode"] == "subject" else []

                def resolve(n: str) -> Dict[str, Any]:
                    e = got[n]
                    return got.get(e["to"], {"t": "none"}) if e["t"] == "link" else e
                for s in subjects:
                    e = resolve("index" if roots == [s] else s)
                    if not (e["t"] == "file" and e["role"] == "page:" + s and e["run"] == k):
                        bad.append({"invariant": "PagesAtTheirNames", "run": k, "root": s, "found": e})
                collision = len(roots) > 1 and "index" in roots and run["mode"] == "full"
                if run["mode"] != "subject" and len(roots) > 1:
                    e = resolve("index")
                    if not (e["t"] == "file" and e["role"] == "projindex" and e["run"] == k):
                        bad.append({"invariant": "IndexIsTheIndex", "run": k, "found": e, "collision": collision})
                if run["mode"] == "full":
                    for n in names:
                        if got[n]["t"] == "link" and resolve(n)["t"] != "file":
                            bad.append({"invariant": "NoDanglingLink", "run": k, "name": n})
                    if len(roots) == 1:
                        e = resolve(roots[0])
                        if not (e["t"] == "file" and e["role"] == "page:" + roots[0] and e["run"] == k):
                            bad.append({"invariant": "RootReachableByName", "run": k, "found": e})
                e = got["inv"]
                if not (e["t"] == "file" and e["run"] == k):
                    bad.append({"invariant": "InventoryWritten", "run": k, "found": e})
            if got != want and not bad:
                drift.append({"what": "outdir", "run": k, "spec": want, "real": got})
                break
    finally:
        shutil.rmtree(base, ignore_errors=True)
    return {"bad": bad, "drift": drift, "hist": [{x: r.get(x, "both") for x in ("roots", "mode", "subject", "abort", "out")} for r in hist]}


def run(ctx: Ctx, maxruns: int, rootsets: List[List[str]], modes: List[str], aborts: List[str], negative: bool = True,
        outputs: Sequence[str] = ("both",)) -> Dict[str, int]:
    cfg = dict(maxruns=maxruns, rootsets=tla_set(rootsets), modes=tla_set(modes), aborts=tla_set(aborts), outputs=tla_set(outputs))
    r = ctx.tlc("OutDir", CFG.format(unlink="TRUE", **cfg), workers="auto", check=True, timeout=1800)
    if r.violated:
        raise MachineryError(f"OutDir.tla violates its own properties: {r.violated}")
    # the properties bite: the variant that writes a page through an old link is rejected by TLC
    neg = ctx.tlc("OutDir", CFG.format(unlink="FALSE", **cfg).replace("CONSTRAINT Emit\n", ""), workers="auto", check=True, count=False, timeout=1800) if negative else None
    if neg is not None and not neg.violated:
        raise MachineryError("OutDir.tla: the write-through variant is not rejected (the properties are vacuous)")
    jobs = [{"hist": rec["hist"], "scratch": str(ctx.scratch)} for rec in r.printed]
    stats = {"histories": len(jobs), "runs": sum(len(j["hist"]) for j in jobs), "drift": 0,
             "with_interrupted_run": sum(1 for j in jobs if any(not x["completed"] for x in j["hist"])),
             "with_collision": 0}
    with cf.ProcessPoolExecutor(max_workers=min(os.cpu_count() or 4, 12)) as ex:
        for res in ex.map(replay_history, jobs, chunksize=4):
            ctx.traces += 1
            for d in res["drift"][:1]:
                stats["drift"] += 1
                ctx.drift_note({**d, "history": res["hist"]})
            for b in res["bad"][:1]:
                if b.get("collision"):
                    stats["with_collision"] += 1
                ctx.violation({**b, "failed": sorted({x["invariant"] for x in res["bad"]}), "origin": {"family": "outdir", "history": res["hist"]},
                               "key": f"outdir:{b['invariant']}:{'collision' if b.get('collision') else json.dumps(res['hist'])[:200]}"})
    return stats


def replay_witness(ctx: Ctx, hist: List[Dict[str, Any]]) -> List[str]:
    """Re-run one history without the model's expectations (replay of a recorded violation)."""
    names = sorted({"index", "sum", "inv"} | {r for run in hist for r in run["roots"]})
    full = [{**run, "completed": run["abort"] == "never" or (run["mode"] == "subject" and run["abort"] in ("summ", "link"))
             or (run.get("out") == "inv" and run["abort"] != "inv"),
             "fs": [{"n": n, "t": "none", "role": "", "run": 0, "to": ""} for n in names]} for run in hist]
    res = replay_history({"hist": full, "scratch": str(ctx.scratch)})
    return sorted({b["invariant"] for b in res["bad"]})
