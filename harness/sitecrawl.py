"""
Shared machinery of the C11 / C12 checks (pattern O of DESIGN.md 2.3): run the real pydoctor on a project,
crawl the complete output directory and project it - together with the real System - to the `Site` state of
spec/Site.tla.

  run_site(job)      - one real run (driver.main in-process, System captured by wrapping driver.make) + crawl
  crawl(outdir)      - files, anchors, links (with producer), listing entries (with private marker), inventory,
                       search records of an output directory
  project_system(s)  - the object model as the real System sees it (allobjects: class, parent, privacy, bases ...)

A file is identified by its percent-decoded relative path with a trailing ".html" removed ("index",
"pk.mod.Base", "classIndex", "fonts/info.svg"); a fragment by its percent-decoded text.  That is what a browser /
web server resolves, and what spec/Site.tla calls a file and an anchor.
"""
from __future__ import annotations

import json
import os
import re
import zlib
from pathlib import Path
from typing import Any, Dict, List, Optional, Sequence, Tuple
from urllib.parse import quote, unquote, urlsplit

SUMMARY_PAGES = ("moduleIndex", "classIndex", "nameIndex", "undoccedSummary", "all-documents")


def file_id(relpath: str) -> str:
    return relpath[:-5] if relpath.endswith(".html") else relpath


# ----------------------------------------------------------------------------------------- running pydoctor
def _adjusting_system() -> Any:
    """
    A System subclass of the kind docs/source/customize.rst describes: privacyClass() asks the base class, then adjusts the
    answer - here for the full names listed in the class attribute EXTRA (set by the job before the run).
    """
    from pydoctor import model

    class AdjustingSystem(model.System):            # type: ignore[misc]
        EXTRA: Dict[str, str] = {}

        def privacyClass(self, ob: Any) -> Any:
            base = super().privacyClass(ob)
            adj = self.EXTRA.get(ob.fullName())
            return model.PrivacyClass[adj] if adj else base
    return AdjustingSystem


def __getattr__(name: str) -> Any:                  # --system-class=harness.sitecrawl.AdjustingSystem (created on first use)
    if name == "AdjustingSystem":
        cls = _adjusting_system()
        globals()["AdjustingSystem"] = cls
        return cls
    raise AttributeError(name)


def run_pydoctor(srcpaths: Sequence[str], out: str, privacy: Sequence[str] = (), theme: str = "classic",
                 extra: Sequence[str] = (), cwd: Optional[str] = None,
                 custom: Optional[Dict[str, str]] = None) -> Tuple[int, Any, str]:
    """driver.main in-process; returns (exit code, the System that was rendered, captured stdout)."""
    import contextlib
    import io
    from pydoctor import driver

    captured: List[Any] = []
    orig_make = driver.make

    def make(system: Any) -> None:           # run-time wrapper only; /repo is never edited
        captured.append(system)
        return orig_make(system)

    args = ["--make-html", "--html-output", out, "--project-name", "P", "--theme", theme, "-q", "-q"]
    for p in privacy:
        args.append("--privacy=" + p)
    args += list(extra) + list(srcpaths)
    if custom is not None:
        import harness.sitecrawl as me
        me.AdjustingSystem.EXTRA = dict(custom)
        args[0:0] = ["--system-class=harness.sitecrawl.AdjustingSystem"]
    buf = io.StringIO()
    old = os.getcwd()
    driver.make = make
    try:
        if cwd:
            os.chdir(cwd)
        with contextlib.redirect_stdout(buf), contextlib.redirect_stderr(buf):
            try:
                rc = driver.main(args)
            except SystemExit as e:                      # driver.error()
                rc = int(e.code) if isinstance(e.code, int) else 99
    finally:
        driver.make = orig_make
        os.chdir(old)
    return rc, (captured[0] if captured else None), buf.getvalue()


def run_history(root: str, hist: Sequence[str], out: str, privacy: Sequence[str] = (), theme: str = "classic",
                extra: Sequence[str] = ()) -> Tuple[Any, List[Dict[str, str]]]:
    """
    A behaviour of spec/PrivacyHistory.tla replayed through the public builder API: incremental build of the modules
    _impl and api found in `root`, privacy queries on the real objects in between, driver.make at Render.
    Returns (system, answers of the queries).
    """
    import contextlib
    import io
    from pydoctor import driver
    from pydoctor.options import Options

    args = ["--make-html", "--html-output", out, "--project-name", "P", "--theme", theme, "-q", "-q"]
    args += ["--privacy=" + p for p in privacy] + list(extra)
    asked: List[Dict[str, str]] = []
    names = {"impl": {"K": "_impl.Moved", "F": "_impl.Moved.mm", "G": "_impl.Moved.other"},
             "api": {"K": "api.Moved", "F": "api.Moved.mm", "G": "api.Moved.other"}}
    loc = "impl"
    with contextlib.redirect_stdout(io.StringIO()), contextlib.redirect_stderr(io.StringIO()):
        options = Options.from_args(args)
        system = options.systemclass(options)
        system.projectname = "P"
        builder = system.systemBuilder(system)
        for step in hist:
            if step == "BuildImpl":
                builder.addModule(Path(root) / "_impl.py")
                builder.buildModules()
            elif step == "BuildApi":
                builder.addModule(Path(root) / "api.py")
                builder.buildModules()
                loc = "api"
            elif step.startswith("Query:"):
                o = system.allobjects[names[loc][step.split(":", 1)[1]]]
                asked.append({"name": o.fullName(), "priv": o.privacyClass.name, "visible": str(bool(o.isVisible))})
            elif step == "Render":
                driver.make(system)
    return system, asked


def project_system(system: Any) -> Dict[str, Any]:
    """The object model the way the real System holds it, in the vocabulary of Site.tla."""
    from pydoctor import model

    objs = []
    # the System holds two registries: allobjects (by full name) and the contents tree below rootobjects.  They can
    # disagree (C02 / C07 subject): the projection takes the union and records where each object is registered.
    everything = []
    seen = set()
    for key, o in system.allobjects.items():
        if id(o) not in seen:
            seen.add(id(o))
            everything.append((key, o))

    walked = set()

    def walk(o: Any) -> None:
        if id(o) in walked:
            return
        walked.add(id(o))
        if id(o) not in seen:
            seen.add(id(o))
            everything.append((o.fullName(), o))
        for c in o.contents.values():
            walk(c)
    for r in system.rootobjects:
        walk(r)
    collisions = 0
    taken: Dict[str, Any] = {}
    for key, o in everything:
        par = o.parent
        u = urlsplit(o.url)
        cls = "Package" if isinstance(o, model.Package) else "Module" if isinstance(o, model.Module) else \
            "Class" if isinstance(o, model.Class) else "Function" if isinstance(o, model.Function) else "Attribute"
        rec: Dict[str, Any] = {
            "id": o.fullName(), "key": key, "name": o.name, "cls": cls,
            "parent": par.fullName() if par is not None else "none",
            "priv": o.privacyClass.name, "visible": bool(o.isVisible),
            "ownpage": o.documentation_location is model.DocLocation.OWN_PAGE,
            "file": file_id(unquote(u.path)), "frag": unquote(u.fragment),
            "incontents": (par.contents.get(o.name) is o) if par is not None else (o in system.rootobjects),
            "qid": quote(o.fullName()),
            "inall": system.allobjects.get(o.fullName()) is o,
            "doc": any(s.docstring is not None for s in o.docsources()),
            "docsrc": next((s.fullName() for s in o.docsources() if s.docstring is not None), o.fullName()),
            "module": o.module.fullName() if getattr(o, "parentMod", None) is not None or isinstance(o, model.Module) else "auto",
            "initial": o.name[0].upper(), "dupname": " " in o.name, "dupfull": " " in o.fullName(),
            "bases": [], "mro": [], "subclasses": [],
        }
        if isinstance(o, model.Class):
            rec["bases"] = [b.fullName() if b is not None else "none" for b in o.baseobjects]
            rec["rawbases"] = list(o.bases)
            rec["mro"] = [c.fullName() for c in o.mro()]
            rec["subclasses"] = [c.fullName() for c in o.subclasses]
        prev = taken.get(rec["id"])
        if prev is not None:                              # two objects claim one full name: keep the rendered one
            collisions += 1
            if prev["incontents"] or not rec["incontents"]:
                continue
            objs.remove(prev)
        taken[rec["id"]] = rec
        objs.append(rec)
    return {"objs": objs, "name_collisions": collisions, "roots": [o.fullName() for o in system.rootobjects],
            "sidebardepth": int(system.options.sidebarexpanddepth), "nosidebar": bool(system.options.nosidebar)}


# --------------------------------------------------------------------------------------------- the crawl
def _classes(tag: Any) -> List[str]:
    c = tag.get("class") or []
    return c.split() if isinstance(c, str) else list(c)


def _has_private(tag: Any) -> bool:
    return "private" in _classes(tag)


def _split(href: str) -> Optional[Tuple[str, str]]:
    """relative href -> (decoded path, decoded fragment); None for absolute / javascript / mailto links."""
    u = urlsplit(href)
    if u.scheme or u.netloc or href.startswith("//"):
        return None
    return unquote(u.path), unquote(u.fragment)


def _ancestors(tag: Any) -> List[Any]:
    r = []
    p = tag.parent
    while p is not None and getattr(p, "name", None):
        r.append(p)
        p = p.parent
    return r


def _summary_prod(a: Any) -> str:
    """A link inside a summary: an object link (taglink) or a reference to a target inside the docstring it was cut from."""
    href = a.get("href") or ""
    return "summaryLocalRef" if href.startswith("#") and "internal-link" not in _classes(a) else "summaryDoc"


def _producer(a: Any, page: str, anc: List[Any], indexpage: bool = False) -> str:
    """Which link producer of the templates wrote this <a> / <link> / <script> / <img> ?"""
    if a.name != "a":
        return "static"
    if "rst-toc-backref" in _classes(a):               # docutils: section title -> its entry in the table of contents
        return "tocBackref"
    if "fn-backref" in _classes(a) or "rst-fn-backref" in _classes(a):       # docutils: footnote -> its reference(s)
        return "fnBackref"
    names = [(t.name, _classes(t), t.get("id")) for t in anc]

    def inside(name: Optional[str] = None, cls: Optional[str] = None, id_: Optional[str] = None) -> bool:
        return any((name is None or n == name) and (cls is None or cls in c) and (id_ is None or i == id_)
                   for n, c, i in names)

    if inside("nav", "sidebar"):                      # (inside the main navbar in the readthedocs theme)
        if inside(cls="thingTitle"):
            return "sidebarTitle"
        if inside(cls="itemName") and "internal-link" in _classes(a):
            return "sidebarItem"
        return "sidebarToc"                               # the docstring's table of contents (docutils references)
    if inside("footer") or inside(cls="navlinks") or inside(cls="navbar-header") or inside(cls="mainnavbar") \
            or inside(id_="search-results-container"):
        return "nav"
    if indexpage:                                      # summary.IndexPage (more than one root)
        par = a.parent
        if par is not None and par.name == "code" and par.parent is not None and par.parent.name == "li":
            return "indexRoots"
        return "indexStatic"
    if page in SUMMARY_PAGES or inside("ul", id_="summaryTree") or inside(cls="letterlinks"):
        if inside(cls="letterlinks"):
            return "letterlinks"
        par = a.parent
        if par is not None and par.name == "code":
            gp = par.parent
            first = gp is not None and next((c for c in gp.children if getattr(c, "name", None)), None)
            if gp is not None and gp.name == "li" and (first is par or first is not None and first.name == "a"
                                                        and first.get("name") is not None and page != "classIndex"):
                return {"moduleIndex": "moduleIndex", "nameIndex": "nameIndex",
                        "undoccedSummary": "undocced"}.get(page, "indexRoots")
            if gp is not None and gp.name == "span" and page == "moduleIndex":
                return "moduleIndex"
            if gp is not None and gp.name == "div" and page == "classIndex" and first is par:
                return "classIndex"
            if gp is not None and gp.name == "li" and page == "classIndex" and first is par:
                return "classIndexExternal"
        return _summary_prod(a)
    if inside("h1"):
        return "namespace"
    if inside(cls="class-signature"):
        return "classSignature"
    if inside(cls="interfaceinfo"):
        for t in anc:
            if "interfaceinfo" in _classes(t):
                txt = t.get_text().strip()
                if txt.startswith("overrides"):
                    return "overrides"
                if txt.startswith("overridden in"):
                    return "overriddenIn"
                return "interfaceinfo"
    if "headerLink" in _classes(a):
        return "headerLink"
    if inside(cls="functionHeader"):
        return "annotation"
    if inside(id_="childList"):
        return "memberDoc"
    if inside(cls="inheritedFrom"):
        return "baseName"
    if inside("table", "children"):
        td = next((t for t in anc if t.name == "td"), None)
        if td is not None:
            idx = [c for c in td.parent.find_all("td", recursive=False)].index(td)
            if idx == 1 and a.parent is not None and a.parent.name == "code" and a.parent.parent is td:
                tr = td.parent
                return "baseTable" if any(c.startswith("base") for c in _classes(tr)) else "childTable"
            return _summary_prod(a)
    if inside(cls="extrasDocstring"):
        href = a.get("href") or ""
        if "sourceLink" in _classes(a):
            return "sourceLink"
        if href.startswith("classIndex.html#"):
            return "inhierarchy"
        p = next((t for t in anc if t.name == "p"), None)
        if p is not None and p.get_text().strip().startswith("Known subclasses"):
            return "subclasses"
        return "extras"
    if inside(cls="moduleDocstring"):
        return "docstring"
    return "other"


def crawl(outdir: str) -> Dict[str, Any]:
    """Everything under outdir, projected to the Site state."""
    from bs4 import BeautifulSoup

    out = Path(outdir)
    files: List[str] = []
    symlinks: Dict[str, str] = {}
    for root, dirs, fnames in os.walk(out):
        for fn in fnames:
            p = Path(root) / fn
            rel = str(p.relative_to(out))
            files.append(rel)
            if p.is_symlink():
                symlinks[rel] = os.readlink(p)
    files.sort()
    site: Dict[str, Any] = {"files": [file_id(f) for f in files], "rawfiles": files, "symlinks": symlinks,
                            # decoded names of the files whose on-disk name is percent-encoded
                            "encfiles": sorted({file_id(unquote(f)) for f in files if unquote(f) != f}),
                            "anchors": {}, "nameanchors": {}, "titles": {}, "links": [], "entries": [], "inv": [], "alldocs": [],
                            "searchindex": [], "fullsearchindex": [], "parse_errors": []}
    for rel in files:
        if not rel.endswith(".html"):
            continue
        page = file_id(rel)
        if rel in symlinks:
            continue                                # same bytes as its target
        text = (out / rel).read_text(encoding="utf-8")
        soup = BeautifulSoup(text, "html.parser")
        indexpage = page == "index" and soup.find("div", class_="page-header") is None
        anchors, nameanchors = set(), set()
        for t in soup.find_all(True):
            if t.get("id"):
                anchors.add(t.get("id"))
            if t.name == "a" and t.get("name"):
                anchors.add(t.get("name"))
                nameanchors.add(t.get("name"))
        site["titles"][page] = soup.title.get_text().strip() if soup.title is not None else ""
        site["anchors"][page] = sorted(anchors)
        site["nameanchors"][page] = sorted(nameanchors)
        for t in soup.find_all(True):
            for attr in ("href", "src"):
                v = t.get(attr)
                if v is None:
                    continue
                sp = _split(v)
                if sp is None:
                    continue
                path, frag = sp
                anc = _ancestors(t)
                prod = _producer(t, page, anc, indexpage)
                # a relative reference is resolved against the page's own directory (all pages are at top level)
                tfile = file_id(path) if path else page
                member = ""
                if prod == "memberDoc":             # the member whose detail block holds the link
                    blk = next((x for x in anc if x.parent is not None and x.parent.get("id") == "childList"), None)
                    if blk is not None:
                        nm = [a.get("name") for a in blk.find_all("a", recursive=False) if a.get("name")]
                        member = nm[0] if nm else ""
                site["links"].append({"page": page, "file": tfile, "frag": frag, "prod": prod, "raw": v,
                                      "samepage": path == "", "member": member})
        _entries(soup, page, site, indexpage)
        if page == "all-documents":
            for li in soup.find_all("li"):
                if li.get("id") is None or li.find("div", class_="url") is None:
                    continue
                sp = _split(li.find("div", class_="url").get_text().strip()) or ("", "")
                site["alldocs"].append({"id": li.get("id"), "file": file_id(sp[0]), "frag": sp[1],
                                        "privacy": li.find("div", class_="privacy").get_text().strip(),
                                        "type": li.find("div", class_="type").get_text().strip()})
    # symlinked pages carry the anchors of their target
    for rel, tgt in symlinks.items():
        if rel.endswith(".html") and file_id(tgt) in site["anchors"]:
            site["anchors"][file_id(rel)] = site["anchors"][file_id(tgt)]
            site["nameanchors"][file_id(rel)] = site["nameanchors"][file_id(tgt)]
            site["titles"][file_id(rel)] = site["titles"].get(file_id(tgt), "")
    inv = out / "objects.inv"
    if inv.exists():
        data = inv.read_bytes()
        while data.startswith(b"#"):
            data = data.split(b"\n", 1)[1]
        for line in zlib.decompress(data).decode("utf-8").splitlines():
            m = re.match(r"^(.+?)\s+(\S+:\S+)\s+(-?\d+)\s+(\S+)\s+(.*)$", line)
            if not m:
                site["parse_errors"].append("objects.inv: " + line)
                continue
            sp = _split(m.group(4)) or ("", "")
            site["inv"].append({"id": m.group(1), "type": m.group(2), "file": file_id(sp[0]), "frag": sp[1]})
    for fn in ("searchindex", "fullsearchindex"):
        p = out / (fn + ".json")
        if p.exists():
            d = json.loads(p.read_text(encoding="utf-8"))
            refs = set()
            for key, _vec in d.get("fieldVectors", []):
                refs.add(key.split("/", 1)[1])
            site[fn] = sorted(refs)
    return site


def _first_link(tag: Any) -> Optional[Any]:
    for a in tag.find_all("a"):
        if a.get("href") is not None:
            return a
    return None


def _entries(soup: Any, page: str, site: Dict[str, Any], indexpage: bool = False) -> None:
    """Listing entries: one record per row / item that lists an object, with its private marker."""
    def add(kind: str, a: Any, marked: bool, scope_marked: bool) -> None:
        sp = _split(a.get("href") or "")
        if sp is None:
            return
        path, frag = sp
        site["entries"].append({"page": page, "kind": kind, "file": file_id(path) if path else page, "frag": frag,
                                "private": bool(marked), "under_private": bool(scope_marked)})

    def under_private(t: Any) -> bool:
        return any(_has_private(p) for p in _ancestors(t))

    for table in soup.find_all("table", class_="children"):
        for tr in table.find_all("tr", recursive=False):
            tds = tr.find_all("td", recursive=False)
            if len(tds) >= 2:
                a = _first_link(tds[1])
                if a is not None:
                    add("table", a, _has_private(tr), under_private(tr))
                else:
                    # a row whose name is not a link (taglink() refuses hidden targets): the member <label> of the page's
                    # object, or - in an "Inherited from X" table - of the class X named by the paragraph before the table
                    owner = site["titles"].get(page, "")
                    if any(c.startswith("base") for c in _classes(tr)):
                        par = table.find_previous_sibling("p", class_="inheritedFrom")
                        pa = _first_link(par) if par is not None else None
                        sp = _split(pa.get("href")) if pa is not None else None
                        owner = file_id(sp[0]) if sp and sp[0] else ""
                    label = tds[1].get_text().strip()
                    if owner and label:
                        site["entries"].append({"page": page, "kind": "table", "file": "", "frag": "", "ref": owner + "." + label,
                                                "private": _has_private(tr), "under_private": under_private(tr)})
    # "overrides <full name>" notes (get_override_info): an entry for the overridden member, linked or not
    for info in soup.find_all("div", class_="interfaceinfo"):
        if not info.get_text().strip().startswith("overrides"):
            continue
        a = _first_link(info)
        if a is not None:
            add("overridesNote", a, False, under_private(info))
        else:
            code = info.find("code")
            if code is not None and code.get_text().strip():
                site["entries"].append({"page": page, "kind": "overridesNote", "file": "", "frag": "", "ref": code.get_text().strip(),
                                        "private": False, "under_private": under_private(info)})
    # the lists assembleList() writes - "overridden in A, B" (get_override_info, under the class header and under every
    # member shown) and "Known subclasses: A, B" (ClassPage.extras): one entry per class NAMED, linked or not (taglink()
    # refuses hidden targets and leaves <code>full name</code>, which is resolved through the name it displays)
    def named_list(kind: str, box: Any) -> None:
        for code in box.find_all("code"):
            if code.find_parent("code") is not None:
                continue
            a = _first_link(code)
            if a is not None:
                add(kind, a, False, under_private(box))
            elif code.get_text().strip():
                site["entries"].append({"page": page, "kind": kind, "file": "", "frag": "", "ref": code.get_text().strip(),
                                        "private": False, "under_private": under_private(box)})
    for info in soup.find_all("div", class_="interfaceinfo"):
        if info.get_text().strip().startswith("overridden in"):
            named_list("overriddenInNote", info)
    for ex in soup.find_all(class_="extrasDocstring"):
        for par in ex.find_all("p"):
            if par.get_text().strip().startswith("Known subclasses"):
                named_list("subclassesNote", par)
    cl = soup.find(id="childList")
    if cl is not None:
        for div in cl.find_all("div", recursive=False):
            names = [a.get("name") for a in div.find_all("a", recursive=False) if a.get("name")]
            if names:
                short = names[-1]
                site["entries"].append({"page": page, "kind": "detail", "file": page, "frag": short,
                                        "private": _has_private(div), "under_private": under_private(div)})
    for sb in soup.find_all("nav", class_="sidebar"):
        for tt in sb.find_all("div", class_="thingTitle"):       # section titles: "<kind> <name>", the name linked or not
            a = _first_link(tt)
            if a is not None:
                add("sidebarTitle", a, False, under_private(tt))
            else:
                span, code = tt.find("span"), tt.find("code")
                if span is not None and code is not None and code.get_text().strip():
                    site["entries"].append({"page": page, "kind": "sidebarTitle", "file": "", "frag": "",
                                            "ref": "title:%s:%s" % (span.get_text().strip(), code.get_text().strip()),
                                            "private": False, "under_private": under_private(tt)})
        for li in sb.find_all("li"):
            item = li.find("div", class_="itemName")
            if item is None or item.find_parent("li") is not li:
                continue
            a = _first_link(item)
            if a is not None and a.find_parent("div", class_="itemName") is item:
                add("sidebar", a, _has_private(li), under_private(li))
    if page in ("moduleIndex", "classIndex", "nameIndex", "undoccedSummary") or indexpage:
        for a in soup.find_all("a"):
            if a.get("href") is None:
                continue
            prod = _producer(a, page, _ancestors(a), indexpage)
            if prod in ("moduleIndex", "classIndex", "nameIndex", "undocced", "indexRoots"):
                holder = a.find_parent("li") if a.find_parent("span") is None or page != "moduleIndex" \
                    else a.find_parent("span")
                if holder is not None:
                    add(prod, a, _has_private(holder), under_private(holder))
    # items whose name is NOT a link (taglink() may refuse to link): identified by the name they display.
    # moduleIndex shows short names nested by package, the root list of index.html shows full names.
    if page == "moduleIndex":
        def walk(ul: Any, prefix: str) -> None:
            for li in ul.find_all("li", recursive=False):
                code = li.find("code", recursive=False)
                if code is None:
                    continue
                name = prefix + code.get_text().strip()
                if code.find("a") is None:
                    site["entries"].append({"page": page, "kind": "moduleIndex", "file": "", "frag": "", "ref": name,
                                            "private": _has_private(li), "under_private": under_private(li)})
                sub = li.find("ul", recursive=False)
                if sub is not None:
                    walk(sub, name + ".")
                    for cli in sub.find_all("li", class_="compact-modules", recursive=False):     # > 50 leaf modules
                        for span in cli.find_all("span", recursive=False):
                            c2 = span.find("code")
                            if c2 is not None and c2.find("a") is None and c2.get_text().strip():
                                site["entries"].append({"page": page, "kind": "moduleIndex", "file": "", "frag": "",
                                                        "ref": name + "." + c2.get_text().strip(),
                                                        "private": _has_private(span), "under_private": under_private(span)})
        tree = soup.find("ul", id="summaryTree")
        if tree is not None:
            walk(tree, "")
    if indexpage:
        for li in soup.find_all("li"):
            code = li.find("code", recursive=False)
            if code is not None and code.find("a") is None and li.find("a") is None:
                site["entries"].append({"page": page, "kind": "indexRoots", "file": "", "frag": "", "ref": code.get_text().strip(),
                                        "private": False, "under_private": under_private(li)})


# ----------------------------------------------------------------------------------- one job = one real site
def run_site(job: Dict[str, Any]) -> Dict[str, Any]:
    """
    job: {name, src: [paths], cwd?, out, privacy: [...], theme, extra: [...]}.
    Returns {job, rc, objs(System projection), site(crawl), log}.  Runs in a worker process.
    """
    import shutil
    out = job["out"]
    shutil.rmtree(out, ignore_errors=True)
    rc, system, log = run_pydoctor(job["src"], out, job.get("privacy", ()), job.get("theme", "classic"),
                                   job.get("extra", ()), cwd=job.get("cwd"), custom=job.get("custom"))
    res: Dict[str, Any] = {"job": {k: v for k, v in job.items() if k != "model"}, "rc": rc, "log": log[-2000:]}
    if system is None or not Path(out).exists():
        res["error"] = "pydoctor produced no output"
        return res
    res["objs"] = project_system(system)
    res["site"] = crawl(out)
    if not job.get("keep"):
        shutil.rmtree(out, ignore_errors=True)
    return res


# ------------------------------------------------------------------- the invariants (Python twin of Site.tla)
MARKED_KINDS = ("table", "detail", "sidebar", "moduleIndex")     # the listings named by the C12 statement


def judge(objs: Dict[str, Any], site: Dict[str, Any]) -> List[Dict[str, Any]]:
    """
    Evaluate LinksResolve, VisibleHasPage, VisibleMemberHasAnchor (C11) and HiddenNoTrace, PrivateMarked (C12)
    on an OBSERVED site + System projection.  Returns one record per failing instance:
    {invariant, obj?, link?/entry?, what}.
    """
    files = set(site["files"])
    anchors = {p: set(a) for p, a in site["anchors"].items()}
    bad: List[Dict[str, Any]] = []

    def resolves(f: str, frag: str) -> bool:
        return f in files and (frag == "" or frag in anchors.get(f, ()))

    for l in site["links"]:
        if not resolves(l["file"], l["frag"]):
            bad.append({"invariant": "LinksResolve", "what": "dead " + ("file" if l["file"] not in files else "fragment"),
                        "link": {k: l[k] for k in ("page", "file", "frag", "prod", "raw")}})
    for d in site["alldocs"]:
        if not resolves(d["file"], d["frag"]):
            bad.append({"invariant": "LinksResolve", "what": "dead " + ("file" if d["file"] not in files else "fragment"),
                        "link": {"page": "all-documents", "file": d["file"], "frag": d["frag"], "prod": "searchDoc",
                                 "raw": d["id"]}})
    byurl: Dict[Tuple[str, str], List[Dict[str, Any]]] = {}
    for o in objs["objs"]:
        byurl.setdefault((o["file"], o["frag"]), []).append(o)
    inv_ids = {r["id"] for r in site["inv"]}
    doc_ids = {r["id"]: r for r in site["alldocs"]}
    s1, s2 = set(site["searchindex"]), set(site["fullsearchindex"])
    links_by_file: Dict[str, List[Dict[str, Any]]] = {}
    links_by_url: Dict[Tuple[str, str], List[Dict[str, Any]]] = {}
    for l in site["links"]:
        links_by_file.setdefault(l["file"], []).append(l)
        links_by_url.setdefault((l["file"], l["frag"]), []).append(l)
    entries_by_url: Dict[Tuple[str, str], List[Dict[str, Any]]] = {}
    for e in site["entries"]:
        entries_by_url.setdefault((e["file"], e["frag"]), []).append(e)
    multi_root_index = len(objs["roots"]) > 1
    for o in objs["objs"]:
        url = (o["file"], o["frag"])
        if o["visible"]:
            if o["ownpage"] and o["file"] not in files:
                bad.append({"invariant": "VisibleHasPage", "obj": o["id"], "what": "no page " + o["file"]})
            if not o["ownpage"] and not (o["file"] in files and o["frag"] in anchors.get(o["file"], ())):
                bad.append({"invariant": "VisibleMemberHasAnchor", "obj": o["id"],
                            "what": "no anchor %s#%s" % url})
            if o["priv"] == "PRIVATE":
                for e in entries_by_url.get(url, ()):
                    if e["kind"] in MARKED_KINDS and not e["private"]:
                        bad.append({"invariant": "PrivateMarked", "obj": o["id"], "entry": e,
                                    "what": "unmarked %s entry" % e["kind"]})
                d = doc_ids.get(o["id"])
                if d is not None and d["privacy"] != "PRIVATE":
                    bad.append({"invariant": "PrivateMarked", "obj": o["id"], "entry": {"kind": "searchDoc", **d},
                                "what": "search document not marked private"})
        else:
            # a visible object registered at the same address (superseding definition) owns the address
            if any(x["visible"] for x in byurl.get(url, ())):
                continue
            if o["ownpage"]:
                if o["file"] in files and not (o["file"] == "index" and multi_root_index):
                    bad.append({"invariant": "HiddenNoTrace", "obj": o["id"], "trace": "file", "what": "page written"})
                hits = links_by_file.get(o["file"], ()) if o["file"] != "index" else ()
            else:
                if o["frag"] in anchors.get(o["file"], ()) or o["id"] in anchors.get(o["file"], ()):
                    bad.append({"invariant": "HiddenNoTrace", "obj": o["id"], "trace": "anchor", "what": "anchor emitted"})
                hits = links_by_url.get(url, ())
            for l in hits:
                bad.append({"invariant": "HiddenNoTrace", "obj": o["id"], "trace": "link",
                            "link": {k: l[k] for k in ("page", "file", "frag", "prod", "raw")},
                            "what": "link from %s (%s)" % (l["page"], l["prod"])})
            for e in entries_by_url.get(url, ()):
                bad.append({"invariant": "HiddenNoTrace", "obj": o["id"], "trace": "entry", "entry": e,
                            "what": "%s entry on %s" % (e["kind"], e["page"])})
            for nm, coll in (("inventory", inv_ids), ("searchDoc", doc_ids), ("searchindex", s1), ("fullsearchindex", s2)):
                if o["id"] in coll:
                    bad.append({"invariant": "HiddenNoTrace", "obj": o["id"], "trace": nm, "what": nm + " record"})
    return bad
