"""Regenerates /verif/MANIFEST.json from harness/manifest.d/*.json (one fragment per property)."""
from __future__ import annotations
import json
from pathlib import Path

VERIF = Path(__file__).resolve().parent.parent
ALL = [f"C{i:02d}" for i in range(1, 21)]
BASELINE_CMD = ("cd /repo && /venv/bin/python -m pytest -ra -q -p no:cacheprovider --timeout=900 "
                "--continue-on-collection-errors")


def main() -> None:
    frags = {}
    for f in sorted((VERIF / "harness" / "manifest.d").glob("C*.json")):
        d = json.loads(f.read_text())
        frags[d["property_id"]] = d
    checks, na = [], []
    for pid in ALL:
        d = frags.get(pid)
        if d and not d.get("not_applicable"):
            checks.append({
                "property_id": pid,
                "quick_cmd": f"./check {pid} --tier quick",
                "thorough_cmd": f"./check {pid} --tier thorough",
                "evidence_file": f"/verif/evidence/{pid}.json",
                "replay_cmd_template": f"./check {pid} --replay {{path}}",
                "engine": "tlc+harness",
                "level_claimed": {"category": d.get("category", "model_checking"), "text": d["text"],
                                  "design_ref": d.get("design_ref", f"DESIGN.md 5/{pid}")},
                "level_note": d["level_note"],
                "technique": d["technique"],
            })
        else:
            na.append({"property_id": pid, "reason": (d or {}).get("reason", "check not built yet (work in progress; see DESIGN.md 8 build order)")})
    m = {
        "version": 1,
        "setup_cmd": "make -C /verif setup",
        "hooks": {"guard": "PYDOCTOR_VERIF",
                  "enable": "no source hooks: harness/ wraps pydoctor methods at run time inside its own process; checks import pydoctor from /repo's working tree",
                  "baseline_off_cmd": BASELINE_CMD, "source_commits": [], "add_only": True},
        "engines": [
            {"name": "tlc", "path": "/verif/spec", "serves_properties": [c["property_id"] for c in checks],
             "kind_free_text": "explicit TLA+ specification family checked by TLC 1.8 (exhaustive / -simulate), behaviours exported as JSON"},
            {"name": "harness", "path": "/verif/harness", "serves_properties": [c["property_id"] for c in checks],
             "kind_free_text": "Python conformance harness: replays TLC behaviours into pydoctor, records real executions and has TLC validate them"},
        ],
        "checks": checks,
        "notes": "Entry point ./check <ID> --tier quick|thorough. known_findings.json lists open findings and fixed defects. See DESIGN.md.",
        "not_applicable": na,
    }
    (VERIF / "MANIFEST.json").write_text(json.dumps(m, indent=1) + "\n")
    findings = []
    for f in sorted((VERIF / "findings.d").glob("C*.json")):
        findings.extend(json.loads(f.read_text()))
    (VERIF / "known_findings.json").write_text(json.dumps(findings, indent=1) + "\n")
    print(f"MANIFEST.json: {len(checks)} checks, {len(na)} not claimed")


if __name__ == "__main__":
    main()
