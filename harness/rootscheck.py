"""
Roots.tla <-> code: several source paths on one command line, possibly providing the same top-level name.

TLC enumerates every sequence of paths (module file / package directory with 0-2 child modules, names from a small set),
the transition system of Roots.tla adds the modules one by one, the terminal state (unprocessed list, rootobjects,
registered module keys with the path each came from) is printed.  Every sequence is realised on disk and handed to the
real System the way driver.get_system does; the discovery result is compared with the model (drift) and, after the
complete analysis, the C02 clauses are evaluated on the real registry: every object registered under its name, entry of
its parent, reachable from a root, one root per top-level name, nothing of the winner lost.
"""
from __future__ import annotations

import json
import shutil
from pathlib import Path
from typing import Any, Dict, List

from .core import Ctx, MachineryError
from .projects import waiting_modules as P_waiting
from . import projects as P

CFG = """SPECIFICATION Spec
CONSTANTS MaxPaths = {maxp}
RootNames = {names}
CONSTRAINT Emit
INVARIANT RootsAreWinners
INVARIANT ReachableFromWinner
INVARIANT WinnerComplete
"""


def realise(paths: List[Dict[str, Any]], base: Path) -> List[Path]:
    out: List[Path] = []
    for k, p in enumerate(paths, 1):
        d = base / f"r{k}"
        d.mkdir(parents=True)
        if p["pkg"]:
            pk = d / p["name"]
            pk.mkdir()
            (pk / "__init__.py").write_text(f"'''src:{k}'''\nclass Init{k}:\n    def m(self): pass\n")
            for kid in p["kids"]:
                (pk / f"{kid}.py").write_text(f"'''src:{k}'''\nclass Kid{k}:\n    def m(self): pass\n")
            out.append(pk)
        else:
            f = d / f"{p['name']}.py"
            f.write_text(f"'''src:{k}'''\nclass Mod{k}:\n    def m(self): pass\n")
            out.append(f)
    return out


def src_of(mod: Any) -> int:
    doc = mod.docstring or ""
    if doc.startswith("src:"):
        return int(doc[4:])
    parts = Path(str(mod.source_path)).parts
    return next((int(x[1:]) for x in parts if x.startswith("r") and x[1:].isdigit()), 0)


def run(ctx: Ctx, maxp: int, names: List[str]) -> Dict[str, int]:
    from pydoctor import model
    r = ctx.tlc("Roots", CFG.format(maxp=maxp, names="{" + ", ".join(f'"{n}"' for n in names) + "}"), workers="auto", check=True, timeout=1200)
    if r.violated:
        raise MachineryError(f"Roots.tla violates its own invariants: {r.violated}")
    stats = {"sequences": 0, "drift": 0, "with_name_clash": 0}
    for n, rec in enumerate(r.printed):
        paths = rec["paths"]
        base = ctx.scratch / f"roots_{n}"
        real_paths = realise(paths, base)
        # discovery only: what enters the system, in which order
        system = model.System()
        orig = model.System.msg
        model.System.msg = lambda self, *a, **k: None
        try:
            b0 = system.systemBuilder(system)
            for p in real_paths:
                b0.addModule(p)
        finally:
            model.System.msg = orig
        # source of a module before analysis: from its path
        def src_path(m: Any) -> int:
            return next((int(x[1:]) for x in Path(str(m.source_path)).parts if x.startswith("r") and x[1:].isdigit()), 0)
        got = {"mods": [{"name": m.fullName().split("."), "pkg": isinstance(m, model.Package), "src": src_path(m)} for m in P_waiting(system)],
               "roots": [{"name": m.name, "src": src_path(m)} for m in system.rootobjects],
               "reg": sorted(([k.split("."), src_path(o)] for k, o in system.allobjects.items()), key=str)}
        want = {"mods": rec["mods"], "roots": rec["roots"], "reg": sorted(([e["k"], e["src"]] for e in rec["reg"]), key=str)}
        stats["sequences"] += 1
        ctx.traces += 1
        clash = len({p["name"] for p in paths}) < len(paths)
        stats["with_name_clash"] += 1 if clash else 0
        origin = {"family": "roots", "shape": json.dumps(paths)[:80], "paths": paths}
        if got != want:
            stats["drift"] += 1
            ctx.drift_note({"what": "roots", "paths": paths, "spec": want, "real": got})
        # the complete analysis, registry projected after every step and at the end
        b = P.build_sources(paths=real_paths)
        if b["crashed"]:
            ctx.violation({"invariant": "NoCrash", "origin": origin, "exc": b["crashed"], "key": "roots-crash:" + b["crashed"][:60]})
        bad: List[str] = []
        for e in b["rec"].events:
            if e["s"] is not None and not e["exc"]:
                bad = P.registry_invariants(e["s"])
                if bad:
                    break
        final = b["rec"].project()
        bad = bad or P.registry_invariants(final)
        sysr = b["system"]
        # property clauses stated directly on the real system: one root per top-level name, it is the documented winner,
        # every module of the winner is registered and reachable
        winners: Dict[str, int] = {}
        for k, p in enumerate(paths, 1):
            cur = winners.get(p["name"])
            if cur is None or not (paths[cur - 1]["pkg"] and not p["pkg"]):
                winners[p["name"]] = k
        for name, k in winners.items():
            rs = [m for m in sysr.rootobjects if m.name == name]
            if len(rs) != 1 or src_of(rs[0]) != k or sysr.allobjects.get(name) is not rs[0]:
                bad.append("RootIsTheWinner")
            for kid in paths[k - 1]["kids"]:
                o = sysr.allobjects.get(f"{name}.{kid}")
                if o is None or src_of(o) != k or o.parent is None or o.parent not in sysr.rootobjects:
                    bad.append("WinnerComplete")
        for key, o in sysr.allobjects.items():
            top = o
            while top.parent is not None:
                top = top.parent
            if top not in sysr.rootobjects:
                bad.append("ReachableFromRoot")
                break
        if bad:
            ctx.violation({"invariant": bad[0], "failed": sorted(set(bad)), "origin": origin,
                           "roots": [[m.name, src_of(m)] for m in sysr.rootobjects],
                           "key": f"roots:{sorted(set(bad))}:{json.dumps([[p['name'], p['pkg'], len(p['kids'])] for p in paths])}"})
        shutil.rmtree(base, ignore_errors=True)
    return stats
