"""
Random generator of Python modules in (a superset of) the statically analysable subset used by
C03 / C19 / C01: definitions at module / class level, inside taken if/try/with/for/while bodies,
decorators, nested classes, nested functions, __main__ blocks, attribute docstrings.

A program is a JSON-able tree:  {"k": kind, "name": ..., "body": [...], ...}; `render` gives source text.
"""
from __future__ import annotations

import random
from typing import Any, Dict, List

NAMES = ["a", "b", "c", "d"]


def gen_body(rng: random.Random, depth: int, scope: str, max_stmts: int = 4) -> List[Dict[str, Any]]:
    out: List[Dict[str, Any]] = []
    for _ in range(rng.randint(1, max_stmts)):
        out.append(gen_stmt(rng, depth, scope))
    return out


def gen_stmt(rng: random.Random, depth: int, scope: str) -> Dict[str, Any]:
    kinds = ["def", "assign", "annassign", "expr", "pass"]
    if depth > 0:
        kinds += ["class", "class", "def", "if", "ifmain", "try", "with", "for", "while", "asyncdef"]
    k = rng.choice(kinds)
    name = rng.choice(NAMES)
    if k in ("def", "asyncdef"):
        deco = "none"
        if scope == "class":
            deco = rng.choice(["none", "none", "classmethod", "staticmethod", "property"])
        body = gen_body(rng, depth - 1, "function", 2) if depth > 0 and rng.random() < 0.5 else []
        return {"k": k, "name": name, "deco": deco, "doc": rng.random() < 0.5, "body": body}
    if k == "class":
        return {"k": k, "name": name.upper(), "doc": rng.random() < 0.5,
                "exc": rng.random() < 0.2, "body": gen_body(rng, depth - 1, "class", 3)}
    if k == "assign":
        return {"k": k, "name": name, "value": rng.choice(["1", "'s'", "[1]", "None", "(1, 2)", "{}", "b''", "1.5"]),
                "doc": rng.random() < 0.3}
    if k == "annassign":
        return {"k": k, "name": name, "ann": rng.choice(["int", "str", "'int'"]), "value": rng.choice(["1", None]),
                "doc": rng.random() < 0.3}
    if k == "expr":
        return {"k": k, "value": rng.choice(["print(1)", "'stray string'", "a_call(b=[x for x in ()])", "print(1) if a else None", "lambda x: x",
                                             "(yield_ for yield_ in ())", "{k: v for k, v in ()}", "a and b or c", "[*a, *b]", "f'{a!r:>{b}}'"])}
    if k in ("if", "ifmain", "try", "with", "for", "while"):
        return {"k": k, "body": gen_body(rng, depth - 1, scope, 2)}
    return {"k": "pass"}


def render(body: List[Dict[str, Any]], ind: int = 0, scope: str = "module") -> str:
    sp = "    " * ind
    lines: List[str] = []
    for s in body:
        k = s["k"]
        if k in ("def", "asyncdef"):
            if s.get("deco", "none") != "none":
                lines.append(f"{sp}@{s['deco']}")
            a = "self" if scope == "class" and s.get("deco") in ("none", "property") else ("cls" if s.get("deco") == "classmethod" else "")
            lines.append(f"{sp}{'async ' if k == 'asyncdef' else ''}def {s['name']}({a}):")
            if s.get("doc"):
                lines.append(f"{sp}    '''doc of {s['name']}'''")
            inner = render(s["body"], ind + 1, "function")
            lines.append(inner if inner.strip() else f"{sp}    pass")
        elif k == "class":
            lines.append(f"{sp}class {s['name']}{'(Exception)' if s.get('exc') else ''}:")
            if s.get("doc"):
                lines.append(f"{sp}    '''doc of {s['name']}'''")
            inner = render(s["body"], ind + 1, "class")
            lines.append(inner if inner.strip() else f"{sp}    pass")
        elif k == "assign":
            lines.append(f"{sp}{s['name']} = {s['value']}")
            if s.get("doc"):
                lines.append(f"{sp}'''doc of var {s['name']}'''")
        elif k == "annassign":
            lines.append(f"{sp}{s['name']}: {s['ann']}" + (f" = {s['value']}" if s.get("value") else ""))
            if s.get("doc"):
                lines.append(f"{sp}'''doc of var {s['name']}'''")
        elif k == "expr":
            lines.append(f"{sp}{s['value']}")
        elif k == "pass":
            lines.append(f"{sp}pass")
        else:
            head = {"if": "if True:", "ifmain": "if __name__ == '__main__':", "try": "try:",
                    "with": "with open('x') as fobj:", "for": "for i_ in range(1):", "while": "while True:"}[k]
            lines.append(sp + head)
            inner = render(s["body"], ind + 1, scope)
            lines.append(inner if inner.strip() else f"{sp}    pass")
            if k == "try":
                lines.append(f"{sp}finally:\n{sp}    pass")
            if k == "while":
                lines.append(f"{sp}    break")
    return "\n".join(lines)


def gen_module(rng: random.Random, depth: int = 3, max_stmts: int = 4) -> str:
    return render(gen_body(rng, depth, "module", max_stmts)) + "\n"
