"""
C07 side check on WRITTEN PAGES: annotations that name a re-exported class.

The statement grammar of Processing.tla has no annotations, so these hand-written projects are built with the real driver
and judged from the HTML: every annotation that (in Python) denotes the re-exported class must link to the one page where
it is documented now - from the defining module, from inside a class that has a member of the same name (the
datetime.date() pattern of the standard library), from a module importing it from the old or from the new location.
"""
from __future__ import annotations

import contextlib
import io
import re
from pathlib import Path
from typing import Any, Dict, List, Tuple

FILES = {
    "rp/__init__.py": '"""Top."""\nfrom ._types import date, datetime, Span\n__all__ = ["date", "datetime", "Span"]\n',
    "rp/_types.py": (
        '"""Types."""\n'
        "class date:\n    'A date.'\n"
        "class datetime:\n    'A date and a time.'\n"
        "    epoch: date = None\n"
        "    def date(self) -> date:\n        'The date part.'\n"
        "    def combine(self, other: 'datetime') -> 'datetime':\n        'Both.'\n"
        "class Span:\n    'Two dates.'\n    start: date = None\n"
        "    def __init__(self, start: date, end: 'date'):\n        'Make.'\n"
        "    def datetime(self) -> datetime:\n        'As datetime.'\n"
        "def today() -> date:\n    'Today.'\n"
        "def now(tz=None) -> datetime:\n    'Now.'\n"
    ),
    # the re-exporting package binds a name the moved objects use to something ELSE: what they name are globals of the module
    # they are written in
    "rp/shapes/__init__.py": '"""Shapes."""\nfrom ._impl import Box, make, DEFAULT, Crate\nfrom .other import Helper\n__all__ = ["Box", "make", "DEFAULT", "Crate"]\n',
    "rp/shapes/_impl.py": (
        '"""Implementation."""\n'
        "class Helper:\n    'The helper of the implementation.'\n"
        "class Box:\n    'A box.'\n    tool: Helper = None\n"
        "    def use(self, h: Helper) -> 'Helper':\n        'Use.'\n"
        "def make(h: Helper) -> Box:\n    'Make.'\n"
        "DEFAULT: Helper = None\n'A moved VARIABLE with an annotation.'\n"
        "class Crate(Helper):\n    'A moved class whose BASE is named like something else in the re-exporting package.'\n"
    ),
    "rp/shapes/other.py": '"""Other."""\nclass Helper:\n    "Another helper."\n',
    "rp/user_old.py": '"""Names the defining module."""\nfrom rp._types import date\nimport rp._types\n'
                      "class Old:\n    'o'\n    born: date = None\n    def f(self, d: date) -> rp._types.datetime:\n        'f'\n",
    "rp/user_new.py": '"""Names the re-exporting package."""\nfrom rp import date as D\nimport rp\n'
                      "class New:\n    'n'\n    def g(self, d: D) -> rp.datetime:\n        'g'\n",
}
# (page, function or attribute name on that page, label of the link, expected href)
EXPECT: List[Tuple[str, str, str, str]] = [
    ("rp.datetime.html", "date", "date", "rp.date.html"),
    ("rp.datetime.html", "epoch", "date", "rp.date.html"),
    ("rp.datetime.html", "combine", "datetime", "rp.datetime.html"),
    ("rp.Span.html", "__init__", "date", "rp.date.html"),
    ("rp.Span.html", "start", "date", "rp.date.html"),
    ("rp.Span.html", "datetime", "datetime", "rp.datetime.html"),
    ("rp._types.html", "today", "date", "rp.date.html"),
    ("rp._types.html", "now", "datetime", "rp.datetime.html"),
    ("rp.shapes.Box.html", "use", "Helper", "rp.shapes._impl.Helper.html"),
    ("rp.shapes.Box.html", "tool", "Helper", "rp.shapes._impl.Helper.html"),
    ("rp.shapes.html", "make", "Helper", "rp.shapes._impl.Helper.html"),
    ("rp.shapes.html", "make", "Box", "rp.shapes.Box.html"),
    ("rp.shapes.html", "DEFAULT", "Helper", "rp.shapes._impl.Helper.html"),
    ("rp.user_old.Old.html", "f", "date", "rp.date.html"),
    ("rp.user_old.Old.html", "f", "rp._types.datetime", "rp.datetime.html"),
    ("rp.user_old.Old.html", "born", "date", "rp.date.html"),
    ("rp.user_new.New.html", "g", "D", "rp.date.html"),
    ("rp.user_new.New.html", "g", "rp.datetime", "rp.datetime.html"),
]


def member_block(html: str, name: str) -> str:
    """The part of a page that documents member `name`: from its anchor to the next member anchor."""
    m = re.search(r'<a name="[^"]*\.%s">' % re.escape(name), html)
    if not m:
        return ""
    rest = html[m.end():]
    n = re.search(r'<a name="[^"]*\.[^"]*">', rest)           # the next member's anchor carries a qualified name
    return rest[: n.start()] if n else rest


def links(block: str, label: str) -> List[str]:
    return re.findall(r'<a href="([^"]+)"[^>]*>%s</a>' % re.escape(label), block)


def check(scratch: Path) -> List[Dict[str, Any]]:
    from pydoctor import driver
    base = scratch / "reexport_pages"
    for rel, text in FILES.items():
        f = base / "src" / rel
        f.parent.mkdir(parents=True, exist_ok=True)
        f.write_text(text)
    out = base / "out"
    buf = io.StringIO()
    with contextlib.redirect_stdout(buf), contextlib.redirect_stderr(buf):
        try:
            rc = driver.main(["--html-output", str(out), "--project-base-dir", str(base / "src"), "--privacy", "PUBLIC:**", "-q",
                              str(base / "src" / "rp")])
        except SystemExit as e:
            rc = e.code
    bad: List[Dict[str, Any]] = []
    pages = {p.name for p in out.glob("*.html")} if out.exists() else set()
    for want in ("rp.date.html", "rp.datetime.html", "rp.Span.html"):
        if want not in pages:
            bad.append({"what": "page of the re-exported class missing", "page": want, "exit": rc})
    for stale in ("rp._types.date.html", "rp._types.datetime.html", "rp._types.Span.html"):
        if stale in pages:
            bad.append({"what": "re-exported class still documented under the defining module", "page": stale})
    for page, member, label, href in EXPECT:
        if page not in pages:
            bad.append({"what": "page missing", "page": page})
            continue
        block = member_block((out / page).read_text(), member)
        got = links(block, label)
        if not got or any(h != href and not (h.startswith("#") and href == page) for h in got):
            bad.append({"what": "annotation does not lead to the re-exported class", "page": page, "member": member, "label": label,
                        "expected": href, "got": got})
    # the header of a moved class (its bases) names globals of the module it was written in
    for page, label, href in (("rp.shapes.Crate.html", "Helper", "rp.shapes._impl.Helper.html"),):
        got = links((out / page).read_text(), label) if page in pages else []
        if not got or any(h != href for h in got):
            bad.append({"what": "the base in the header of a re-exported class does not lead to the class it names", "page": page, "label": label,
                        "expected": href, "got": got})
    return bad
