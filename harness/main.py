"""./check <ID> [--tier quick|thorough] [--replay FILE]  (see DESIGN.md 2.1)"""
from __future__ import annotations

import argparse
import importlib
import os
import sys
import traceback

from .core import Ctx, MachineryError


def main(argv=None) -> int:
    ap = argparse.ArgumentParser()
    ap.add_argument("prop")
    ap.add_argument("--tier", default=os.environ.get("VERIF_TIER", "quick"), choices=["quick", "thorough"])
    ap.add_argument("--replay", default=None)
    ap.add_argument("--seed", type=int, default=None)
    a = ap.parse_args(argv)
    seed = a.seed if a.seed is not None else int(os.environ.get("VERIF_SEED", "0") or 0)
    prop = a.prop.upper()
    try:
        mod = importlib.import_module(f"harness.checks.{prop.lower()}")
    except ModuleNotFoundError as e:
        print(f"no check for {prop}: {e}", file=sys.stderr)
        return 2
    ctx = Ctx(prop, a.tier, seed, a.replay)
    try:
        if a.replay:
            return mod.replay(ctx, a.replay)
        return mod.run(ctx)
    except MachineryError as e:
        print(f"MACHINERY-ERROR {prop}: {e}", file=sys.stderr)
        ctx.cleanup()
        return 2
    except Exception:
        traceback.print_exc()
        print(f"MACHINERY-ERROR {prop}: unexpected exception in harness", file=sys.stderr)
        ctx.cleanup()
        return 2


if __name__ == "__main__":
    sys.exit(main())
