"""
Templates.tla <-> code: the template lookup over a HISTORY of additions (base, theme, every --template-dir in turn).

TLC enumerates every history of additions (names from a small catalogue with case variants, a file and a directory of one name,
HTML and static kinds, template versions) and prints the outcome of every step and the table after it.  Every history is replayed
 (a) into the real TemplateLookup.add_template, step by step: outcome (accepted / accepted with the out-of-date warning / which
     rejection) and table (answering name -> spelling kept, kind, version, which addition answers) compared with the model (drift);
     the clauses are evaluated on the real table: no name is both a file and a directory, and the static files can be written;
 (b) a sample end to end: every addition a --template-dir of its own handed to driver.main with a small source tree - a rejection
     is a usage error (exit 1 with a message), anything else ends with a documented status, no exception, and the static files
     written are those of the last accepted addition under the first spelling.
"""
from __future__ import annotations

import contextlib
import io
import json
import re
import shutil
import tempfile
import traceback
import warnings
from pathlib import Path
from typing import Any, Dict, List, Sequence

from .core import Ctx, MachineryError

CFG = """SPECIFICATION Spec
CONSTANTS MaxAdds = {maxadds}
Names = {names}
Versions = {versions}
BothWays = {bothways}
CONSTRAINT Emit
INVARIANT LastAcceptedAnswers
INVARIANT NoFileIsADirectory
PROPERTY SpellingAndKindStay
PROPERTY NeverNewerThanReplaced
"""


def html_text(k: int, v: int) -> str:
    meta = f'<meta name="pydoctor-template-version" content="{v}" />' if v else ""
    return f'<html xmlns:t="http://twistedmatrix.com/ns/twisted.web.template/0.1"><head>{meta}<title>add{k}</title></head><body>add{k}</body></html>'


def make_template(k: int, n: str, v: int) -> Any:
    from pydoctor.templatewriter import HtmlTemplate, StaticTemplate
    if n.lower().endswith(".html"):
        return HtmlTemplate(name=n, text=html_text(k, v))
    return StaticTemplate(name=n, data=f"add{k}".encode())


def real_table(lk: Any) -> List[Dict[str, Any]]:
    from pydoctor.templatewriter import HtmlTemplate
    out = []
    for key, t in lk._templates.items():
        html = isinstance(t, HtmlTemplate)
        marker = t.text if html else t.data.decode()
        m = re.search(r"add(\d+)", marker)
        out.append({"k": key.lower(), "name": t.name, "kind": "html" if html else "static", "v": max(getattr(t, "version", -1), 0) if html else 0,
                    "by": int(m.group(1)) if m else 0})
    return sorted(out, key=lambda e: e["k"])


def api_replay(hist: List[Dict[str, Any]], scratch: Path) -> Dict[str, Any]:
    from pydoctor.templatewriter import TemplateLookup, OverrideTemplateNotAllowed, UnsupportedTemplateVersion, TemplateError
    base = Path(tempfile.mkdtemp(prefix="tpl-", dir=scratch))
    drift: List[Dict[str, Any]] = []
    bad: List[Dict[str, Any]] = []
    try:
        (base / "empty").mkdir()
        lk = TemplateLookup(base / "empty")
        for k, step in enumerate(hist, 1):
            t = make_template(k, step["n"], step["v"])
            outcome = "ok"
            with warnings.catch_warnings(record=True) as ws:
                warnings.simplefilter("always")
                try:
                    lk.add_template(t)
                except UnsupportedTemplateVersion:
                    outcome = "newer"
                except OverrideTemplateNotAllowed as e:
                    outcome = "directory" if "directory" in str(e) else "kind"
                except TemplateError as e:
                    outcome = "error:" + type(e).__name__
                except Exception as e:
                    bad.append({"invariant": "NoUncaughtException", "step": k, "exception": f"{type(e).__name__}: {e}", "traceback": traceback.format_exc()[-800:]})
                    break
            if outcome == "ok" and any("out of date" in str(w.message) for w in ws):
                outcome = "outdated"
            got = real_table(lk)
            want = sorted(step["tab"], key=lambda e: e["k"])
            # the clauses on the real table
            keys = [e["k"] for e in got]
            if any(k2.startswith(k1 + "/") for k1 in keys for k2 in keys):
                bad.append({"invariant": "NoFileIsADirectory", "step": k, "table": keys})
            else:
                out = base / f"out{k}"
                out.mkdir()
                try:
                    from pydoctor.templatewriter import StaticTemplate
                    for tt in lk.templates:
                        if isinstance(tt, StaticTemplate):
                            tt.write(out)
                except Exception as e:
                    bad.append({"invariant": "StaticFilesCanBeWritten", "step": k, "exception": f"{type(e).__name__}: {e}"})
            if outcome != step["outcome"] or got != want:
                drift.append({"what": "templates", "step": k, "spec": {"outcome": step["outcome"], "tab": want}, "real": {"outcome": outcome, "tab": got}})
                break
    finally:
        shutil.rmtree(base, ignore_errors=True)
    return {"drift": drift, "bad": bad}


def e2e_replay(hist: List[Dict[str, Any]], scratch: Path) -> List[Dict[str, Any]]:
    """Every addition a --template-dir of its own; the run as a whole."""
    from pydoctor import driver
    base = Path(tempfile.mkdtemp(prefix="tple-", dir=scratch))
    bad: List[Dict[str, Any]] = []
    try:
        src = base / "src" / "pk"
        src.mkdir(parents=True)
        (src / "__init__.py").write_text('"""Package."""\ndef f():\n    "doc"\n')
        args = [f"--html-output={base / 'out'}", "--project-name=proj", "--quiet", "--quiet"]
        for k, step in enumerate(hist, 1):
            d = base / f"t{k}"
            f = d / step["n"]
            f.parent.mkdir(parents=True, exist_ok=True)
            f.write_text(html_text(k, step["v"]) if step["n"].lower().endswith(".html") else f"add{k}")
            args.append(f"--template-dir={d}")
        args.append(str(src))
        first_rejected = next((k for k, s in enumerate(hist, 1) if s["outcome"] in ("directory", "kind", "newer")), 0)
        buf = io.StringIO()
        code, exc = None, ""
        with contextlib.redirect_stdout(buf), contextlib.redirect_stderr(buf), warnings.catch_warnings():
            warnings.simplefilter("ignore")
            try:
                code = driver.main(args)
            except SystemExit as e:
                code = e.code if isinstance(e.code, int) else 1
            except BaseException as e:
                exc = f"{type(e).__name__}: {e}"
        if exc:
            bad.append({"invariant": "NoUncaughtException", "exception": exc})
        elif first_rejected:
            if code != 1:
                bad.append({"invariant": "RejectionIsAUsageError", "code": code, "step": first_rejected})
        else:
            if code not in (0, 2, 3):
                bad.append({"invariant": "UndocumentedExitStatus", "code": code, "output": buf.getvalue()[-400:]})
            for e in hist[-1]["tab"]:
                if e["kind"] == "static":
                    p = base / "out" / e["name"]
                    if not p.is_file() or p.read_text() != f"add{e['by']}":
                        bad.append({"invariant": "StaticFileOfTheLastAccepted", "name": e["name"], "by": e["by"],
                                    "found": p.read_text()[:20] if p.is_file() else None})
    finally:
        shutil.rmtree(base, ignore_errors=True)
    return bad


def tla_set(xs: Sequence[Any]) -> str:
    return "{" + ", ".join(f'"{x}"' if isinstance(x, str) else str(x) for x in xs) + "}"


def run(ctx: Ctx, maxadds: int, names: Sequence[str], versions: Sequence[int], e2e_every: int) -> Dict[str, int]:
    cfg = dict(maxadds=maxadds, names=tla_set(names), versions=tla_set(versions))
    r = ctx.tlc("Templates", CFG.format(bothways="TRUE", **cfg), workers="auto", check=True, timeout=1800)
    if r.violated:
        raise MachineryError(f"Templates.tla violates its own properties: {r.violated}")
    neg = ctx.tlc("Templates", CFG.format(bothways="FALSE", **cfg).replace("CONSTRAINT Emit\n", ""), workers="auto", check=True, count=False, timeout=1800)
    if "NoFileIsADirectory" not in neg.violated:
        raise MachineryError("Templates.tla: the one-way variant is not rejected (NoFileIsADirectory is vacuous)")
    stats = {"histories": 0, "drift": 0, "with_rejection": 0, "end_to_end": 0}
    for i, rec in enumerate(r.printed):
        hist = rec["hist"]
        stats["histories"] += 1
        ctx.traces += 1
        rejected = any(s["outcome"] in ("directory", "kind", "newer") for s in hist)
        stats["with_rejection"] += 1 if rejected else 0
        res = api_replay(hist, ctx.scratch)
        origin = {"family": "templates", "history": [{x: s[x] for x in ("n", "v", "outcome")} for s in hist]}
        for d in res["drift"][:1]:
            stats["drift"] += 1
            ctx.drift_note({**d, "history": origin["history"]})
        bad = list(res["bad"])
        if i % e2e_every == 0 or (rejected and i % max(1, e2e_every // 4) == 0):
            stats["end_to_end"] += 1
            bad += e2e_replay(hist, ctx.scratch)
        for b in bad[:1]:
            ctx.violation({**b, "failed": sorted({x["invariant"] for x in bad}), "origin": origin,
                           "key": f"templates:{b['invariant']}:{json.dumps(origin['history'])[:160]}"})
    return stats


def replay_witness(ctx: Ctx, history: List[Dict[str, Any]]) -> List[str]:
    hist = [{**s, "tab": []} for s in history]
    res = api_replay(hist, ctx.scratch)
    bad = [b["invariant"] for b in res["bad"]]
    # the end-to-end clauses that do not need the model's table
    e = [b["invariant"] for b in e2e_replay([{**s, "tab": []} for s in history], ctx.scratch) if b["invariant"] != "StaticFileOfTheLastAccepted"]
    return sorted(set(bad + e))
