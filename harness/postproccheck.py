"""
PostProc.tla <-> code: the post-processing step over a HISTORY of registrations and passes.

TLC enumerates every history (registrations with a priority or none, callables that register one more while they run, passes) and
prints, for every pass, the order the model runs the registrations in and whether the pass is announced as a repeated one.  Every
history is replayed
 (a) "bare":   into a PriorityProcessor of its own (extensions.PriorityProcessor.add_post_processor / apply_processors);
 (b) "system": into a real System through ExtRegistrar.register_post_processor and System.postProcess, next to what the System
               registers for itself (defaultPostProcess, the zope.interface pass) - the model starts from those two, and the replay
               first checks that this is what a fresh System holds.
The order observed (callables identified by the index of their registration) and the warning are compared with the model (drift);
the clauses are then evaluated on the observed order itself: highest priority first, registration order among equals, every
registration run once, a later pass agrees with an earlier one.
"""
from __future__ import annotations

import json
import traceback
from typing import Any, Callable, Dict, List, Sequence

from .core import Ctx, MachineryError

CFG = """SPECIFICATION Spec
CONSTANTS MaxOps = {maxops}
MaxApplies = {maxapplies}
Prios = {prios}
Spawns = {spawns}
PreKind = "{prekind}"
CounterDown = {down}
CONSTRAINT Emit
INVARIANT OrderIsExpected
INVARIANT EachOnce
INVARIANT HighestFirst
INVARIANT FifoAmongEqual
PROPERTY PassesAgree
PROPERTY NothingForgotten
"""


class _FakeSystem:
    def __init__(self) -> None:
        self.msgs: List[str] = []

    def msg(self, section: str, msg: str, thresh: int = 0, **kw: Any) -> None:
        self.msgs.append(msg)


def replay(hist: List[Dict[str, Any]], prekind: str) -> Dict[str, Any]:
    """Returns {'drift': [...], 'bad': [...]} for one history."""
    from pydoctor import extensions
    drift: List[Dict[str, Any]] = []
    bad: List[Dict[str, Any]] = []
    ran: List[int] = []
    fns: List[Callable[[Any], None]] = []      # fns[i-1] is registration i
    prio: Dict[int, int] = {}                  # effective priority of registration i

    msgs: List[str]
    saw: Dict[int, Any] = {}                   # what registration i saw when it ran: (every module analysed, linearisations computed)
    npass = [0]
    from pydoctor import model
    if prekind == "system":
        system = model.System()
        pp = system._post_processor
        pre = [(k[0], f) for k, f in pp._post_processors]
        if [p for p, _ in pre] != [200, 100]:
            # the model starts elsewhere: noted, and the clauses are still evaluated on what the real object does
            drift.append({"what": "postproc", "step": 0, "spec": {"pre": [200, 100]}, "real": {"pre": [p for p, _ in pre]}})
        for p, f in pre:
            fns.append(f)
            prio[len(fns)] = p
        msgs = []
        orig = system.msg

        def rec(section: str, m: str, *a: Any, **kw: Any) -> None:
            msgs.append(m)
        system.msg = rec  # type: ignore[method-assign]
        registrar = extensions.ExtRegistrar(system)
        builder = system.systemBuilder(system)
        builder.addModuleString("class A: pass\nclass B(A): pass\n", "ppm")
        built = [False]

        def add(fn: Callable[[Any], None], p: Any) -> None:
            registrar.register_post_processor(fn, priority=p)

        def run_pass() -> None:
            # the first pass is the one the pipeline itself starts when the last module is analysed
            if built[0]:
                system.postProcess()
            else:
                built[0] = True
                builder.buildModules()
        del orig
    else:
        fake = _FakeSystem()
        pp = extensions.PriorityProcessor(fake)  # type: ignore[arg-type]
        msgs = fake.msgs

        def add(fn: Callable[[Any], None], p: Any) -> None:
            pp.add_post_processor(fn, p)

        def run_pass() -> None:
            pp.apply_processors()

    def register(p: int, q: int) -> None:
        """p: 0 none; q: 0 nothing, 1 registers one more without a priority, otherwise with priority q"""
        me = len(fns) + 1

        def fn(_system: Any) -> None:
            ran.append(me)
            if prekind == "system":
                mods = [o for o in _system.allobjects.values() if isinstance(o, model.Module)]
                cls = _system.allobjects.get("ppm.B")
                saw[me] = (bool(mods) and all(m.state is model.ProcessingState.PROCESSED for m in mods), cls is not None and cls._mro is not None)
            if q:
                register(0 if q == 1 else q, 0)
        fns.append(fn)
        prio[me] = 100 if p == 0 else p
        add(fn, None if p == 0 else p)

    last: List[int] = []
    for k, step in enumerate(hist, 1):
        try:
            if step["op"] == "add":
                register(step["p"], step["q"])
                continue
            del ran[:]
            del msgs[:]
            saw.clear()
            seen = len(fns)
            npass[0] += 1
            run_pass()
        except Exception as e:
            bad.append({"invariant": "NoUncaughtException", "step": k, "exception": f"{type(e).__name__}: {e}", "traceback": traceback.format_exc()[-600:]})
            break
        # the pass as the object itself reports it: every callable (ours and the System's own) in the order applied
        order = [fns.index(f) + 1 if f in fns else -1 for f in pp.applied]
        ours = [i for i in order if i > (2 if prekind == "system" else 0)]
        warned = any("multiple post-processing pass" in m for m in msgs)
        if prekind == "system" and sorted(order) == list(range(1, seen + 1)):
            # what a callable may rely on: every module is analysed; the linearisations are there exactly when the default pass
            # (registration 1, priority 200) ran before it - in this pass or in an earlier one
            for i in ours:
                want_mro = npass[0] > 1 or order.index(1) < order.index(i)
                if i in saw and not saw[i][0]:
                    bad.append({"invariant": "RunsAfterTheLastModule", "step": k, "registration": i})
                elif i in saw and saw[i][1] != want_mro:
                    bad.append({"invariant": "DefaultPassBeforeLowerPriorities", "step": k, "registration": i, "priority": prio[i],
                                "linearisation_seen": saw[i][1], "order": order})
        if ours != ran:
            bad.append({"invariant": "AppliedListIsWhatRan", "step": k, "applied": order, "ran": list(ran)})
        # the clauses on what was observed
        if sorted(order) != list(range(1, seen + 1)):
            bad.append({"invariant": "EachOnce", "step": k, "order": order, "registered": seen})
        elif any(prio[a] < prio[b] for a, b in zip(order, order[1:])):
            bad.append({"invariant": "HighestFirst", "step": k, "order": order, "priorities": [prio[i] for i in order]})
        elif any(prio[a] == prio[b] and a > b for a, b in zip(order, order[1:])):
            bad.append({"invariant": "FifoAmongEqual", "step": k, "order": order, "priorities": [prio[i] for i in order]})
        elif last and [i for i in order if i in last] != last:
            bad.append({"invariant": "PassesAgree", "step": k, "before": last, "now": order})
        if (order != step["order"] or warned != step["warned"]) and not drift:
            drift.append({"what": "postproc", "step": k, "spec": {"order": step["order"], "warned": step["warned"]}, "real": {"order": order, "warned": warned}})
        last = order
    return {"drift": drift, "bad": bad}


def tla_set(xs: Sequence[int]) -> str:
    return "{" + ", ".join(str(x) for x in xs) + "}"


def run(ctx: Ctx, maxops: int, prios: Sequence[int], spawns: Sequence[int], system_every: int) -> Dict[str, int]:
    stats = {"histories": 0, "drift": 0, "passes": 0, "with_registration_during_a_pass": 0, "system_histories": 0}
    kw = dict(maxops=maxops, maxapplies=2, prios=tla_set(prios), spawns=tla_set(spawns))
    neg = ctx.tlc("PostProc", CFG.format(prekind="system", down="FALSE", **kw).replace("CONSTRAINT Emit\n", ""), workers="auto", check=True, count=False, timeout=900)
    if not ({"FifoAmongEqual", "OrderIsExpected"} & set(neg.violated)):
        raise MachineryError("PostProc.tla: the counter counting up is not rejected (FifoAmongEqual is vacuous)")
    for prekind in ("bare", "system"):
        r = ctx.tlc("PostProc", CFG.format(prekind=prekind, down="TRUE", **kw), workers="auto", check=True, timeout=900)
        if r.violated:
            raise MachineryError(f"PostProc.tla violates its own properties: {r.violated}")
        seen = set()
        n = 0
        for rec in r.printed:
            hist = rec["hist"]
            key = json.dumps(hist, sort_keys=True)
            if key in seen:
                continue
            seen.add(key)
            n += 1
            if prekind == "system" and n % system_every:
                continue
            stats["histories"] += 1
            stats["system_histories"] += prekind == "system"
            stats["passes"] += sum(1 for s in hist if s["op"] == "apply")
            stats["with_registration_during_a_pass"] += any(s["op"] == "add" and s["q"] for s in hist) and any(s["op"] == "apply" for s in hist)
            ctx.traces += 1
            res = replay(hist, prekind)
            origin = {"family": "postproc", "prekind": prekind, "history": [{x: s[x] for x in ("op", "p", "q")} for s in hist]}
            for d in res["drift"][:1]:
                stats["drift"] += 1
                ctx.drift_note({**d, "history": origin["history"], "prekind": prekind})
            for b in res["bad"][:1]:
                ctx.violation({**b, "failed": sorted({x["invariant"] for x in res["bad"]}), "origin": origin,
                               "key": f"postproc:{prekind}:{b['invariant']}:{json.dumps(origin['history'])[:160]}"})
    if not stats["histories"] or not stats["with_registration_during_a_pass"]:
        raise MachineryError("PostProc: nothing replayed")
    return stats


def replay_witness(ctx: Ctx, prekind: str, history: List[Dict[str, Any]]) -> List[str]:
    hist = [{**s, "order": [], "warned": False} for s in history]
    res = replay(hist, prekind)
    return sorted({b["invariant"] for b in res["bad"]})
