"""
Engine shared by harness/checks/c11.py and c12.py (pattern O: observed-artifact model, DESIGN.md 2.3 / 4.8).

  spec -> code : TLC enumerates the skeleton family of spec/Site.tla x privacy assignments x sidebar depth and
                 judges the PREDICTED site of each (design level).  A stratified sample (every distinct
                 violation signature + seeded random ones) is realised as a Python project on disk + --privacy
                 rules, the real pydoctor renders it, the output directory is crawled.
  code -> spec : every crawled site (those, and the repository's test packages / pydoctor itself under varying
                 privacy rules, themes, sidebar depths) is written as JSON together with the projection of the
                 real System; TLC (Site.tla, Source = "file") evaluates the property invariants on the observed
                 site, recomputes the site the producers' model predicts for that object model and reports the
                 difference (drift).  The verdict is the Python twin of the invariants on the observed site; TLC's
                 verdict on the same observation must be identical (else: machinery error).
"""
from __future__ import annotations

import json
import os
import random
import shutil
from concurrent.futures import ProcessPoolExecutor
from pathlib import Path
from typing import Any, Dict, Iterable, List, Optional, Sequence, Set, Tuple

from .core import Ctx, MachineryError, chunks
from . import sitecrawl as sc

C11_INVARIANTS = ("LinksResolve", "VisibleHasPage", "VisibleMemberHasAnchor")
C12_INVARIANTS = ("HiddenNoTrace", "PrivateMarked")

# ----------------------------------------------------------------------------------------- the skeleton family
def realise(feat: Dict[str, bool], root: Path) -> List[str]:
    """The object model SkelObjs(feat) of Site.tla as Python source files.  Returns the source paths."""
    pk = root / "pk"
    pk.mkdir(parents=True, exist_ok=True)
    init = '"""Package pk."""\n'
    if feat["move"]:
        init += "from pk._impl import Moved, mf\n__all__ = ['Moved', 'mf']\n"
        (pk / "_impl.py").write_text(
            '"""Implementation module, see L{pk.mf}."""\n'
            'class Moved:\n    """Moved class."""\n    def mm(self, n=1):\n        """Method mm, see L{helper}."""\n'
            'def helper():\n    """Function helper, see L{pk.mf}."""\n'
            'def mf(x: int = 1) -> int:\n    """Function mf, see L{helper}."""\n')
    (pk / "__init__.py").write_text(init)
    mod = ['"""',
           'Module mod, see L{Hid}.',
           '',
           'Overview',
           '========',
           '  Text of the section.',
           '"""',
           'from typing import Generic, TypeVar',
           'class Base:',
           '    """Class Base."""',
           '    def meth(self):',
           '        """Method meth, see L{other}.',
           '',
           '        More about L{other}.',
           '',
           '        @return: The same as L{attr}.',
           '        @see: L{attr}',
           '        """',
           '    def other(self):',
           '        """Method other, see L{attr}."""',
           '    attr: Hid = None',
           '    """Attribute attr."""',
           'class Hid:',
           '    """Class Hid."""',
           '    def hm(self):',
           '        """Method hm."""',
           'class Sub(Base, Hid):',
           '    """Class Sub, see L{Hid.hm}."""',
           '    def meth(self):',
           '        pass',
           '    def hm(self):',
           '        """Overrides hm."""']
    if feat["nested"]:
        mod += ['    Tag = TypeVar("Tag")',
                '    """Attribute Tag."""',
                '    class Inner(Generic[Tag]):',
                '        """Nested class."""',
                '        def im(self):',
                '            pass']
    if feat["dup"]:
        mod += ['class Dup:',
                '    """First Dup."""',
                '    def a(self):',
                '        pass',
                'class Dup:',
                '    """Second Dup."""',
                '    def b(self):',
                '        pass']
    mod += ['def func(x: Hid) -> Base:',
            '    """Function func, see L{Sub}%s%s."""' % (" and L{pk._impl.Moved}" if feat["move"] else "",
                                                          # a is a member of the superseded first Dup only: not a link target
                                                          "; C{Dup} had L{Dup.a}" if feat["dup"] else "")]
    (pk / "mod.py").write_text("\n".join(mod) + "\n")
    # import cycle: cyca is analysed first and imports cycb before CBase exists
    (pk / "cyca.py").write_text(
        '"""Module cyca.\n\nOther notes\n===========\n\nSee `Other notes`_, `RST markup`_ and `rst-cheatsheet`_.\n\n'
        'RST markup\n==========\n\nText.\n\n.. _rst-cheatsheet:\n\nThe cheat sheet.\n"""\n'
        '__docformat__ = "restructuredtext"\nfrom pk.cycb import Impl\n'
        'class CBase:\n    """Class CBase."""\n    def run(self):\n        """Method run."""\n'
        '    def keep(self):\n        """Method keep."""\n'
        '    @property\n    def side(self):\n        """Property side."""\n'
        '    @side.setter\n    def side(self, v):\n        """Set side."""\n'
        '    @side.deleter\n    def side(self):\n        """Delete side."""\n')
    (pk / "cycb.py").write_text(
        '"""Module cycb."""\nfrom pk.cyca import CBase\n'
        'class Impl(CBase):\n    """Class Impl."""\n    def run(self):\n        """Overrides run."""\n'
        '    @CBase.side.setter\n    def side(self, v):\n        """Impl sets side."""\n'
        'class Special(Impl):\n    """Class Special."""\n')
    srcs = [str(pk)]
    if feat["multi"]:
        (root / "m2.py").write_text(
            '"""Module m2."""\nfrom pk.mod import Base\n'
            'class K(Base):\n    """Class K."""\n    def other(self):\n        pass\n')
        srcs.append(str(root / "m2.py"))
    return srcs


# hand-written shapes outside the skeleton family (rendered like real packages: object model = System projection)
EXTRA_PROJECTS: Dict[str, Dict[str, str]] = {
    # a class redefined as a subclass of its own earlier definition: the superseded 'A 0' is a base class
    "redefined-base": {"m.py": '"""Module m."""\nclass A:\n    """First A."""\n    def old(self):\n        """Old method."""\n'
                               'class A(A):\n    """Second A, extends the first."""\n    def new(self):\n        """New method, see L{old}."""\n'
                               'class B(A):\n    """Subclass of the second A."""\n'
                               'class C(B):\n    """First C."""\nclass C(B):\n    """Second C: B has two known subclasses named C."""\n'
                               # a base redefined AFTER its subclass
                               'class P:\n    """First P."""\nclass Q(P):\n    """Subclass of the first P."""\nclass P:\n    """Second P."""\n'},
    # the same top-level package given twice on the command line, with different trees: the later one replaces the
    # earlier one with everything below it (System._handleDuplicateModule)
    "replaced-root": {"a/pk/__init__.py": '"""First pk."""\n', "a/pk/sub/__init__.py": '"""Sub-package."""\n',
                      "a/pk/sub/deep.py": '"""Deep module."""\nclass Deep:\n    """Deep class."""\n    def dm(self):\n        pass\n',
                      "a/pk/gone.py": '"""Module of the first pk only."""\ndef gf():\n    """Function gf."""\n',
                      "b/pk/__init__.py": '"""Second pk."""\n', "b/pk/kept.py": '"""Module of the second pk."""\nclass Kept:\n    """Kept class."""\n'},
    # identifiers that need percent-encoding in URLs (PEP 3131)
    "non-ascii": {"m.py": '"""Module m, see L{Café}."""\nclass Café:\n    """Non-ASCII class name."""\n    def crème(self):\n'
                          '        """Method, see L{Café}."""\nclass Thé(Café):\n    """Subclass."""\n    def crème(self):\n        pass\n'},
    # a variable superseded by a class of the same name, a function defined twice
    "redefined-members": {"pkg/__init__.py": '"""Package."""\n',
                          "pkg/mod.py": '"""Module."""\nThing = None\n"""Placeholder."""\nclass Thing:\n    """The real Thing."""\n'
                                        '    def f(self):\n        """First f."""\n    def f(self):\n        """Second f."""\n'},
    # a module whose docstring has section titles, listed (expandable) in the sidebar of its package
    "sectioned-docstring": {"pkg/__init__.py": '"""Package."""\n',
                            "pkg/mod.py": '"""\nModule with sections, see `Section Two`_.\n\nSection One\n===========\n\nText one [1]_.\n\nSection Two\n===========\n\nText two.\n\n.. [1] A footnote.\n"""\n'
                                          '__docformat__ = "restructuredtext"\ndef f():\n    """Function f."""\n'},
}
EXTRA_PROJECTS["main-module"] = {"pkg/__init__.py": '"""Package."""\n',
                                 "pkg/__main__.py": '"""Entry point."""\ndef main():\n    """Run."""\n',
                                 "pkg/mod.py": '"""Module."""\ndef f():\n    """Function f."""\n'}
# a package re-exports a module of a sub-package under a name one of its own modules already has: pkg.util is superseded
EXTRA_PROJECTS["superseded-module"] = {
    "pkg/__init__.py": '"""Package."""\nfrom pkg.sub import util\n__all__ = ["util"]\n',
    "pkg/util.py": '"""Old utilities."""\nclass Helper:\n    """Helper."""\n    def go(self):\n        """Go."""\ndef tool():\n    """Tool."""\n',
    "pkg/sub/__init__.py": '"""Sub-package."""\n',
    "pkg/sub/util.py": '"""New utilities."""\nclass Better:\n    """Better."""\n'}
# a class with a nested class, defined in a module that a rule hides and re-exported by the package
EXTRA_PROJECTS["hidden-origin-nested"] = {
    "pkg/__init__.py": '"""Package."""\nfrom pkg._hid import Outer\n__all__ = ["Outer"]\n',
    "pkg/_hid.py": '"""Hidden implementation module."""\nclass Outer:\n    """Outer class."""\n    class Inner:\n        """Nested class."""\n'
                   '        def im(self):\n            """Method im."""\n    def om(self):\n        """Method om."""\n'}
# a package with more than 50 leaf modules (the module index presents them in its compact form)
EXTRA_PROJECTS["many-modules"] = dict([("big/__init__.py", '"""Big package."""\n')] +
                                      [("big/m%02d.py" % i, '"""Module %d."""\n' % i) for i in range(52)])
# an EPYTEXT docstring with section headings (sidebar "Contents")
EXTRA_PROJECTS["epytext-sections"] = {"pkg/__init__.py": '"""Package."""\n',
                                      "pkg/mod.py": '"""\nModule.\n\nOverview\n========\n  Text.\n\nDetails\n=======\n  More text.\n"""\n'
                                                    'class C:\n    """\n    Class.\n\n    Usage\n    =====\n      Use it.\n    """\n'}
EXTRA_SRC = {"many-modules": ["big"], "epytext-sections": ["pkg"], "hidden-origin-nested": ["pkg"], "superseded-module": ["pkg"], "replaced-root": ["a/pk", "b/pk"], "main-module": ["pkg"], "redefined-base": ["m.py"], "non-ascii": ["m.py"], "redefined-members": ["pkg"], "sectioned-docstring": ["pkg"]}

# the project of spec/PrivacyHistory.tla: the class K = Moved with methods F = mm, G = other, re-exported by api
HISTORY_PROJECT = {
    "_impl.py": '"""Implementation module."""\nclass Moved:\n    """Class Moved."""\n    def mm(self):\n        """Method mm."""\n'
                '    def other(self):\n        """Method other, see L{mm}."""\n',
    "api.py": '"""Public API."""\nfrom _impl import Moved\n__all__ = [\'Moved\']\n',
}
CFG_HISTORY = """SPECIFICATION Spec
CONSTANTS CacheKey = "{key}"
          RuleSetIds = {rids}
CONSTRAINT Emit
INVARIANT ObservedRight
"""

ALL_PRODS = ["namespace", "childTable", "baseTable", "baseName", "classSignature", "subclasses", "overrides",
             "overriddenIn", "headerLink", "inhierarchy", "docstring", "memberDoc", "summaryDoc", "annotation",
             "sidebarTitle", "sidebarItem", "nav", "moduleIndex", "classIndex", "nameIndex", "letterlinks",
             "undocced", "indexRoots", "indexStatic"]
ENTRY_KINDS = ["table", "detail", "sidebar", "moduleIndex", "classIndex", "nameIndex", "undocced", "indexRoots", "overridesNote", "sidebarTitle",
               "overriddenInNote", "subclassesNote"]
# real packages: targets of docstring / annotation references are not part of the projected object model
STRUCTURAL_PRODS = [p for p in ALL_PRODS if p not in ("classSignature", "docstring", "memberDoc", "summaryDoc", "annotation")]
THEMES = ["base", "classic", "readthedocs"]


LEVELS = ("PUBLIC", "PRIVATE", "HIDDEN")


def rules_for(nd: List[Dict[str, str]], rng: random.Random) -> List[str]:
    """
    The privacy assignment of a model as a --privacy rule list.  The rule that realises it is the LAST exact rule for the
    name; the list may also hold an earlier exact rule with another level for the same name, and a pattern rule (matching
    only that name) with another level anywhere - per the manual both are overridden.
    """
    groups = []
    for r in nd:
        others = [l for l in LEVELS if l != r["p"] and not (r["id"] == "pk" and l == "HIDDEN")]
        g = []
        if rng.random() < 0.5:
            g.append("%s:%s" % (rng.choice(others), r["id"]))
        g.append("%s:%s" % (r["p"], r["id"]))
        if rng.random() < 0.3:
            g.insert(rng.randint(0, len(g)), "%s:%s?" % (rng.choice(others), r["id"][:-1]))
        groups.append(g)
    rng.shuffle(groups)
    return [x for g in groups for x in g]


def enum_job(rec: Dict[str, Any], idx: int, scratch: Path, theme: str, tocdepth: int,
             rng: Optional[random.Random] = None) -> Dict[str, Any]:
    nd = sorted(rec["nd"], key=lambda r: r["id"])
    return {"kind": "enum", "name": "enum%d" % idx, "feat": rec["feat"], "nd": nd,
            "privacy": rules_for(nd, rng) if rng is not None else ["%s:%s" % (r["p"], r["id"]) for r in nd],
            "depth": rec["depth"], "theme": theme, "tocdepth": tocdepth,
            "root": str(scratch / ("proj%d" % idx)), "out": str(scratch / ("out%d" % idx))}


def real_job(name: str, src: Sequence[str], privacy: Sequence[str], theme: str, depth: int, tocdepth: int,
             scratch: Path, idx: int, predict: bool = True, extra: Sequence[str] = ()) -> Dict[str, Any]:
    return {"kind": "real", "name": name, "src": list(src), "privacy": list(privacy), "theme": theme, "depth": depth,
            "tocdepth": tocdepth, "predict": predict, "extra": list(extra), "out": str(scratch / ("rout%d" % idx))}


def run_job(job: Dict[str, Any]) -> Dict[str, Any]:
    """Worker: realise (enum) + render + crawl.  Everything lives under the job's scratch paths."""
    try:
        if job["kind"] == "enum":
            shutil.rmtree(job["root"], ignore_errors=True)
            srcs = realise(job["feat"], Path(job["root"]))
            privacy = job["privacy"]
            cwd: Optional[str] = job["root"]
        elif job["kind"] == "history":
            shutil.rmtree(job["root"], ignore_errors=True)
            shutil.rmtree(job["out"], ignore_errors=True)
            Path(job["root"]).mkdir(parents=True)
            for rel, text in HISTORY_PROJECT.items():
                (Path(job["root"]) / rel).write_text(text)
            old = os.getcwd()
            os.chdir(job["root"])
            try:
                system, asked = sc.run_history(job["root"], job["hist"], job["out"], job["privacy"], job["theme"],
                                               ["--sidebar-expand-depth=%d" % job["depth"], "--sidebar-toc-depth=%d" % job["tocdepth"]])
            finally:
                os.chdir(old)
            res = {"job": job, "rc": 0, "log": "", "asked": asked, "objs": sc.project_system(system), "site": sc.crawl(job["out"])}
            shutil.rmtree(job["root"], ignore_errors=True)
            shutil.rmtree(job["out"], ignore_errors=True)
            return res
        elif job.get("project"):
            shutil.rmtree(job["root"], ignore_errors=True)
            for rel, text in EXTRA_PROJECTS[job["project"]].items():
                f = Path(job["root"]) / rel
                f.parent.mkdir(parents=True, exist_ok=True)
                f.write_text(text, encoding="utf-8")
            srcs, privacy, cwd = [str(Path(job["root"]) / x) for x in EXTRA_SRC[job["project"]]], job["privacy"], job["root"]
        else:
            srcs, privacy, cwd = job["src"], job["privacy"], None
        extra = ["--sidebar-expand-depth=%d" % job["depth"], "--sidebar-toc-depth=%d" % job["tocdepth"]] + list(job.get("extra", ()))
        if job["kind"] == "enum" and job.get("extra"):
            extra = extra        # (enum jobs normally carry no extra options; --html-subject runs do)
        res = sc.run_site({"name": job["name"], "src": srcs, "cwd": cwd, "out": job["out"], "privacy": privacy,
                           "theme": job["theme"], "extra": extra, "custom": job.get("custom")})
        res["job"] = job
        if job.get("root"):
            shutil.rmtree(job["root"], ignore_errors=True)
        return res
    except Exception as e:                                   # reported as machinery failure by the parent
        import traceback
        return {"job": job, "error": "%s: %s\n%s" % (type(e).__name__, e, traceback.format_exc()[-1500:])}


def run_jobs(jobs: List[Dict[str, Any]], workers: int) -> List[Dict[str, Any]]:
    if not jobs:
        return []
    with ProcessPoolExecutor(max_workers=workers) as ex:
        return list(ex.map(run_job, jobs, chunksize=1))


# ------------------------------------------------------------------------------------------- case for TLC
def to_case(res: Dict[str, Any]) -> Dict[str, Any]:
    job, site, proj = res["job"], res["site"], res["objs"]
    objs = {}
    for o in proj["objs"]:
        objs[o["id"]] = {k: o[k] for k in ("id", "qid", "name", "cls", "parent", "priv", "ownpage", "file", "frag",
                                           "incontents", "inall", "module", "bases", "mro", "subclasses", "doc", "docsrc", "initial",
                                           "dupname", "dupfull")}
    pages = [f for f, raw in zip(site["files"], site["rawfiles"]) if raw.endswith(".html")]
    links = sorted({(l["page"], l["file"], l["frag"], l["prod"], l["member"]) for l in site["links"]})
    byid = {o["id"]: o for o in proj["objs"]}
    ents = []
    for e in site["entries"]:
        if e.get("ref", "").startswith("title:"):      # an unlinked sidebar section title "<Kind> <short name>"
            _, kind, label = e["ref"].split(":", 2)
            group = ("Module", "Package") if kind in ("Module", "Package") else ("Class",)
            cands = [o for o in proj["objs"] if o["name"] == label and o["cls"] in group and not o["visible"]]
            if len(cands) != 1:
                continue
            e = dict(e, ref=cands[0]["id"])
        if e.get("ref"):                     # an item without link: the address of the object whose name it displays
            if e["ref"] not in byid:
                continue
            e = dict(e, file=byid[e["ref"]]["file"], frag=byid[e["ref"]]["frag"])
        ents.append(e)
    entries = sorted({(e["page"], e["kind"], e["file"], e["frag"], e["private"]) for e in ents})
    enum = job["kind"] == "enum"
    return {
        "kind": job["kind"], "name": job["name"],
        "feat": job.get("feat", {"dup": False, "move": False, "multi": False, "nested": False}),
        "nd": job.get("nd", []), "depth": proj["sidebardepth"], "roots": proj["roots"],
        "rules": [{"p": r.split(":", 1)[0].upper(), "m": r.split(":", 1)[1]} for r in job.get("privacy", [])],
        "predict": bool(job.get("predict", True)), "partial": bool(job.get("partial", False)),
        "toc": job.get("tocdepth", 6) > 0,
        "custom": [{"m": m, "p": pp} for m, pp in sorted((job.get("custom") or {}).items())],
        "modelled": (ALL_PRODS if enum else STRUCTURAL_PRODS) + ENTRY_KINDS,
        "objs": objs,
        "site": {"files": site["files"], "pages": pages,
                 "anchors": {p: site["anchors"].get(p, []) for p in pages},
                 "nameanchors": {p: site["nameanchors"].get(p, []) for p in pages},
                 # the object a page is about (<title> = fullName of the documented object), "" for summary pages
                 "subjects": {p: (site["titles"].get(p, "") if site["titles"].get(p, "") in objs else "") for p in pages},
                 "links": [{"page": a, "file": b, "frag": c, "prod": d, "member": e} for a, b, c, d, e in links],
                 "entries": [{"page": a, "kind": b, "file": c, "frag": d, "private": e} for a, b, c, d, e in entries],
                 "inv": sorted({r["id"] for r in site["inv"]}),
                 "docs": [{"id": d["id"], "file": d["file"], "frag": d["frag"], "privacy": d["privacy"]} for d in site["alldocs"]],
                 "search": site["searchindex"], "fsearch": site["fullsearchindex"], "encfiles": site["encfiles"]},
    }


# --------------------------------------------------------- the verdict: Python twin of Site.tla section 4 + 5
MARKED_KINDS = ("table", "detail", "sidebar", "moduleIndex", "nameIndex")
CORE_KINDS = ("table", "detail", "sidebar", "moduleIndex")
ALLOBJECTS_PRODS = ("nameIndex", "undocced", "classIndex", "searchDoc")
HIERARCHY_PRODS = ("classSignature", "baseName", "baseTable", "sidebarItem", "subclasses", "overrides", "overridesNote", "overriddenIn",
                   "overriddenInNote", "subclassesNote")
TAGLINK_PRODS = ("classSignature", "annotation", "docstring", "memberDoc", "summaryDoc", "overrides", "baseName", "extras")


class View:
    """The object view O of Site.tla (ObsView) with the derived sets the invariants use."""

    def __init__(self, case: Dict[str, Any]):
        last_exact = {r["m"]: r["p"] for r in case.get("rules", [])}          # the manual: the LAST exact rule wins
        last_exact.update({r["m"]: r["p"] for r in case.get("custom", [])})   # the custom system class adjusts last
        self.o = {i: (dict(o, priv=last_exact[i]) if i in last_exact else o)
                  for i, o in case["objs"].items()}
        self.privacy_not_as_documented = sorted(i for i, o in case["objs"].items() if self.o[i]["priv"] != o["priv"])
        self.encfiles = set(case["site"].get("encfiles", ()))
        self.multi = len(set(case["roots"])) > 1
        self._hidden: Dict[str, bool] = {}
        self._intree: Dict[str, bool] = {}
        ids = list(self.o)
        self.hidden = {i for i in ids if self.is_hidden(i)}
        self.visible_urls = {(self.o[i]["file"], self.o[i]["frag"]) for i in ids if i not in self.hidden}
        self.hid_pages = {self.o[h]["file"] for h in self.hidden
                          if self.o[h]["ownpage"] and (self.o[h]["file"], "") not in self.visible_urls
                          and not (self.multi and self.o[h]["file"] == "index")}
        self.hid_frags = {(self.o[h]["file"], self.o[h]["frag"]) for h in self.hidden
                          if not self.o[h]["ownpage"] and (self.o[h]["file"], self.o[h]["frag"]) not in self.visible_urls}
        self.hid_ids = {h for h in self.hidden if (self.o[h]["file"], self.o[h]["frag"]) not in self.visible_urls}
        self.superseded = {i for i in ids if i not in self.hidden and not self.in_tree(i)}
        self.superseded_urls = {(self.o[i]["file"], self.o[i]["frag"]) for i in self.superseded}
        self.hidden_root_files = {self.o[r]["file"] for r in self.hidden if self.o[r]["parent"] == "none"}
        self._privctx: Dict[str, bool] = {}
        self.main_hidden = {i for i in ids if self.in_hidden_main(i)}
        # classIndex.html nodes of PRIVATE classes that must carry the marker (no visible, non-private subclass below)
        self.class_node_urls = {(self.o[i]["file"], self.o[i]["frag"]) for i in ids
                                if i not in self.hidden and self.o[i]["priv"] == "PRIVATE" and not self.excused(i, {i})}
        self.priv_urls = {(self.o[i]["file"], self.o[i]["frag"]) for i in ids
                          if i not in self.hidden and self.o[i]["priv"] == "PRIVATE"}

    def is_hidden(self, i: str) -> bool:
        if i not in self._hidden:
            o = self.o[i]
            self._hidden[i] = o["priv"] == "HIDDEN" or (o["parent"] != "none" and o["parent"] in self.o
                                                         and self.is_hidden(o["parent"]))
        return self._hidden[i]

    def in_tree(self, i: str) -> bool:
        if i not in self._intree:
            o = self.o[i]
            self._intree[i] = bool(o["incontents"]) and (o["parent"] == "none" or (o["parent"] in self.o
                                                                                    and self.in_tree(o["parent"])))
        return self._intree[i]

    def priv_ctx(self, i: str) -> bool:
        if i not in self._privctx:
            o = self.o[i]
            self._privctx[i] = o["priv"] != "PUBLIC" or (o["parent"] != "none" and o["parent"] in self.o and self.priv_ctx(o["parent"]))
        return self._privctx[i]

    def excused(self, c: str, seen: Set[str]) -> bool:
        for x in self.o[c]["subclasses"]:
            if x in self.o and x not in seen:
                if (x not in self.hidden and not self.priv_ctx(x)) or self.excused(x, seen | {x}):
                    return True
        return False

    def in_hidden_main(self, i: str) -> bool:
        o = self.o[i]
        if o["cls"] in ("Module", "Package") and o["name"] == "__main__" and o["priv"] == "HIDDEN":
            return True
        return o["parent"] != "none" and o["parent"] in self.o and self.in_hidden_main(o["parent"])

    def kf_main(self, f: str, g: str) -> bool:
        return any((self.o[i]["file"] == f and (self.o[i]["ownpage"] or self.o[i]["frag"] == g)) or (i == f and g == "")
                   for i in self.main_hidden)

    def targets_hidden(self, f: str, g: str) -> bool:
        return f in self.hid_pages or (f, g) in self.hid_frags

    def kf_obj(self, i: str) -> str:
        if self.o[i]["file"] in self.encfiles:
            return "percent-encoded-page-filename"
        return "superseded-duplicate-not-rendered" if i in self.superseded else "none"

    def kf_link(self, page: str, f: str, g: str, prod: str, member: str = "") -> str:
        if f in self.encfiles:
            return "percent-encoded-page-filename"
        if prod == "overridesNote" and self.targets_hidden(f, g):
            return "overrides-note-names-hidden-member"
        if prod == "sidebarTitle" and self.targets_hidden(f, g):
            return "sidebar-names-hidden-origin-module"
        if prod == "tocBackref" and f == page and g != "":
            return "toc-backref-stale-id"
        if prod == "fnBackref" and f == page and g != "":
            return "footnote-backref-unprefixed"
        if prod == "summaryLocalRef" and f == page and g != "":
            return "summary-local-reference-copied"
        if prod in ALLOBJECTS_PRODS and (f, g) in self.superseded_urls:
            return "superseded-duplicate-listed"
        if prod == "memberDoc" and f == page and g != "" and member in self.o and self.o[member]["docsrc"] != member:
            return "inherited-docstring-samepage-link"
        if prod in TAGLINK_PRODS and self.targets_hidden(f, g):
            return "link-to-hidden-object"
        if prod in ("moduleIndex", "indexRoots") and g == "" and f in self.hidden_root_files:
            return "hidden-root-listed"
        if prod in HIERARCHY_PRODS and (f, g) in self.superseded_urls:
            return "superseded-duplicate-not-rendered"
        if prod == "inhierarchy" and f == "classIndex" and g in self.o and any(b in self.superseded for b in self.o[g]["mro"]):
            return "superseded-duplicate-not-rendered"
        return "none"


def verdict(case: Dict[str, Any]) -> Dict[str, Set[Tuple[Any, ...]]]:
    """Failing instances per invariant on the OBSERVED site of a case (same shape as Site.tla Verdict)."""
    v = View(case)
    s = case["site"]
    files = set(s["files"])
    anchors = {p: set(a) for p, a in s["anchors"].items()}
    subjects = s["subjects"]

    def resolves(f: str, g: str) -> bool:
        return f in files and (g == "" or (f in anchors and g in anchors[f]))

    out: Dict[str, Set[Tuple[Any, ...]]] = {k: set() for k in C11_INVARIANTS + C12_INVARIANTS}
    full = not case.get("partial")            # a --html-subject run: links to pages it does not write are not judged
    for l in s["links"]:
        if not resolves(l["file"], l["frag"]) and (full or l["file"] in files):
            out["LinksResolve"].add((l["page"], l["file"], l["frag"], l["prod"],
                                     v.kf_link(l["page"], l["file"], l["frag"], l["prod"], l["member"])))
    for d in s["docs"]:
        if not resolves(d["file"], d["frag"]):
            out["LinksResolve"].add(("all-documents", d["file"], d["frag"], "searchDoc",
                                     v.kf_link("all-documents", d["file"], d["frag"], "searchDoc")))
    for i, o in v.o.items():
        if i in v.hidden:
            continue
        kf = v.kf_obj(i)
        if o["ownpage"] and not (o["file"] in files and subjects.get(o["file"]) == i):     # its OWN page at that address
            out["VisibleHasPage"].add((i, kf))
        if not o["ownpage"] and not (o["frag"] != "" and resolves(o["file"], o["frag"])):
            out["VisibleMemberHasAnchor"].add((i, kf))
    if not full:
        out["LinksResolve"] = {x for x in out["LinksResolve"] if x[1] in files}
        out["VisibleHasPage"].clear(); out["VisibleMemberHasAnchor"].clear()
    h = out["HiddenNoTrace"]

    def tk(f: str, g: str, other: str) -> str:           # class of a trace (Site.tla Verdict.HiddenNoTrace)
        return "main-module-ignores-rules" if v.kf_main(f, g) else other
    for f in v.hid_pages & (files | v.encfiles):
        h.add(("file", "", f, "", "", tk(f, "", "none")))
    for f, g in v.hid_frags:
        if f in anchors and g in anchors[f]:
            h.add(("anchor", "", f, g, "", tk(f, g, "none")))
    for l in s["links"]:
        if v.targets_hidden(l["file"], l["frag"]):
            h.add(("link", l["page"], l["file"], l["frag"], l["prod"], tk(l["file"], l["frag"], v.kf_link(l["page"], l["file"], l["frag"], l["prod"]))))
    for e in s["entries"]:
        if v.targets_hidden(e["file"], e["frag"]):
            h.add(("entry", e["page"], e["file"], e["frag"], e["kind"], tk(e["file"], e["frag"], v.kf_link(e["page"], e["file"], e["frag"], e["kind"]))))
    for nm, coll in (("inventory", set(s["inv"])), ("searchDoc", {d["id"] for d in s["docs"]}),
                     ("searchindex", set(s["search"])), ("fullsearchindex", set(s["fsearch"]))):
        for i in v.hid_ids & coll:
            h.add((nm, "", i, "", "", tk(i, "", "none")))
    marked = {(e["file"], e["frag"]) for e in s["entries"] if e["kind"] in CORE_KINDS and e["private"]}
    for e in s["entries"]:           # the listings must tell the same story about one object, whatever the System says
        if e["kind"] in CORE_KINDS and not e["private"] and (e["file"], e["frag"]) in marked:
            out["PrivateMarked"].add((e["page"], e["kind"], e["file"], e["frag"]))
    for d in s["docs"]:
        if d["privacy"] != "PRIVATE" and (d["file"], d["frag"]) in marked:
            out["PrivateMarked"].add(("all-documents", "searchDoc", d["file"], d["frag"]))
    for e in s["entries"]:
        if not e["private"] and ((e["kind"] in MARKED_KINDS and (e["file"], e["frag"]) in v.priv_urls)
                                 or (e["kind"] == "classIndex" and (e["file"], e["frag"]) in v.class_node_urls)):
            out["PrivateMarked"].add((e["page"], e["kind"], e["file"], e["frag"]))
    for d in s["docs"]:
        if d["privacy"] != "PRIVATE" and d["id"] in v.o and d["id"] not in v.hidden and v.o[d["id"]]["priv"] == "PRIVATE":
            out["PrivateMarked"].add(("all-documents", "searchDoc", d["file"], d["frag"]))
    return out


def tlc_verdict(rec: Dict[str, Any]) -> Dict[str, Set[Tuple[Any, ...]]]:
    v = rec["verdict"]
    return {
        "LinksResolve": {(x["page"], x["file"], x["frag"], x["prod"], x["kf"]) for x in v["LinksResolve"]},
        "VisibleHasPage": {(x["obj"], x["kf"]) for x in v["VisibleHasPage"]},
        "VisibleMemberHasAnchor": {(x["obj"], x["kf"]) for x in v["VisibleMemberHasAnchor"]},
        "HiddenNoTrace": {(x["trace"], x["page"], x["file"], x["frag"], x["prod"], x["kf"]) for x in v["HiddenNoTrace"]},
        "PrivateMarked": {(x["page"], x["kind"], x["file"], x["frag"]) for x in v["PrivateMarked"]},
    }


# ------------------------------------------------------------------------------------- known-finding matchers
# (Python twins of KF_* in Site.tla; a witness carries the class computed by View.kf_link from the observed facts,
#  and the facts themselves, so that the matcher re-derives it)
def _facts_class(w: Dict[str, Any]) -> str:
    f = w.get("facts", {})
    inst = w.get("instance", {})
    prod = inst.get("prod", "")
    if w.get("invariant") in ("VisibleHasPage", "VisibleMemberHasAnchor"):
        return "percent-encoded-page-filename" if f.get("page_written_under_encoded_name") else \
            "superseded-duplicate-not-rendered" if f.get("obj_superseded") else "none"
    if w.get("invariant") == "HiddenNoTrace" and f.get("target_in_hidden_main_module"):
        return "main-module-ignores-rules"
    if f.get("page_written_under_encoded_name"):
        return "percent-encoded-page-filename"
    if prod == "overridesNote" and f.get("target_hidden"):
        return "overrides-note-names-hidden-member"
    if prod == "sidebarTitle" and f.get("target_hidden"):
        return "sidebar-names-hidden-origin-module"
    if prod == "tocBackref" and inst.get("file") == inst.get("page") and inst.get("frag"):
        return "toc-backref-stale-id"
    if prod == "fnBackref" and inst.get("file") == inst.get("page") and inst.get("frag"):
        return "footnote-backref-unprefixed"
    if prod == "summaryLocalRef" and inst.get("file") == inst.get("page") and inst.get("frag"):
        return "summary-local-reference-copied"
    if prod in ALLOBJECTS_PRODS and f.get("target_superseded"):
        return "superseded-duplicate-listed"
    if prod == "memberDoc" and inst.get("file") == inst.get("page") and inst.get("frag") and f.get("member_doc_inherited"):
        return "inherited-docstring-samepage-link"
    if prod in TAGLINK_PRODS and f.get("target_hidden"):
        return "link-to-hidden-object"
    if prod in ("moduleIndex", "indexRoots") and f.get("target_hidden_root") and not inst.get("frag"):
        return "hidden-root-listed"
    if prod in HIERARCHY_PRODS and f.get("target_superseded"):
        return "superseded-duplicate-not-rendered"
    if prod == "inhierarchy" and inst.get("file") == "classIndex" and f.get("class_has_superseded_base"):
        return "superseded-duplicate-not-rendered"
    return "none"


def kf_superseded_duplicate_listed(w: Dict[str, Any]) -> bool:
    return w.get("invariant") == "LinksResolve" and _facts_class(w) == "superseded-duplicate-listed"


def kf_superseded_duplicate_not_rendered(w: Dict[str, Any]) -> bool:
    return w.get("invariant") in C11_INVARIANTS and _facts_class(w) == "superseded-duplicate-not-rendered"


def kf_toc_backref_stale_id(w: Dict[str, Any]) -> bool:
    return w.get("invariant") == "LinksResolve" and _facts_class(w) == "toc-backref-stale-id"


def kf_footnote_backref_unprefixed(w: Dict[str, Any]) -> bool:
    return w.get("invariant") == "LinksResolve" and _facts_class(w) == "footnote-backref-unprefixed"


def kf_summary_local_reference_copied(w: Dict[str, Any]) -> bool:
    return w.get("invariant") == "LinksResolve" and _facts_class(w) == "summary-local-reference-copied"


def kf_percent_encoded_page_filename(w: Dict[str, Any]) -> bool:
    return w.get("invariant") in C11_INVARIANTS and _facts_class(w) == "percent-encoded-page-filename"


def kf_inherited_docstring_link(w: Dict[str, Any]) -> bool:
    return w.get("invariant") == "LinksResolve" and _facts_class(w) == "inherited-docstring-samepage-link"


def kf_dead_link_to_hidden(w: Dict[str, Any]) -> bool:          # C11 face of the taglink defect
    return w.get("invariant") == "LinksResolve" and _facts_class(w) == "link-to-hidden-object"


def kf_dead_link_hidden_root(w: Dict[str, Any]) -> bool:        # C11 face of the unfiltered root lists
    return w.get("invariant") == "LinksResolve" and _facts_class(w) == "hidden-root-listed"


def kf_link_to_hidden(w: Dict[str, Any]) -> bool:               # C12
    return w.get("invariant") == "HiddenNoTrace" and w.get("instance", {}).get("trace") == "link" \
        and _facts_class(w) == "link-to-hidden-object"


def kf_overrides_note_hidden(w: Dict[str, Any]) -> bool:        # C12
    return w.get("invariant") == "HiddenNoTrace" and w.get("instance", {}).get("trace") == "entry" \
        and _facts_class(w) == "overrides-note-names-hidden-member"


def kf_sidebar_names_hidden_origin_module(w: Dict[str, Any]) -> bool:    # C12
    return w.get("invariant") == "HiddenNoTrace" and w.get("instance", {}).get("trace") == "entry" \
        and _facts_class(w) == "sidebar-names-hidden-origin-module"


def kf_main_module_ignores_rules(w: Dict[str, Any]) -> bool:    # C12
    return w.get("invariant") == "HiddenNoTrace" and _facts_class(w) == "main-module-ignores-rules"


def kf_hidden_root_listed(w: Dict[str, Any]) -> bool:           # C12
    return w.get("invariant") == "HiddenNoTrace" and w.get("instance", {}).get("trace") in ("link", "entry") \
        and _facts_class(w) == "hidden-root-listed"


def witness(case: Dict[str, Any], job: Dict[str, Any], inv: str, inst: Tuple[Any, ...]) -> Dict[str, Any]:
    v = View(case)
    facts: Dict[str, Any] = {}
    if inv == "LinksResolve":
        page, f, g, prod, _kf = inst
        member = next((l["member"] for l in case["site"]["links"]
                       if (l["page"], l["file"], l["frag"], l["prod"]) == (page, f, g, prod) and l["member"]), "")
        instance = {"page": page, "file": f, "frag": g, "prod": prod, "member": member}
    elif inv in ("VisibleHasPage", "VisibleMemberHasAnchor"):
        instance = {"obj": inst[0]}
        facts["obj_superseded"] = inst[0] in v.superseded
        facts["page_written_under_encoded_name"] = v.o[inst[0]]["file"] in v.encfiles
        page = f = g = prod = member = ""
    elif inv == "HiddenNoTrace":
        trace, page, f, g, prod, _kf = inst
        member = ""
        instance = {"trace": trace, "page": page, "file": f, "frag": g, "prod": prod}
    else:
        page, kind, f, g = inst
        prod, member = kind, ""
        instance = {"page": page, "kind": kind, "file": f, "frag": g}
    if inv in ("LinksResolve", "HiddenNoTrace"):
        facts.update({"target_superseded": (f, g) in v.superseded_urls, "target_hidden": v.targets_hidden(f, g),
                      "target_in_hidden_main_module": v.kf_main(f, g),
                      "page_written_under_encoded_name": f in v.encfiles,
                      "class_has_superseded_base": g in v.o and any(b in v.superseded for b in v.o[g]["mro"]),
                      "target_hidden_root": f in v.hidden_root_files,
                      "member_doc_inherited": bool(member) and member in v.o and v.o[member]["docsrc"] != member,
                      "target_objects": sorted(i for i, o in v.o.items() if (o["file"], o["frag"]) == (f, g))[:4]})
    if v.privacy_not_as_documented:       # objects whose System.privacyClass is not what the last exact rule says
        facts["privacy_not_as_documented"] = [{"obj": i, "system": case["objs"][i]["priv"], "manual": v.o[i]["priv"]}
                                              for i in v.privacy_not_as_documented[:5]]
    jb = {k: job[k] for k in job if k not in ("root", "out")}
    cls = inst[-1] if inv != "PrivateMarked" else "none"
    return {"invariant": inv, "instance": instance, "facts": facts, "job": jb, "class": cls,
            "key": "%s:%s:%s:%s" % (inv, prod or instance.get("trace", ""), cls, job["kind"] if cls == "none" else "")}


# ------------------------------------------------------------------------------------------------ TLC runs
CFG_ENUM = """SPECIFICATION Spec
CONSTANTS Source = "enum"
          Fixed = {fixed}
          MaxNonDefault = {k}
          Depths = {depths}
          FeatCounts = {fc}
CONSTRAINT Emit
INVARIANT D_OnlyKnown
INVARIANT D_PrivateMarked
"""
CFG_FILE = """SPECIFICATION Spec
CONSTANTS Source = "file"
          Fixed = {fixed}
          MaxNonDefault = 0
          Depths = {{}}
          FeatCounts = {{}}
CONSTRAINT Emit
"""

# the model follows the tree: a finding whose entry is "fixed" in known_findings.json switches the corresponding
# producers of Site.tla to the repaired behaviour (VERIF_SITE_FIXED=id,id overrides it when trying a fix in a worktree)
MODEL_SWITCHES = {"link-to-hidden-object": "link-to-hidden-object", "dead-link-to-hidden-object": "link-to-hidden-object",
                  "hidden-root-listed": "hidden-root-listed", "dead-link-hidden-root": "hidden-root-listed",
                  "inherited-docstring-samepage-link": "inherited-docstring-samepage-link",
                  "superseded-duplicate-listed": "superseded-duplicate-listed",
                  "percent-encoded-page-filename": "percent-encoded-page-filename"}


def fixed_set() -> str:
    from .core import KNOWN_FINDINGS, tla
    env = os.environ.get("VERIF_SITE_FIXED")
    if env is not None:
        ids = {x.strip() for x in env.split(",") if x.strip()}
    else:
        ids = set()
        if KNOWN_FINDINGS.exists():
            for f in json.loads(KNOWN_FINDINGS.read_text()):
                if f.get("property") in ("C11", "C12") and f.get("status") == "fixed":
                    ids.add(f.get("id"))
    return tla({MODEL_SWITCHES[i] for i in ids if i in MODEL_SWITCHES})



def tlc_validate(ctx: Ctx, cases: List[Dict[str, Any]], batch: int = 40) -> List[Dict[str, Any]]:
    """Batches of observed sites through Site.tla (Source = "file"); returns one record per case, in order."""
    out: List[Dict[str, Any]] = []
    for n, part in enumerate(chunks(cases, batch)):
        f = ctx.scratch / ("sites%d.json" % n)
        f.write_text(json.dumps(list(part)))
        r = ctx.tlc("Site", CFG_FILE.format(fixed=fixed_set()), workers="auto", env={"SITE_FILE": str(f)}, check=True, timeout=1500,
                    java_opts=["-Xmx8g"])
        got = {rec["cid"]: rec for rec in r.printed}
        if len(got) != len(part):
            raise MachineryError("TLC judged %d of %d observed sites\n%s" % (len(got), len(part), "\n".join(r.out.splitlines()[-25:])))
        out += [got[i] for i in range(1, len(part) + 1)]
        f.unlink()
    return out


DIFF_KEYS = ("files", "subjects", "links", "entries", "anchors", "inv", "docs", "search", "fsearch")


def drift_of(rec: Dict[str, Any]) -> Dict[str, Any]:
    d: Dict[str, Any] = {}
    if not rec["diff"].get("skipped"):
        for k in DIFF_KEYS:
            for side in ("missing", "extra"):
                v = rec["diff"]["%s_%s" % (k, side)]
                if v:
                    d["%s_%s" % (k, side)] = v[:6]
    md = rec["modeldiff"]
    if not md.get("skipped"):
        for k in ("ids_missing", "ids_extra", "fields", "urls"):
            if md[k]:
                d["model_" + k] = md[k][:6]
        if md["roots"]:
            d["model_roots"] = True
    return d


# ------------------------------------------------------------------------------------------- real packages
def testpackages_dir() -> Path:
    import pydoctor
    return Path(pydoctor.__file__).parent / "test" / "testpackages"


def package_sources(d: Path) -> List[str]:
    if (d / "__init__.py").exists():
        return [str(d)]
    srcs = []
    for c in sorted(d.iterdir()):
        if c.name.startswith(("_", ".")) and not c.name.startswith("__init__"):
            continue
        if (c.is_dir() and (c / "__init__.py").exists()) or (c.is_file() and c.suffix == ".py"):
            srcs.append(str(c))
    return srcs


def random_rules(rng: random.Random, ids: List[str], n: int, roots: Sequence[str] = ()) -> List[str]:
    """A --privacy rule list over names of the package: exact names and patterns, any order."""
    rules = []
    for _ in range(n):
        i = rng.choice(ids)
        p = rng.choice(["HIDDEN", "HIDDEN", "PRIVATE", "PUBLIC"])
        if i in roots and len(roots) == 1 and p == "HIDDEN":      # hiding the only root hides the whole project
            p = "PRIVATE"
        shape = rng.random()
        if shape < 0.55 or "." not in i:
            rules.append("%s:%s" % (p, i))
        elif shape < 0.8:
            rules.append("%s:%s.*" % (p, i.rsplit(".", 1)[0]))
        else:
            rules.append("%s:**.%s" % (p, i.rsplit(".", 1)[1]))
    exact = [r for r in rules if "*" not in r]
    if exact and rng.random() < 0.6:                # the same exact name twice, with different levels
        p, m = rng.choice(exact).split(":", 1)
        q = rng.choice([l for l in LEVELS if l != p])
        if rng.random() < 0.5 and not (m in roots and len(roots) == 1 and p == "HIDDEN"):
            rules.insert(rng.randint(0, rules.index("%s:%s" % (p, m))), "%s:%s" % (q, m))     # earlier: overridden
        elif not (m in roots and len(roots) == 1 and q == "HIDDEN"):
            rules.append("%s:%s" % (q, m))                                                     # later: wins
    return rules


# ------------------------------------------------------------------------------------------------ the check
def run_property(ctx: Ctx, prop: str) -> int:
    invs = C11_INVARIANTS if prop == "C11" else C12_INVARIANTS
    rng = random.Random(ctx.seed)
    workers = max(2, min(14, (os.cpu_count() or 4) - 2))
    if prop == "C11":
        ctx.register_matcher("superseded-duplicate-listed", kf_superseded_duplicate_listed)
        ctx.register_matcher("superseded-duplicate-not-rendered", kf_superseded_duplicate_not_rendered)
        ctx.register_matcher("percent-encoded-page-filename", kf_percent_encoded_page_filename)
        ctx.register_matcher("toc-backref-stale-id", kf_toc_backref_stale_id)
        ctx.register_matcher("summary-local-reference-copied", kf_summary_local_reference_copied)
        ctx.register_matcher("inherited-docstring-samepage-link", kf_inherited_docstring_link)
        ctx.register_matcher("dead-link-to-hidden-object", kf_dead_link_to_hidden)
        ctx.register_matcher("dead-link-hidden-root", kf_dead_link_hidden_root)
    else:
        ctx.register_matcher("link-to-hidden-object", kf_link_to_hidden)
        ctx.register_matcher("hidden-root-listed", kf_hidden_root_listed)
        ctx.register_matcher("overrides-note-names-hidden-member", kf_overrides_note_hidden)
        ctx.register_matcher("main-module-ignores-rules", kf_main_module_ignores_rules)

    # ---- design level: TLC judges the predicted site of every model of the family
    k = 2 if ctx.quick else 3
    # no optional feature, one, or all four together (thorough: the combinations of two and three features are
    # enumerated too, with two privacies varied)
    FC = "{0, 1, 4}"
    ctx.extra["model_switches_fixed"] = fixed_set()
    # quick: two privacies varied with the sidebar expanded (depth 3), at most one varied at depth 1 (the enumeration is the
    # dominant cost on a loaded machine); thorough: three varied at both depths
    r = ctx.tlc("Site", CFG_ENUM.format(fc=FC, k=k, depths="{3}" if ctx.quick else "{1, 3}", fixed=fixed_set()), workers="auto",
                check=False, timeout=900, java_opts=["-Xmx8g"])
    if r.errors or (r.rc != 0 and not r.violated):
        raise MachineryError("TLC failed on Site (enum): %s rc=%s\n%s" % (r.errors[:3], r.rc, "\n".join(r.out.splitlines()[-30:])))
    recs = r.printed
    if ctx.quick:
        r1 = ctx.tlc("Site", CFG_ENUM.format(fc=FC, k=1, depths="{1}", fixed=fixed_set()), workers="auto", check=True, timeout=600)
        if r1.violated:
            r.violated.extend(r1.violated)
        recs = recs + r1.printed
    else:
        r1 = ctx.tlc("Site", CFG_ENUM.format(fc="{2, 3}", k=2, depths="{1, 3}", fixed=fixed_set()), workers="auto", check=True,
                     timeout=900, java_opts=["-Xmx8g"])
        if r1.violated:
            r.violated.extend(r1.violated)
        recs = recs + r1.printed
    if not recs:
        raise MachineryError("TLC emitted no model")
    ctx.exhaustive = True
    sigs: Dict[Tuple[Tuple[str, str, str], ...], List[int]] = {}
    design: Dict[str, int] = {}
    for i, rec in enumerate(recs):
        sg = tuple(sorted({(s["inv"], s["prod"], s["kf"]) for s in rec["sig"]}))
        sigs.setdefault(sg, []).append(i)
        for inv in {s[0] for s in sg}:
            design[inv] = design.get(inv, 0) + 1
    ctx.extra["enumerated_models"] = len(recs)
    ctx.extra["design_level_models_violating"] = design
    ctx.extra["design_level_invariants_violated_by_tlc"] = list(r.violated)
    ctx.extra["design_level_signatures"] = len(sigs)
    if ctx.quick:          # -coverage 1 once, on the smallest bound (it slows TLC down five-fold)
        rc = ctx.tlc("Site", CFG_ENUM.format(fc=FC, k=0, depths="{1}", fixed=fixed_set()), workers="auto", check=True, coverage=True, timeout=600,
                     count=False)
        ctx.extra["action_coverage"] = {a: c for a, c in rc.coverage.items() if a in ("Init", "Build", "Judge")}
        if any(rc.coverage.get(a, 0) == 0 for a in ("Build", "Judge")):
            raise MachineryError("vacuous action in Site.tla: %s" % rc.coverage)

    # ---- spec -> code: realise a stratified sample of the models
    budget = 120 if ctx.quick else 1500
    chosen: List[int] = []
    per = 2 if ctx.quick else 6
    for sg, idxs in sorted(sigs.items(), key=lambda kv: (len(kv[1]), kv[0])):
        idxs = sorted(idxs, key=lambda i: (len(recs[i]["nd"]), i))
        chosen += idxs[:1] + rng.sample(idxs[1:], min(per - 1, len(idxs) - 1))
    # ... and a cover of every (relation, privacy, privacy) combination some model exhibits (Cov in Site.tla): private
    # base with hidden subclass, hidden member inherited over two levels, hidden annotation target, ...
    facts_of = [frozenset((c["rel"], c["a"], c["b"]) for c in rec["cov"]) for rec in recs]
    uncovered = set().union(*facts_of) - set().union(*[facts_of[i] for i in chosen]) if chosen else set().union(*facts_of)
    ctx.extra["coverage_facts"] = len(set().union(*facts_of))
    order = sorted(range(len(recs)), key=lambda i: (len(recs[i]["nd"]), sum(recs[i]["feat"].values()), i))
    while uncovered:
        best = max(order, key=lambda i: len(facts_of[i] & uncovered))
        if not facts_of[best] & uncovered:
            break
        chosen.append(best)
        uncovered -= facts_of[best]
    chosen = list(dict.fromkeys(chosen))
    if len(chosen) > budget:
        chosen = chosen[:budget // 2] + rng.sample(chosen[budget // 2:], budget - budget // 2)
    rest = [i for i in range(len(recs)) if i not in set(chosen)]
    chosen += rng.sample(rest, max(0, min(len(rest), budget - len(chosen))))
    jobs = [enum_job(recs[i], i, ctx.scratch, THEMES[n % 3], rng.choice([0, 1, 6]), rng) for n, i in enumerate(chosen)]
    for n, j in enumerate(jobs):          # every 4th assignment is realised by a custom --system-class instead of --privacy rules
        if n % 4 == 3 and j["nd"]:
            j["custom"] = {r["id"]: r["p"] for r in j["nd"]}
            j["privacy"] = []

    # ---- code -> spec: the repository's own packages under varying rules / themes / depths
    tp = testpackages_dir()
    names = sorted(p.name for p in tp.iterdir() if p.is_dir() and not p.name.startswith("_"))
    if ctx.quick:
        names = [n for n in names if n in ("basic", "allgames", "multipleinheritance", "interfaceclass", "nestedconfusion",
                                           "reparented_module", "cyclic_imports_base_classes", "relativeimporttest")]
    pass1 = []
    for n, nm in enumerate(names):
        srcs = package_sources(tp / nm)
        if srcs:
            pass1.append(real_job("%s#0" % nm, srcs, [], THEMES[n % 3], 1 + n % 3, 6, ctx.scratch, len(pass1)))
    extras = []
    for n, nm in enumerate(sorted(EXTRA_PROJECTS)):
        for vv, rules in enumerate([[], ["PRIVATE:**.f*", "HIDDEN:m.B", "HIDDEN:pkg.__main__", "HIDDEN:pkg._hid", "HIDDEN:big.m07", "PRIVATE:big.m09"], ["HIDDEN:**.A", "PRIVATE:m.Th*"]][:2 if ctx.quick else 3]):
            j = real_job("x:%s#%d" % (nm, vv), [], rules, THEMES[(n + vv) % 3], 1 + vv, 6, ctx.scratch, 9000 + 10 * n + vv)
            j.update({"project": nm, "root": str(ctx.scratch / ("xproj%d_%d" % (n, vv)))})
            extras.append(j)
    # ---- runs limited to --html-subject objects below a hidden ancestor (the writer is entered at a non-root object)
    def find_model(feat_on: Sequence[str], nd: List[Dict[str, str]]) -> Optional[Dict[str, Any]]:
        want = {(r["id"], r["p"]) for r in nd}
        for rec in recs:
            if {kk for kk, vv in rec["feat"].items() if vv} == set(feat_on) and {(r["id"], r["p"]) for r in rec["nd"]} == want:
                return rec
        return None
    for n, (fo, nd0, subj) in enumerate([(["nested"], [{"id": "pk.mod", "p": "HIDDEN"}], "pk.mod.Sub"),
                                         (["nested"], [{"id": "pk.mod.Sub", "p": "HIDDEN"}], "pk.mod.Sub.Inner"),
                                         (["nested"], [{"id": "pk.mod.Sub", "p": "PRIVATE"}], "pk.mod.Sub"),
                                         (["move"], [{"id": "pk", "p": "PRIVATE"}], "pk.mod"),
                                         # base class first, then its subclass: the inherited-members table of the second page
                                         ([], [], "pk.mod.Base+pk.mod.Sub")]):
        rec = find_model(fo, nd0)
        if rec is None:
            raise MachineryError("model for the --html-subject run not enumerated: %s %s" % (fo, nd0))
        j = enum_job(rec, 900000 + n, ctx.scratch, THEMES[n % 3], 6, rng)
        j.update({"name": "subject%d" % n, "extra": [x for sb in subj.split("+") for x in ("--html-subject", sb)],
                  "partial": True, "predict": False})
        jobs.append(j)

    # ---- histories of PrivacyHistory.tla (privacy looked up before a re-export renames the class and its members)
    rh = ctx.tlc("PrivacyHistory", CFG_HISTORY.format(key="fullName", rids="{1, 2, 3, 4, 5, 6, 7}"), workers=4, check=True, timeout=300)
    if rh.violated or not rh.printed:
        raise MachineryError("PrivacyHistory.tla: %s, %d behaviours" % (rh.violated, len(rh.printed)))
    rneg = ctx.tlc("PrivacyHistory", CFG_HISTORY.format(key="object", rids="{1, 2}"), workers=1, check=False, timeout=300, count=False)
    ctx.extra["history_design_negative_control"] = "ObservedRight" in rneg.violated
    if "ObservedRight" not in rneg.violated:
        raise MachineryError("PrivacyHistory.tla: a cache keyed by object identity must violate ObservedRight")
    hrecs = rh.printed if not ctx.quick else [r for r in rh.printed if len(r["hist"]) in (3, 6) or r["rid"] in (2, 7)]
    hjobs = []
    for n, r in enumerate(hrecs):
        hjobs.append({"kind": "history", "name": "hist%d" % n, "hist": r["hist"], "privacy": ["%s:%s" % (x["p"], x["m"]) for x in r["rules"]],
                      "spec_obs": r["obs"], "theme": THEMES[n % 3], "depth": 1 + n % 2, "tocdepth": 6, "predict": True,
                      "root": str(ctx.scratch / ("hproj%d" % n)), "out": str(ctx.scratch / ("hout%d" % n))})
    ctx.extra["history_behaviours"] = {"enumerated": len(rh.printed), "replayed": len(hjobs)}
    res = run_jobs(jobs + extras + hjobs + pass1, workers)
    for x in res:
        if x["job"]["kind"] == "history":
            if "error" in x:
                raise MachineryError("history replay failed for %s: %s" % (x["job"]["name"], x["error"][-800:]))
            real = {o["id"]: o["priv"] for o in x["objs"]["objs"]}
            diff = {v["name"]: [v["priv"], real.get(v["name"])] for v in x["job"]["spec_obs"].values() if real.get(v["name"]) != v["priv"]}
            if diff:           # the System's answer after the history is not the one PrivacyHistory.tla computes
                ctx.drift_note({"case": x["job"]["name"], "hist": x["job"]["hist"], "privacy": x["job"]["privacy"], "spec_vs_system": diff})
    pass2 = []
    nvar = 2 if ctx.quick else 6
    for rj in res[len(jobs) + len(extras) + len(hjobs):]:
        if "error" in rj or "objs" not in rj:
            continue
        ids = [o["id"] for o in rj["objs"]["objs"]]
        if not ids:
            continue
        for vv in range(1, nvar + 1):
            j = rj["job"]
            pass2.append(real_job("%s#%d" % (j["name"].split("#")[0], vv), j["src"], random_rules(rng, ids, rng.randint(1, 3), rj["objs"]["roots"]),
                                  rng.choice(THEMES), rng.choice([1, 2, 3]), rng.choice([0, 1, 6]), ctx.scratch, 1000 + len(pass2)))
    if not ctx.quick:
        import pydoctor
        pdir = str(Path(pydoctor.__file__).parent)
        pass2.append(real_job("pydoctor#1", [pdir], ["HIDDEN:pydoctor.test", "PRIVATE:pydoctor.epydoc.**"], "readthedocs", 2, 6,
                              ctx.scratch, 5000, predict=False, extra=["--docformat=epytext"]))
        pass2.append(real_job("pydoctor#2", [pdir], ["HIDDEN:pydoctor.test.*", "HIDDEN:pydoctor.model.Documentable",
                                                     "HIDDEN:**.__init__"], "base", 1, 1,
                              ctx.scratch, 5001, predict=False, extra=["--docformat=epytext"]))
    res += run_jobs(pass2, max(2, workers // 2) if not ctx.quick else workers)

    bad_runs = [x for x in res if "error" in x]
    if any(x["job"]["kind"] == "enum" for x in bad_runs):
        b = next(x for x in bad_runs if x["job"]["kind"] == "enum")
        raise MachineryError("pydoctor run failed for %s: %s" % (b["job"]["name"], b["error"][-800:]))
    # a real-package run that aborts (e.g. lunr's ZeroDivisionError when a rule list hides every object) produced no
    # site to judge: that is C01's subject, not a link / privacy violation.  Counted, not judged.
    ctx.extra["real_runs_aborted"] = [{"case": x["job"]["name"], "privacy": x["job"]["privacy"],
                                       "error": x["error"].strip().splitlines()[0][:200]} for x in bad_runs][:10]
    res = [x for x in res if "error" not in x]
    cases = [to_case(x) for x in res]
    small = [c for c in cases if len(c["objs"]) <= 400]
    big = [c for c in cases if len(c["objs"]) > 400]
    judged = tlc_validate(ctx, small, batch=60) + [x for c in big for x in tlc_validate(ctx, [c], batch=1)]
    ordered = small + big
    jobs_by_name = {x["job"]["name"]: x["job"] for x in res}

    disagreements = 0
    nontrivial = 0
    seen_classes: Dict[str, int] = {}
    for case, rec in zip(ordered, judged):
        ctx.traces += 1
        mine, theirs = verdict(case), tlc_verdict(rec)
        if mine != theirs:
            disagreements += 1
            d = {kk: [sorted(mine[kk] - theirs[kk])[:3], sorted(theirs[kk] - mine[kk])[:3]] for kk in mine if mine[kk] != theirs[kk]}
            raise MachineryError("TLC and the Python twin judge the observed site of %s differently: %s" % (case["name"], d))
        dr = drift_of(rec)
        if dr:
            ctx.drift_note({"case": case["name"], "job": {kk: vv for kk, vv in jobs_by_name[case["name"]].items() if kk not in ("root", "out")},
                            "diff": dr})
        if case["kind"] == "enum" and (case["nd"] or any(case["feat"].values())):
            nontrivial += 1
        elif case["kind"] == "real" and jobs_by_name[case["name"]]["privacy"]:
            nontrivial += 1
        for inv in invs:
            for inst in sorted(mine[inv], key=str):
                w = witness(case, jobs_by_name[case["name"]], inv, inst)
                got = ctx.violation(w)
                seen_classes[got] = seen_classes.get(got, 0) + 1
        if len(ctx.samples) < 4 and (ctx.traces % 40 == 1):
            j = jobs_by_name[case["name"]]
            ctx.sample({"case": case["name"], "kind": case["kind"], "feat": case["feat"], "privacy_rules": j.get("privacy", j.get("nd")),
                        "theme": j["theme"], "objects": len(case["objs"]), "pages": len(case["site"]["pages"]),
                        "links": len(case["site"]["links"]), "entries": len(case["site"]["entries"]),
                        "failing": {kk: len(vv) for kk, vv in mine.items() if vv}})
    ctx.extra["objects_sharing_a_full_name"] = sum(x["objs"].get("name_collisions", 0) for x in res)
    ctx.extra["objects_in_contents_but_not_in_allobjects"] = sum(1 for c in cases for o in c["objs"].values() if not o["inall"])
    ctx.extra["sites_crawled"] = {"enum_models_realised": len(jobs), "real_package_runs": len(res) - len(jobs)}
    ctx.extra["violation_instances_by_class"] = seen_classes
    ctx.extra["twin_vs_tlc_disagreements"] = disagreements
    ctx.extra["sites_with_drift"] = len({d["case"] for d in ctx.drift})
    if len(ctx.drift) > 0.1 * max(1, len(cases)):
        ctx.extra["coverage_void"] = True

    # ---- negative controls on one observed site: remove an anchor / add a listing of a hidden object
    nc = negative_control(ctx, cases, prop)
    ctx.extra["negative_control"] = nc
    if not all(nc.values()):
        raise MachineryError("negative control failed: %s" % nc)
    ctx.assumptions += [
        "a file is identified by its percent-decoded path, a fragment by its percent-decoded text (what a browser resolves)",
        "listing entries are recognised through the link / anchor they carry; a bare textual mention of a name "
        "(e.g. a hidden base class shown as an external base in classIndex.html) is not an entry",
        "PrivateMarked covers the listings the statement names (member tables, member details, sidebar, module index, "
        "search documents); classIndex.html marks a node private only if all its subclasses are, undoccedSummary.html has no marker",
        "privacy classes are taken from System.privacyClass (rule semantics are C13); 'hidden' = HIDDEN itself or inside a HIDDEN container",
        "a project whose only root is HIDDEN is not enumerated",
        "the skeleton family varies the privacy of at most %d objects at a time" % k,
    ]
    return ctx.finish(
        rule="sites = (object model of the Site.tla skeleton family x privacy assignment x sidebar depth) enumerated by TLC, a "
             "stratified sample realised on disk, rendered by the real pydoctor and crawled, plus the repository's test packages "
             "(thorough: all, and pydoctor itself) under seeded --privacy rule lists, themes and sidebar depths; every crawled site "
             "is judged by TLC and by the Python twin; non-trivial = at least one non-default privacy / feature / rule",
        distinct_nontrivial=nontrivial)


def negative_control(ctx: Ctx, cases: List[Dict[str, Any]], prop: str) -> Dict[str, bool]:
    base = next((c for c in cases if c["kind"] == "enum" and not c["nd"]), None) or cases[0]
    c = json.loads(json.dumps(base))
    c["name"] = "negative-control"
    nc: Dict[str, bool] = {}
    if prop == "C11":
        # drop the anchors of one member: its links must become dead, the member must lose its anchor
        victim = next(o for o in c["objs"].values() if not o["ownpage"] and o["incontents"] and o["parent"] in c["objs"]
                      and c["objs"][o["parent"]]["incontents"])
        pg = victim["file"]
        c["site"]["anchors"][pg] = [a for a in c["site"]["anchors"][pg] if a not in (victim["frag"], victim["id"])]
        c["site"]["nameanchors"][pg] = [a for a in c["site"]["nameanchors"][pg] if a not in (victim["frag"], victim["id"])]
        before, after = verdict(base), verdict(c)
        nc["python_twin"] = (victim["id"], "none") in after["VisibleMemberHasAnchor"] - before["VisibleMemberHasAnchor"] \
            and len(after["LinksResolve"]) > len(before["LinksResolve"])
        rec = tlc_validate(ctx, [c], batch=1)[0]
        t = tlc_verdict(rec)
        nc["tlc"] = t == after and bool(rec["diff"].get("anchors_missing"))
    else:
        # pretend one public class was HIDDEN by a rule: its page, rows, search records are now traces
        victim = next(o for o in c["objs"].values() if o["cls"] == "Class" and o["incontents"] and o["priv"] == "PUBLIC")
        victim["priv"] = "HIDDEN"
        # and strip the private marker from one sidebar entry of a PRIVATE object, if there is one
        before, after = verdict(base), verdict(c)
        nc["python_twin"] = any(x[0] == "file" and x[2] == victim["file"] for x in after["HiddenNoTrace"]) \
            and any(x[0] == "inventory" for x in after["HiddenNoTrace"]) and len(after["HiddenNoTrace"]) > len(before["HiddenNoTrace"])
        rec = tlc_validate(ctx, [c], batch=1)[0]
        nc["tlc"] = tlc_verdict(rec) == after and bool(rec["modeldiff"].get("fields") or rec["diff"].get("files_extra"))
        c2 = json.loads(json.dumps(base))
        c2["name"] = "negative-control-2"
        pub = next(o for o in c2["objs"].values() if o["cls"] == "Function" and o["incontents"] and o["priv"] == "PUBLIC")
        pub["priv"] = "PRIVATE"
        a2 = verdict(c2)
        nc["python_twin_private"] = any(x[1] == "detail" for x in a2["PrivateMarked"]) and any(x[1] == "searchDoc" for x in a2["PrivateMarked"])
        nc["tlc_private"] = tlc_verdict(tlc_validate(ctx, [c2], batch=1)[0]) == a2
    return nc


def replay_property(ctx: Ctx, path: str, prop: str) -> int:
    w = json.load(open(path))
    job = dict(w["job"])
    job["root"] = str(ctx.scratch / "proj")
    job["out"] = str(ctx.scratch / "out")
    res = run_job(job)
    if "error" in res:
        raise MachineryError(res["error"])
    case = to_case(res)
    now = verdict(case)[w["invariant"]]
    inst = w["instance"]
    keyf = {"LinksResolve": lambda x: (x[0], x[1], x[2], x[3]) == (inst.get("page"), inst.get("file"), inst.get("frag"), inst.get("prod")),
            "VisibleHasPage": lambda x: x[0] == inst.get("obj"), "VisibleMemberHasAnchor": lambda x: x[0] == inst.get("obj"),
            "HiddenNoTrace": lambda x: x[:5] == (inst.get("trace"), inst.get("page"), inst.get("file"), inst.get("frag"), inst.get("prod")),
            "PrivateMarked": lambda x: x == (inst.get("page"), inst.get("kind"), inst.get("file"), inst.get("frag"))}[w["invariant"]]
    still = [x for x in now if keyf(x)]
    print("replay:", "still violated: %s %s" % (w["invariant"], still[0]) if still else "holds now")
    if still:
        print("VIOLATION property=%s replay=%s" % (prop, path))
    ctx.cleanup()
    return 1 if still else 0
