"""
Second batch of adversarial source trees for C01 (leads from the seeding agents' probing of the unchanged tree).
Same format as harness/adversarial.py; a file value {"symlink": target} is realised as a symbolic link.
"""
from __future__ import annotations

from typing import Any, Dict, List

from .adversarial import case

STRAY_FIELD = "Para\n  @note: x\n@note: y"


def cases2() -> List[Dict[str, Any]]:
    out: List[Dict[str, Any]] = []
    A = out.append
    doc = repr(STRAY_FIELD)
    A(case("epytext-stray-field-in-search", {"pk/m.py": f"class C:\n    {doc}\n    def m(self):\n        {doc}\n{doc}\n"}))
    A(case("class-named-like-submodule-in-init", {"pk/__init__.py": "from . import sub\nclass sub:\n    pass\n",
                                                  "pk/sub.py": "from pk import other\nclass S: pass\n", "pk/other.py": "x = 1\n"}))
    A(case("class-named-like-submodule-midprocessing", {"pk/__init__.py": "class sub:\n    pass\nfrom .sub import S\n",
                                                        "pk/sub.py": "import pk\nfrom pk import sub as again\nclass S: pass\n",
                                                        "pk/a.py": "from . import sub\n"}))
    A(case("class-shadowing-submodule-before-import", {"pk/__init__.py": "class sub:\n    '''shadows the submodule'''\nfrom . import sub as s2\nfrom .sub import S\n",
                                                       "pk/sub.py": "class S: pass\n"}))
    A(case("implementer-of-function", {"pk/m.py": "from zope.interface import implementer, Interface\ndef some_function(): pass\nclass I(Interface):\n    def m(): 'doc'\n"
                                                  "@implementer(some_function)\nclass A:\n    def m(self): pass\n@implementer(I, A)\nclass B(A):\n    def m(self): pass\n"}))
    A(case("attrs-unhashable-option", {"pk/m.py": "import attr\n@attr.s(auto_attribs={[1]: 2})\nclass A:\n    x = attr.ib()\n"
                                                  "@attr.s(kw_only={[]: 1}, init={[]: 2})\nclass B:\n    y: int = 1\n"}))
    A(case("reexport-root-module", {"pk/__init__.py": "import pk\n__all__ = ['pk']\n", "pk/a.py": "import pk\nfrom pk import a\n__all__ = ['pk']\n"}))
    A(case("reexport-other-root", {"r1/pk/__init__.py": "", "r1/pk/a.py": "x = 1\n",
                                   "r2/other/__init__.py": "import pk\nfrom pk import a\n__all__ = ['pk', 'a']\n"}, roots=["r1/pk", "r2/other"]))
    A(case("reexport-root-module-by-plain-module", {"r1/rootmod.py": "class R: pass\n", "r2/user.py": "import rootmod\n__all__ = ['rootmod']\n"},
           roots=["r1/rootmod.py", "r2/user.py"]))
    A(case("reexport-root-through-alias", {"lib.py": "class L: pass\n", "pk/__init__.py": "from .a import lib\n__all__ = ['lib']\n", "pk/a.py": "import lib\n"},
           roots=["lib.py", "pk"]))
    A(case("surrogate-in-string-annotation", {"pk/m.py": "x: '\\ud800' = 1\ndef f(a: 'List[\\udc80]') -> '\\ud800': pass\n"}))
    A(case("same-named-roots-reexport", {"r1/pk/__init__.py": "from .sub import X\n__all__ = ['X']\n", "r1/pk/sub.py": "class X: pass\n",
                                         "r2/pk/__init__.py": "from .sub import X\n__all__ = ['X']\n", "r2/pk/sub.py": "class X: pass\nclass Y(X): pass\n"},
           roots=["r1/pk", "r2/pk"]))
    chain = {f"pk/m{i:03d}.py": f"from .m{i + 1:03d} import C{i + 1}\nclass C{i}(C{i + 1}): pass\n" for i in range(150)}
    chain["pk/m150.py"] = "class C150: pass\n"
    A(case("import-chain-150", chain))
    A(case("dangling-symlink", {"pk/a.py": "x = 1\n", "pk/dangling.py": {"symlink": "nowhere.py"}, "pk/loop": {"symlink": "."}}))
    return out
