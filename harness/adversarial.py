"""
Hand-written adversarial source trees for C01: unusual but legitimate (or merely unparsable) inputs aimed at the seams of
the analysis - metadata variables, docstring assignment, re-exports of odd things, inheritance cycles, values that
cannot be rendered, pathological sizes.  Each case is {name, files: {relative path: text}, roots: [relative paths]}.
The files live under <tmp>/src/; `roots` are the paths handed to pydoctor (default: ["pk"]).
"""
from __future__ import annotations

from typing import Any, Dict, List

PKG = {"pk/__init__.py": ""}


def case(name: str, files: Dict[str, str], roots: List[str] | None = None) -> Dict[str, Any]:
    f = dict(files)
    if roots is None and not any(k.startswith("pk/__init__") for k in f):
        f["pk/__init__.py"] = ""
    return {"name": name, "files": f, "roots": roots or ["pk"]}


def cases() -> List[Dict[str, Any]]:
    out: List[Dict[str, Any]] = []
    A = out.append
    # --- sizes / depth
    A(case("flat-sum-5000", {"pk/m.py": "x = " + "+".join(["1"] * 5000) + "\n"}))
    A(case("attribute-chain-3000", {"pk/m.py": "import a\nx = a" + ".b" * 3000 + "\n"}))
    A(case("unary-minus-2000", {"pk/m.py": "x = " + "-" * 2000 + "1\n"}))
    A(case("nested-parens-150", {"pk/m.py": "x = " + "(" * 150 + "1" + ")" * 150 + "\n"}))
    A(case("nested-lists-90", {"pk/m.py": "x = " + "[" * 90 + "]" * 90 + "\n"}))
    A(case("deep-class-nesting-60", {"pk/m.py": "".join("    " * i + f"class C{i}:\n" for i in range(60)) + "    " * 60 + "pass\n"}))
    A(case("long-docstring-200k", {"pk/m.py": '"""' + "word " * 40000 + '"""\n'}))
    # --- text that cannot be encoded / rendered
    A(case("lone-surrogate-docstring", {"pk/m.py": 'def f():\n    "doc \\ud800 end"\n'}))
    A(case("lone-surrogate-constant", {"pk/m.py": 'X = "\\udc80"\n"""doc"""\n'}))
    A(case("lone-surrogate-default", {"pk/m.py": 'def f(a="\\ud800"):\n    "doc"\n'}))
    A(case("noncharacter-default", {"pk/m.py": 'def f(a="\\uffff", b="\\x0c\\x00"):\n    "doc"\n'}))
    A(case("overload-unrenderable-default", {"pk/m.py": "from typing import overload\n@overload\ndef f(a: int = 1, s: str = '\\uffff') -> int: ...\n"
                                                       "@overload\ndef f(a: str = '', s: str = '\\x0c') -> str: ...\ndef f(a=1, s=''):\n    'doc'\n"}))
    A(case("formfeed-in-fstring-default", {"pk/m.py": "def f(a=f'{1}\\x0c'):\n    'doc'\n"}))
    A(case("huge-int-constant", {"pk/m.py": "X = " + "9" * 5000 + "\n'doc'\n"}))
    A(case("regex-huge-repeat", {"pk/m.py": "import re\nR = re.compile('a{99999999999999999999999}')\n'doc'\nS = re.compile('(?P<n>a)(?P=n)(?#c)[' )\n"}))
    A(case("regex-as-default", {"pk/m.py": "import re\ndef f(r=re.compile(r'(a|b)*?\\d{2,}(?=x)[^\\W]\\Z', re.I | re.X)):\n    'doc'\n"}))
    # --- metadata variables
    A(case("all-unhashable", {"pk/m.py": "__all__ = [{[]: 1}]\nclass A: pass\n"}))
    A(case("all-odd-values", {"pk/m.py": "__all__ = ['A', 1, None, *x, 'A']\nclass A: pass\n", "pk/n.py": "__all__ = 'A'\n__all__ += ['B']\n__all__ = __all__ + []\n"}))
    A(case("docformat-unhashable", {"pk/m.py": "__docformat__ = {[]: 1}\n'doc'\n"}))
    A(case("docformat-private-module", {"pk/m.py": "__docformat__ = '_types'\ndef f():\n    'doc'\n", "pk/n.py": "__docformat__ = '_napoleon'\n'doc'\n",
                                        "pk/o.py": "__docformat__ = '__init__'\n'doc'\n"}))
    A(case("docformat-odd", {"pk/m.py": "__docformat__ = 'nosuchformat en'\n'doc L{x}'\n", "pk/n.py": "__docformat__ = ''\n'doc'\n", "pk/o.py": "__docformat__ = 7\n'doc'\n"}))
    A(case("doc-assignment-unhashable", {"pk/m.py": "class C: pass\nC.__doc__ = {[]: 1}\nC.__doc__ = f'{C}'\nC.x.__doc__ = 'a'\n(lambda: 0).__doc__ = 'x'\n"}))
    A(case("doc-assignment-to-unprocessed-module", {"pk/a.py": "import pk.z as z\nz.__doc__ = 'set from a'\n", "pk/z.py": "'''own docstring'''\nclass Z: pass\n"}))
    A(case("doc-assignment-to-package", {"pk/a.py": "import pk\npk.__doc__ = 'x'\nfrom . import b\nb.__doc__ = 'y'\n", "pk/b.py": "\n"}))
    # --- re-exports of odd things
    A(case("module-reexports-itself", {"pk/a.py": "from pk import a\n__all__ = ['a']\n"}))
    A(case("module-reexports-its-package", {"pk/a.py": "import pk\nfrom .. import pk as q\n__all__ = ['pk', 'q']\n"}))
    A(case("package-reexports-itself", {"pk/__init__.py": "from . import pk\nimport pk\nfrom pk import pk as me\n__all__ = ['pk', 'me']\n"}))
    A(case("reexport-parent-class-into-child", {"pk/a.py": "class Outer:\n    class Inner: pass\n", "pk/b.py": "from .a import Outer\nfrom .a import Outer as Outer2\nInner = Outer.Inner\n__all__ = ['Outer', 'Outer2', 'Inner']\n"}))
    A(case("reexport-cycle", {"pk/a.py": "from .b import X\n__all__ = ['X']\n", "pk/b.py": "from .a import X\n__all__ = ['X']\nclass X: pass\n"}))
    A(case("reexport-method", {"pk/a.py": "class C:\n    def m(self): pass\nm = C.m\n", "pk/b.py": "from .a import m\nfrom .a import C\n__all__ = ['m']\n"}))
    A(case("same-named-roots", {"r1/pk/__init__.py": "from .sub import D\n__all__ = ['D']\n", "r1/pk/sub.py": "class D: pass\nclass D: pass\n",
                                "r2/pk/__init__.py": "from .sub import D\n__all__ = ['D']\n", "r2/pk/sub.py": "class D:\n    class E: pass\nclass D: pass\n"}, roots=["r1/pk", "r2/pk"]))
    A(case("module-and-package-same-name", {"pk/a.py": "class A: pass\n", "pk/a/__init__.py": "class B: pass\n", "pk/use.py": "from .a import A, B\nclass C(A, B): pass\n"}))
    A(case("star-import-from-self", {"pk/a.py": "from .a import *\nfrom . import *\nfrom pk import *\nclass A: pass\n", "pk/__init__.py": "from .a import *\nfrom . import *\n"}))
    A(case("relative-import-too-high", {"pk/a.py": "from .... import x\nfrom ....y import *\nfrom . import (a as b)\nclass K:\n    from ..... import q\n"}))
    # --- inheritance
    A(case("mro-cycle-with-descendants", {"pk/shapes.py": "class A(D): pass\nclass C(A): pass\nclass D(C): pass\nclass Leaf(A):\n    def m(self): 'doc'\nclass Leaf2(Leaf, D): pass\n",
                                          "pk/ok.py": "class Fine:\n    'doc'\n"}))
    A(case("self-base", {"pk/m.py": "class A(A): pass\nclass B(B.C): pass\nclass G(G[int]): pass\n"}))
    A(case("odd-bases", {"pk/m.py": "class A(object, metaclass=type): pass\nclass B(*bases, **kw): pass\nclass C(f(x)[0], (lambda: A)()): pass\nclass D(A if x else B): pass\nclass E(A, A): pass\n"}))
    A(case("inconsistent-mro", {"pk/m.py": "class X: pass\nclass Y: pass\nclass A(X, Y): pass\nclass B(Y, X): pass\nclass Z(A, B):\n    def m(self): 'doc'\nclass W(Z): pass\n"}))
    # --- definitions in odd places
    A(case("property-zoo", {"pk/m.py": "class C:\n    @property\n    @staticmethod\n    def p(): 'doc'\n    @classmethod\n    @property\n    def q(cls): 'doc'\n"
                                       "    @p.setter\n    def p(self, v): pass\n    @nosuch.setter\n    def z(self): pass\n    @p.deleter\n    def p(self): pass\n    p = property(p)\n"}))
    A(case("overload-zoo", {"pk/m.py": "from typing import overload\nimport typing as t\n@overload\ndef f(a): 'doc on overload'\ndef f(a): pass\n@overload\ndef f(b): ...\n"
                                       "@t.overload\ndef g(): ...\nclass K:\n    @overload\n    def m(self): ...\n    m = 1\n    @overload\n    def m(self, a): ...\n"}))
    A(case("oldschool-zoo", {"pk/m.py": "class C:\n    def a(self): pass\n    a = classmethod(a)\n    a = staticmethod(a)\n    a = classmethod(b)\n    b = staticmethod(lambda: 0)\n"
                                        "    a = classmethod(a, 1)\ndef top(): pass\ntop = staticmethod(top)\n"}))
    A(case("assign-zoo", {"pk/m.py": "a = b = c = 1\n(a, (b, *c)), d = x\na.b.c = 1\na[0] = 1\nx: int\ny: 'List[' = []\nz: int = yield_ = 3 if a else 4\n"
                                     "class K:\n    self.x = 1\n    def m(self):\n        self.a: int = 1\n        self.a += 1\n        self.b, self.c = 1, 2\n        self.m = 3\n"
                                     "        K.attr = 4\n    m.attr = 5\n    __slots__ = ('a', 'b')\n"}))
    A(case("attribute-docstring-zoo", {"pk/m.py": "'''mod'''\n'''second string'''\nx = 1\n'''doc x'''\n'''doc x again'''\ndef f(): pass\n'''after def'''\n"
                                                  "class K:\n    '''k'''\n    a = 1\n    f'not a docstring {a}'\n    b'bytes'\n    b = 2\n    '''doc b'''\n"}))
    A(case("type-alias-zoo", {"pk/m.py": "from typing import TypeVar, Union, TypeAlias\nT = TypeVar('T')\nU = TypeVar(name='U', bound='K')\nA = Union[int, 'K']\n"
                                         "B: TypeAlias = 'List[K'\nC: 'TypeAlias' = None\nclass K: pass\ntype D = int\n"}))
    A(case("attrs-zoo", {"pk/m.py": "import attr, attrs\n@attr.s(auto_attribs=1/0)\nclass A:\n    x = attr.ib(default=attr.Factory(list), type='int', converter=1)\n"
                                    "    y: int = attr.ib(init=nosuch)\n@attrs.define(kw_only=maybe)\nclass B:\n    z: 'List[' = 1\n@attr.s(**kw)\nclass C: pass\n"}))
    A(case("zope-zoo", {"pk/m.py": "from zope.interface import Interface, implementer, implements, Attribute, classImplements\nimport zope.schema as s\n"
                                   "class I(Interface):\n    a = Attribute()\n    b = Attribute(1, 2, 3)\n    c = s.TextLine(title=f'{x}')\n    def m(): 'doc'\n"
                                   "@implementer(I, nosuch, 1, *z)\nclass A:\n    implements(I, I)\nclassImplements(A)\nclassImplements(nosuch, I)\nJ = Interface\nK = InterfaceClass('K')\n"}))
    A(case("deprecate-zoo", {"pk/m.py": "from twisted.python.deprecate import deprecated, deprecatedProperty\nfrom incremental import Version\n"
                                        "@deprecated(Version('x', 1, 2, 3), replacement='a<b>&c')\ndef f(): 'doc'\n@deprecated(Version(name, 'NEXT', 0, 0))\ndef g(): pass\n"
                                        "@deprecated(Version('pk', 1, 2), 'has space')\nclass C:\n    @deprecatedProperty(Version('p', 1, 0, 0))\n    def p(self): pass\n@deprecated()\ndef h(): pass\n"}))
    A(case("decorator-zoo", {"pk/m.py": "@a.b(c)[d]\n@(lambda f: f)\n@x if y else z\ndef f(): pass\n@f'{1}'\nclass C: pass\n@C()().m\nasync def g(): pass\n"}))
    A(case("signature-zoo", {"pk/m.py": "def f(a, /, b=(yield_), *c: 'str', d: int = lambda: 0, **e) -> 'Li[st': 'doc'\ndef g(*, a=..., b=-1j, c=b'\\xff', d=1_0.0e-3, e=[*(), *{}]): pass\n"
                                        "def h(a=f\"{'x'!r:>{w}}\", b=x @ y, c=not -~+a, d=(a := 1), e=(yield), g=await_): pass\nlambda_ = lambda a=1, *b, c, **d: 0\n"}))
    A(case("match-and-new-syntax", {"pk/m.py": "match x:\n    case [1, *r] if r:\n        def inside(): 'doc'\n    case {'k': v, **kw}:\n        class K: pass\n    case _:\n        y = 1\n"
                                               "try:\n    pass\nexcept* ValueError as eg:\n    z = 1\nwith (open('a') as f, open('b') as g):\n    def w(): pass\ndef gen[T: int, *Ts, **P](a: T) -> T: pass\nclass G[T]: pass\n"}))
    A(case("encoding-and-bom", {"pk/m.py": "\ufeff# -*- coding: utf-8 -*-\nx = 'caf\u00e9'\n'''doc \u00e9'''\n", "pk/n.py": "# -*- coding: latin-1 -*-\nx = 1\n"}))
    A(case("empty-and-whitespace", {"pk/m.py": "", "pk/n.py": "\n\n   \n", "pk/o.py": "\\\n", "pk/p.py": "#only comment", "pk/q.py": "\x0c\n"}))
    A(case("name-clashes-with-pages", {"pk/index.py": "class classIndex: pass\n", "pk/classIndex.py": "x=1\n", "pk/moduleIndex.py": "", "pk/nameIndex.py": "",
                                       "pk/undoccedSummary.py": "", "pk/apidocs.py": "", "pk/all-documents.py": "x = 1\n", "pk/searchindex.py": ""}))
    A(case("weird-module-names", {"pk/a-b.py": "x = 1\n", "pk/c d.py": "class E: pass\n", "pk/__main__.py": "class M: pass\n", "pk/1x.py": "y = 2\n",
                                  "pk/class.py": "class K: pass\n", "pk/\u00e9\u00e8.py": "class U: pass\n", "pk/a.b.py": "z = 3\n"}))
    A(case("constructor-zoo", {"pk/m.py": "class A:\n    def __new__(cls, *a) -> 'A': 'doc'\n    def __init__(self): pass\n    @classmethod\n    def make(cls) -> 'Self': pass\n"
                                          "    @staticmethod\n    def other() -> A: pass\n    @classmethod\n    def bad(cls) -> 'A[': pass\nclass B(A):\n    __init__ = 1\n    __new__ = A.make\n"}))
    A(case("google-numpy-broken-sections", {"pk/m.py": "__docformat__ = 'google'\ndef f(a, b):\n    '''Summary.\n\n    Args:\n        a (int\n        b: :x:`y`\n      c: bad indent\n\n    Returns:\n\n    Raises:\n        : nothing\n\n    Yields:\n      int: x\n    Attributes:\n    '''\n",
                                            "pk/n.py": "__docformat__ = 'numpy'\ndef g(a):\n    '''S.\n\n    Parameters\n    ----------\n    a : {'x', 'y', optional\n    *args, **kw\n\n    Returns\n    ---\n    See Also\n    --------\n    f, : g\n    '''\n"}))
    A(case("field-zoo", {"pk/m.py": "def f(a, *b, **c):\n    '''\n    @param a:\n    @param a: again\n    @param: noarg\n    @type nosuch: L{x}\n    @return: r\n    @return: r2\n    @rtype:\n    @raise: x\n    @raise E{1}: y\n"
                                    "    @ivar x: in function\n    @keyword c: kw\n    @param b c: two\n    @see: U{http://}\n    @since\n    @unknownfield: u\n    @param *b: star\n    @param **c: starstar\n    '''\n"
                                    "class K:\n    '''\n    @ivar a: 1\n    @ivar a: 2\n    @cvar K: self\n    @type a: int\n    @type a: str\n    @param x: cls param\n    '''\n    a = 1\n"}))
    return out
