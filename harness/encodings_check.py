"""
C03 side check: source files that are not plain UTF-8 (PEP 263 coding cookie, UTF-8 byte order mark).  Whatever CPython
imports from such a file must be documented: same names per module, same module docstring.
"""
from __future__ import annotations

import json
import subprocess
import sys
from pathlib import Path
from typing import Any, Dict, List

from . import projects as P

BODY = "\nOWNER = 'café'\nclass Entrée(Exception):\n    'doc é'\ndef greet():\n    'bonjour à tous'\n"
ORACLE = ("import sys, json, importlib; sys.path.insert(0, sys.argv[1]); out = {}\n"
          "for m in ('legacy', 'windows', 'utf8', 'cookie2'):\n"
          "    mod = importlib.import_module('ep.' + m)\n"
          "    out[m] = {'names': sorted(k for k in vars(mod) if not k.startswith('__')), 'doc': mod.__doc__}\n"
          "print(json.dumps(out))")


def write_package(base: Path) -> Path:
    pk = base / "ep"
    pk.mkdir(parents=True)
    (pk / "__init__.py").write_bytes(b"")
    (pk / "legacy.py").write_bytes(("# -*- coding: latin-1 -*-\n\"\"\"module doc é\"\"\"" + BODY).encode("latin-1"))
    (pk / "windows.py").write_bytes(b"\xef\xbb\xbf" + "\"\"\"module doc\"\"\"\nLIMIT = 3\nclass Thing: pass\ndef fetch(): pass\n".encode("utf-8"))
    (pk / "utf8.py").write_bytes(("# coding: utf-8\n\"\"\"doc\"\"\"" + BODY).encode("utf-8"))
    (pk / "cookie2.py").write_bytes(("#!/usr/bin/env python\n# vim: set fileencoding=iso-8859-15 :\n\"\"\"second line cookie é\"\"\"" + BODY).encode("iso-8859-15"))
    return pk


def check(scratch: Path) -> List[Dict[str, Any]]:
    """Returns a list of witnesses (empty when pydoctor documents what CPython imports)."""
    base = scratch / "encpkg"
    pk = write_package(base)
    r = subprocess.run([sys.executable, "-I", "-c", ORACLE, str(base)], capture_output=True, text=True, timeout=60)
    if r.returncode != 0:
        raise RuntimeError("encoding oracle failed: " + r.stderr[-400:])
    want = json.loads(r.stdout)
    b = P.build_sources(paths=[pk], record_states=False)
    out: List[Dict[str, Any]] = []
    for m, info in want.items():
        mo = b["system"].allobjects.get("ep." + m)
        got = {"names": sorted(mo.contents) if mo is not None else None, "doc": mo.docstring if mo is not None else None}
        if got != info:
            out.append({"module": m, "expected": info, "got": got})
    return out
