"""
Template families of projects for Processing.tla (DESIGN.md 5/C06, 5/C07, 5/C02).
Every family is a comprehension over small parameters; TLC explores every admissible schedule of each project.
Module indices are 1-based positions in `mods`.
"""
from __future__ import annotations

import itertools
import random
from typing import Any, Dict, Iterator, List

from .projects import alias, cls, flat, fn, frm, imp, mod, project, star, var


def t1_base_chains() -> Iterator[Dict[str, Any]]:
    """T1: a class hierarchy spread over sibling modules of one package, every import form."""
    forms = {
        "from_rel": lambda m, n: ([frm(m, n, lvl=1)], n),
        "from_abs": lambda m, n: ([frm("p." + m, n)], n),
        "from_as": lambda m, n: ([frm(m, n, "Q" + n, lvl=1)], "Q" + n),
        "import_abs": lambda m, n: ([imp("p." + m)], f"p.{m}.{n}"),
        "import_as": lambda m, n: ([imp("p." + m, "zz")], f"zz.{n}"),
        "from_pkg_mod": lambda m, n: ([frm("", m, lvl=1)], f"{m}.{n}"),
    }
    for f1, f2 in itertools.product(forms, repeat=2):
        i1, b1 = forms[f1]("a", "A")
        i2, b2 = forms[f2]("b", "B")
        yield project([
            mod("p", pkg=True),
            mod("a", 1, ops=flat(cls("A", body=[fn("meth")]))),
            mod("b", 1, ops=flat(i1, cls("B", b1))),
            mod("c", 1, ops=flat(i2, cls("C", b2))),
        ], "T1", forms=[f1, f2])


def t1_exceptions() -> Iterator[Dict[str, Any]]:
    """T1x: exception classes whose exception-ness comes through a base in another module, named in a way that does
       not force that module to be analysed first."""
    for form in ("import_abs", "import_as", "from_rel"):
        i1, b1 = {"import_abs": ([imp("p.zbase")], "p.zbase.BaseError"), "import_as": ([imp("p.zbase", "zz")], "zz.BaseError"),
                  "from_rel": ([frm("zbase", "BaseError", lvl=1)], "BaseError")}[form]
        yield project([mod("p", pkg=True), mod("errors", 1, ops=flat(i1, cls("ConfigError", b1), cls("Deep", "ConfigError"), cls("Plain"))),
                       mod("zbase", 1, ops=flat(cls("BaseError", "Exception"), cls("NotExc")))], "T1x", form=form)
    # the exception base is re-exported by a facade AFTER (or before) its subclasses were analysed: a moved object is
    # re-registered behind its subclasses, so anything that relies on "bases come first" in the registry breaks
    yield project([mod("errors", ops=flat(cls("MyErr", "Exception"), cls("Other"))),
                   mod("client", ops=flat(frm("errors", "MyErr"), cls("SubErr", "MyErr"), cls("Deep", "SubErr"), cls("NotErr", "object"))),
                   mod("facade", pkg=True, ops=[frm("errors", "MyErr")], all=["MyErr"])], "T1x", form="reexported-base-roots")
    yield project([mod("p", pkg=True), mod("errors", 1, ops=flat(cls("MyErr", "Exception"))),
                   mod("client", 1, ops=flat(frm("errors", "MyErr", lvl=1), cls("SubErr", "MyErr"), cls("Deep", "SubErr"))),
                   mod("zfacade", 1, ops=[frm("errors", "MyErr", lvl=1)], all=["MyErr"])], "T1x", form="reexported-base-siblings")


def t8_prefix_roots() -> Iterator[Dict[str, Any]]:
    """T8: two roots whose names are prefix-related; lookups through a re-export alias must pick the right root."""
    yield project([mod("core", pkg=True), mod("x", 1, ops=flat(cls("K"))),
                   mod("core_ext", pkg=True, ops=[frm("_impl", "Base", lvl=1)], all=["Base"]),
                   mod("_impl", 3, ops=flat(cls("Base", body=[fn("m")]))),
                   mod("user", 3, ops=flat(frm("core_ext._impl", "Base"), cls("D", "Base")))], "T8")


def t9_reexport_while_origin_processing() -> Iterator[Dict[str, Any]]:
    """T9: the defining module starts first (a root consumer imports it), imports from its own package after the
       definition, so the package's __init__ re-exports while the defining module is still PROCESSING."""
    yield project([mod("consumer", ops=flat(frm("pkg._impl", "Foo"), cls("Sub", "Foo"))),
                   mod("pkg", pkg=True, ops=[frm("_impl", "Foo", lvl=1)], all=["Foo"]),
                   mod("_impl", 2, ops=flat(cls("Foo", body=[fn("m")]), frm("", "_registry", lvl=1))),
                   mod("_registry", 2, ops=flat(cls("R")))], "T9", cyclic=False)


def t2_star() -> Iterator[Dict[str, Any]]:
    """T2: star imports with / without __all__ feeding base classes, chained."""
    for has_all, hidden, chained in itertools.product([False, True], [False, True], [False, True]):
        a_ops = flat(cls("A"), cls("_H"), fn("f"))
        a_all = (["A"] if hidden else ["A", "_H"]) if has_all else None
        mods = [mod("p", pkg=True), mod("a", 1, ops=a_ops, all=a_all),
                mod("b", 1, ops=flat(star("a", lvl=1), cls("B", "A")))]
        if chained:
            mods.append(mod("c", 1, ops=flat(star("b", lvl=1), cls("C", "A"), cls("C2", "B"))))
        yield project(mods, "T2", has_all=has_all, hidden=hidden, chained=chained)
    # star import of a package (names come from contents: sub-modules are names too)
    yield project([mod("p", pkg=True, ops=flat(cls("K"))), mod("a", 1, ops=flat(cls("A"))),
                   mod("q", pkg=True), mod("u", 3, ops=flat(star("p"), cls("U", "K"), cls("U2", "a.A")))], "T2", pkgstar=True)


def t3_reexport() -> Iterator[Dict[str, Any]]:
    """T3: re-exports (C07): re-exporter = parent package | sibling module, import = plain | as | star,
       consumers import from origin | re-exporter | both; the object carries a member."""
    for where, form, cons in itertools.product(["pkg", "sibling"], ["plain", "as", "star"],
                                               [["o"], ["r"], ["o", "r"], ["o2"], ["ostar"]]):
        exported = "Z" if form == "as" else "X"
        imp_ops = {"plain": [frm("_impl", "X", lvl=1)], "as": [frm("_impl", "X", "Z", lvl=1)],
                   "star": [star("_impl", lvl=1)]}[form]
        impl = mod("_impl", 1, ops=flat(cls("X", body=flat(fn("meth"), cls("In")))), all=None)
        mods = [mod("p", pkg=True, ops=imp_ops if where == "pkg" else [], all=[exported] if where == "pkg" else None), impl]
        rex = "p" if where == "pkg" else "p.api"
        if where == "sibling":
            mods.append(mod("api", 1, ops=imp_ops, all=[exported]))
        for c in cons:
            if c == "o":
                mods.append(mod("co", 1, ops=flat(frm("p._impl", "X", "Y"), cls("D", "Y"), cls("D3", "Y.In"))))
            elif c == "ostar":  # star import of the defining module (after the move only the alias left behind carries the name)
                mods.append(mod("cs", 1, ops=flat(star("p._impl"), cls("D5", "X"))))
            elif c == "o2":     # module alias to the origin
                mods.append(mod("cm", 1, ops=flat(imp("p._impl", "im"), cls("D2", "im.X"), cls("D4", "im.X.In"))))
            else:
                mods.append(mod("cr", 1, ops=flat(frm(rex, exported, "Y"), cls("E", "Y"), cls("E3", "Y.In"))))
        yield project(mods, "T3", where=where, form=form, consumers=cons, exported=exported, rex=rex)
    # what is re-exported is a function or a variable (documented on the page of its module, not on a page of its own)
    for where, kind in itertools.product(["pkg", "sibling"], ["def", "var"]):
        thing = fn("X") if kind == "def" else var("X")
        impl = mod("_impl", 1, ops=flat(thing, cls("Other")))
        mods = [mod("p", pkg=True, ops=[frm("_impl", "X", lvl=1)] if where == "pkg" else [], all=["X"] if where == "pkg" else None), impl]
        if where == "sibling":
            mods.append(mod("api", 1, ops=[frm("_impl", "X", lvl=1)], all=["X"]))
        mods.append(mod("co", 1, ops=flat(frm("p._impl", "X", "Y"), alias("z", "Y"), imp("p._impl", "im"), alias("w", "im.X"))))
        mods.append(mod("cr", 1, ops=flat(frm("p" if where == "pkg" else "p.api", "X", "Y"), alias("z", "Y"))))
        yield project(mods, "T3", where=where, reexported_kind=kind, consumers=["o", "r"])
    # the defining module also binds the name by an (optional accelerator) import: the alias left by the move must win
    for where in ("pkg", "sibling"):
        impl = mod("_impl", 1, ops=flat(cls("X", body=[fn("meth")]), {**frm("_speedups", "X"), "try": True}))
        mods = [mod("p", pkg=True, ops=[frm("_impl", "X", lvl=1)] if where == "pkg" else [], all=["X"] if where == "pkg" else None), impl]
        if where == "sibling":
            mods.append(mod("api", 1, ops=[frm("_impl", "X", lvl=1)], all=["X"]))
        mods.append(mod("co", 1, ops=flat(frm("p._impl", "X", "Y"), cls("D", "Y"))))
        yield project(mods, "T3", idiom="origin-imports-too", where=where, consumers=["o"])
    # a sub-module re-exported by its package under another name (the module object moves)
    yield project([mod("p", pkg=True), mod("sub", 1, pkg=True, ops=[frm("", "_core", "core", lvl=1)], all=["core"]),
                   mod("_core", 2, ops=flat(cls("Engine"))),
                   mod("u1", 1, ops=flat(frm("p.sub._core", "Engine"), cls("U1", "Engine"))),
                   mod("u2", 1, ops=flat(imp("p.sub._core", "raw"), cls("U2", "raw.Engine"))),
                   mod("u3", 1, ops=flat(frm("p.sub", "core"), cls("U3", "core.Engine")))], "T3", idiom="moved-module")
    # a module alias handed on by another module
    yield project([mod("p", pkg=True), mod("impl", 1, ops=flat(cls("W", body=flat(cls("Part"))), fn("tool"))),
                   mod("hub", 1, ops=[frm("", "impl", "engine", lvl=1)]),
                   mod("use", 1, ops=flat(frm("hub", "engine", lvl=1), cls("V", "engine.W"), cls("V2", "engine.W.Part"), alias("t", "engine.tool")))],
                  "T3", idiom="module-alias-handed-on")
    # package listing its own sub-module in __all__ (very common idiom)
    yield project([mod("p", pkg=True, ops=[frm("", "sub", lvl=1)], all=["sub"]), mod("sub", 1, ops=flat(cls("S"))),
                   mod("use", 1, ops=flat(frm("p", "sub"), cls("T", "sub.S")))], "T3", idiom="submodule-in-all")
    # the re-exported name reaches the package through a chain of plain imports (1, 2, 3 intermediate modules)
    for n in (1, 2, 3):
        chain = ["_base"] + [f"_l{k}" for k in range(1, n + 1)]
        mods = [mod("p", pkg=True, ops=[frm(chain[-1], "X", lvl=1)], all=["X"]), mod("_base", 1, ops=flat(cls("X", body=flat(fn("meth"), cls("In")))))]
        for k in range(1, n + 1):
            mods.append(mod(chain[k], 1, ops=[frm(chain[k - 1], "X", lvl=1)]))
        mods.append(mod("use", 1, ops=flat(frm("p", "X", "PX"), cls("E", "PX"), frm("p._base", "X", "BX"), cls("F", "BX"), cls("G", "BX.In"))))
        yield project(mods, "T3", idiom="chain", length=n, consumers=["o", "r"])
    # the re-exporter's __all__ is read again later: by a star import of the re-exporter, and by another package importing the name
    # onward (the first re-exporter lists it in its own __all__, so the second one does not move it)
    yield project([mod("pkg", pkg=True, ops=[frm("_impl", "Engine", lvl=1), frm("_impl", "Wheel", lvl=1)], all=["Engine", "Wheel"]),
                   mod("_impl", 1, ops=flat(cls("Engine", body=[fn("run")]), cls("Wheel"))),
                   mod("user", 1, ops=flat(star("pkg"), cls("Car", "Engine", "Wheel"))),
                   mod("facade", pkg=True, ops=[frm("pkg", "Engine")], all=["Engine"]),
                   mod("fuser", 4, ops=flat(frm("facade", "Engine", "FE"), cls("Truck", "FE")))], "T3", idiom="reexporter-all-read-again")
    # the re-exporting __init__ is two levels above the defining module, which imports something back from the package; a root
    # module analysed before the package imports the nested module first
    yield project([mod("app", ops=flat(frm("pkg.sub._impl", "X"), cls("U", "X"))),
                   mod("pkg", pkg=True, ops=[frm("sub._impl", "X", lvl=1)], all=["X"]),
                   mod("errors", 2, ops=flat(cls("Error"))),
                   mod("sub", 2, pkg=True),
                   mod("_impl", 4, ops=flat(frm("pkg.errors", "Error"), cls("X", "Error", body=[fn("m")])))], "T3", idiom="nested-origin-with-back-import")
    # a PLAIN module listing a sub-module of another package in its __all__
    yield project([mod("pkg", pkg=True), mod("sub", 1, ops=flat(cls("S"))),
                   mod("facade", ops=[frm("pkg", "sub")], all=["sub"]),
                   mod("use", ops=flat(frm("pkg.sub", "S"), cls("T", "S")))], "T3", idiom="module-reexported-by-plain-module")
    # ... the same for a sub-PACKAGE (with a module of its own) next to a sub-module, listed by a plain module of the package itself;
    # and both re-exported by another PACKAGE (that one takes them in)
    yield project([mod("pkg", pkg=True), mod("backends", 1, pkg=True, ops=[frm("", "sql", lvl=1)]), mod("sql", 2, ops=flat(cls("Sql"))),
                   mod("util", 1, ops=flat(fn("helper"))),
                   mod("api", 1, ops=[frm("pkg", "backends"), frm("pkg", "util")], all=["backends", "util"]),
                   mod("public", 1, pkg=True, ops=[frm("pkg", "backends", "engines"), frm("pkg", "util", "tools")], all=["engines", "tools"]),
                   mod("use", 1, ops=flat(frm("pkg.backends.sql", "Sql"), cls("T", "Sql")))], "T3", idiom="package-reexported-by-plain-module")
    # the imported name is an ALIAS of a member of a class (run = K.run, Inner = K.In): the member stays in its class
    yield project([mod("pk", pkg=True, ops=[frm("impl", "run", lvl=1), frm("impl", "Inner", lvl=1)], all=["run", "Inner"]),
                   mod("impl", 1, ops=flat(cls("K", body=flat(fn("run"), cls("In"))), alias("run", "K.run"), alias("Inner", "K.In"))),
                   mod("use", 1, ops=flat(frm("pk.impl", "K"), cls("T", "K"), cls("V", "K.In")))], "T3", idiom="alias-of-class-member-reexported")
    # a re-exported VARIABLE (and a class) copied under another name by a sibling that imports them from the defining module:
    # whether `timeout = DEFAULT` is an alias or a variable of its own does not depend on DEFAULT having been moved already
    yield project([mod("pkg", pkg=True), mod("core", 1, ops=flat(var("DEFAULT"), cls("Client", body=[fn("send")]))),
                   mod("api", 1, ops=[frm("core", "DEFAULT", lvl=1), frm("core", "Client", lvl=1)], all=["DEFAULT", "Client"]),
                   mod("muser", 1, ops=flat(frm("core", "DEFAULT", lvl=1), frm("core", "Client", lvl=1), alias("timeout", "DEFAULT"),
                                            alias("factory", "Client"), cls("Session", "factory")))], "T3", idiom="reexported-variable-copied")
    # a SUB-PACKAGE with modules (and a package) of its own re-exported under another name: everything below follows
    yield project([mod("pkg", pkg=True, ops=[frm("", "_vendor", "vendor", lvl=1), frm("_core", "Widget", lvl=1)], all=["vendor", "Widget"]),
                   mod("_core", 1, ops=flat(cls("Widget", body=[fn("draw")]))),
                   mod("_vendor", 1, pkg=True, ops=[frm("", "compat", lvl=1), frm("", "deep", lvl=1)]),
                   mod("compat", 3, ops=flat(cls("Shim", body=[fn("apply")]), fn("helper"))),
                   mod("deep", 3, pkg=True, ops=[frm("", "leaf", lvl=1)]),
                   mod("leaf", 5, ops=flat(cls("Leaf", body=[fn("fall")]))),
                   mod("use", 1, ops=flat(frm("pkg._vendor.compat", "Shim"), cls("T", "Shim"), frm("pkg", "vendor"), cls("V", "vendor.compat.Shim"),
                                          cls("W", "vendor.deep.leaf.Leaf"), imp("pkg._vendor.deep.leaf", "lf"), cls("X", "lf.Leaf")))],
                  "T3", idiom="subpackage-reexported-renamed")
    # a package containing a module named like itself (shop/shop.py): in a module that binds `shop` to that sub-module, the
    # qualified names shop.Report / shop._impl.Report written in docstrings still designate the objects of the package
    yield project([mod("shop", pkg=True, ops=[frm("_impl", "Report", lvl=1), frm("shop", "Shop", lvl=1)], all=["Report"]),
                   mod("shop", 1, ops=flat(cls("Shop"))),
                   mod("_impl", 1, ops=flat(cls("Report", body=[fn("render")]))),
                   mod("views", 1, ops=flat(frm("", "shop", lvl=1), frm("shop", "Report"), cls("SalesReport", "Report"))),
                   mod("models", 1, ops=flat(frm("shop._impl", "Report"), cls("StoredReport", "Report")))],
                  "T3", idiom="package-with-module-of-its-own-name")
    # names read INSIDE a moved class (bases of a nested class, aliases in its body) still mean what they mean in the module
    # the class statement was written in - also when the re-exporting module binds the same name to something else
    yield project([mod("p", pkg=True, ops=[frm("_impl", "X", lvl=1), frm("other", "Helper", lvl=1)], all=["X"]),
                   mod("_impl", 1, ops=flat(cls("Helper", body=[fn("impl_h")]), fn("tool"),
                                            cls("X", body=flat(fn("f"), cls("In", "Helper"), alias("h", "Helper"), alias("t", "tool"))))),
                   mod("other", 1, ops=flat(cls("Helper", body=[fn("other_h")]))),
                   mod("use", 1, ops=flat(frm("p", "X"), cls("U", "X.In"), alias("uh", "X.h")))], "T3", idiom="names-inside-moved-class")
    # the same for a class moved TWICE (re-exported by its package, then by the package above): the module whose names the class
    # body reads is the one it was written in, not the one it left last
    yield project([mod("top", pkg=True, ops=flat(frm("mid._impl", "X", lvl=1), frm("other", "Helper", lvl=1), fn("tool")), all=["X"]),
                   mod("mid", 1, pkg=True, ops=flat(frm("_impl", "X", lvl=1), cls("Helper", body=[fn("mid_h")]), fn("tool")), all=["X"]),
                   mod("_impl", 2, ops=flat(cls("Helper", body=[fn("impl_h")]), fn("tool"),
                                            cls("X", body=flat(fn("f"), cls("In", "Helper"), alias("h", "Helper"), alias("t", "tool"))))),
                   mod("other", 1, ops=flat(cls("Helper", body=[fn("other_h")]))),
                   mod("use", 1, ops=flat(frm("top", "X"), cls("U", "X.In"), alias("uh", "X.h"), alias("ut", "X.t")))], "T3", idiom="names-inside-twice-moved-class")
    # what `from . import helper` means is decided by where the module is written, not by where it is documented
    yield project([mod("pkg", pkg=True, ops=[frm("_vendor", "codec", lvl=1)], all=["codec"]),
                   mod("helper", 1, ops=flat(fn("encode"), fn("outer_only"))),
                   mod("_vendor", 1, pkg=True),
                   mod("helper", 3, ops=flat(fn("encode"), fn("inner_only"))),
                   mod("codec", 3, ops=flat(frm("", "helper", lvl=1), frm("helper", "encode", lvl=1), frm("", "helper", "outer", lvl=2),
                                            cls("Codec", body=[alias("enc", "encode")]), alias("h", "helper.encode"), alias("o", "outer.encode"))),
                   mod("client", 1, ops=flat(frm("pkg", "codec"), alias("e", "codec.encode"), alias("he", "codec.helper.encode"),
                                             frm("pkg._vendor", "codec", "vcodec"), alias("ve", "vcodec.helper.encode")))],
                  "T3", idiom="moved-module-with-relative-imports")
    # the module that re-exports the class is itself re-exported by its package under another name
    yield project([mod("p", pkg=True, ops=[frm("", "mod", "module", lvl=1)], all=["module"]),
                   mod("mod", 1, ops=[frm("_impl", "X", lvl=1)], all=["X"]),
                   mod("_impl", 1, ops=flat(cls("X", body=[fn("m")]))),
                   mod("use", 1, ops=flat(frm("p._impl", "X"), cls("U", "X"), frm("p.mod", "X", "X2"), cls("V", "X2")))],
                  "T3", idiom="reexporter-renamed-by-its-package")
    # a function named like the module that defines it (glob.glob, copy.copy, pprint.pprint), re-exported with a second function:
    # the old qualified name of the second one (pkg.render.escape) now leads THROUGH the function pkg.render
    yield project([mod("pkg", pkg=True, ops=[frm("render", "escape", lvl=1), frm("render", "render", lvl=1)], all=["render", "escape"]),
                   mod("render", 1, ops=flat(fn("render"), fn("escape"))),
                   mod("consumer", 1, ops=flat(frm("pkg.render", "escape"), frm("pkg.render", "render"), frm("pkg", "render", "public"),
                                               alias("q", "escape"), alias("r", "render"), alias("pr", "public")))],
                  "T3", idiom="function-named-like-its-module")
    # a PACKAGE re-exported to another depth (top.a.b documented as top.b) before its modules are analysed: what `from .. import
    # util` means in them is decided by where they are written (top.a.util), not by where the package is documented (top.util)
    yield project([mod("top", pkg=True, ops=[frm("a", "b", lvl=1)], all=["b"]),
                   mod("a", 1, pkg=True),
                   mod("util", 2, ops=flat(fn("helper"), fn("only_inner"))),
                   mod("util", 1, ops=flat(fn("helper"), fn("only_outer"))),
                   mod("b", 2, pkg=True),
                   mod("m", 5, ops=flat(frm("", "util", lvl=2), frm("util", "helper", lvl=2), cls("K", body=[alias("h", "helper")]), alias("u", "util.helper"), alias("i", "util.only_inner")))],
                  "T3", idiom="package-moved-to-another-depth")
    # ... and the moved package HOLDS a package: its module (two levels below) is analysed where it is written too
    yield project([mod("top", pkg=True, ops=[frm("a", "b", lvl=1)], all=["b"]),
                   mod("a", 1, pkg=True),
                   mod("util", 2, ops=flat(fn("helper"), cls("Base"))),
                   mod("util", 1, ops=flat(fn("helper"), fn("only_outer"))),
                   mod("b", 2, pkg=True),
                   mod("c", 5, pkg=True),
                   mod("m", 6, ops=flat(frm("", "util", lvl=3), frm("util", "Base", lvl=3), cls("K", "Base"), alias("u", "util.helper")))],
                  "T3", idiom="package-holding-a-package-moved-to-another-depth")
    # the package imports the class through a module that only forwards it; the DEFINING module lists it in its own __all__
    # (the module the name is imported FROM has none): documented where the package exports it
    yield project([mod("p", pkg=True, ops=[frm("_compat", "X", lvl=1)], all=["X"]),
                   mod("_compat", 1, ops=[frm("_impl", "X", lvl=1)]),
                   mod("_impl", 1, ops=flat(cls("X", body=[fn("m")])), all=["X"]),
                   mod("use", 1, ops=flat(frm("p", "X"), cls("U", "X"), frm("p._impl", "X", "X2"), cls("V", "X2"), imp("p"), alias("y", "p.X.m")))],
                  "T3", idiom="forwarder-and-origin-all")
    # the re-export followed / preceded by an optional import of the same name from a module that is not there
    # (try: from ._speedups import X / except ImportError: pass): the member of the package is what the name denotes
    for order in ("after", "before"):
        real, opt = frm("_impl", "X", lvl=1), {**frm("_speedups", "X", lvl=1), "try": True}
        yield project([mod("p", pkg=True, ops=[real, opt] if order == "after" else [opt, real], all=["X"]),
                       mod("_impl", 1, ops=flat(cls("X", body=[fn("m")]))),
                       mod("use", 1, ops=flat(imp("p"), cls("D", "p.X"), frm("p", "X"), cls("E", "X"), alias("y", "p.X.m"), frm("p._impl", "X", "X2"), cls("V", "X2")))],
                      "T3", idiom="optional-speedup-" + order + "-the-reexport")
    # origin lists the name in its own __all__: no move
    yield project([mod("p", pkg=True, ops=[frm("_impl", "X", lvl=1)], all=["X"]),
                   mod("_impl", 1, ops=flat(cls("X")), all=["X"]),
                   mod("co", 1, ops=flat(frm("p", "X"), cls("D", "X")))], "T3", idiom="origin-all")


def t4_cycles() -> Iterator[Dict[str, Any]]:
    """T4: import cycles, bases through the cycle (second resolution pass)."""
    for late in (False, True):
        a_ops = flat(frm("b", "B", lvl=1), cls("A"), cls("A2", "B"))
        b_ops = flat(cls("B"), frm("a", "A", lvl=1), cls("B2", "A"))
        if late:
            a_ops = flat(cls("A"), frm("b", "B", lvl=1), cls("A2", "B"))
        yield project([mod("p", pkg=True), mod("a", 1, ops=a_ops), mod("b", 1, ops=b_ops)], "T4", late=late, cyclic=True)
    yield project([mod("p", pkg=True, ops=[frm("a", "A", lvl=1)]), mod("a", 1, ops=flat(frm("p", "helper"), cls("A"))),
                   mod("helper", 1, ops=flat(cls("H")))], "T4", pkgcycle=True, cyclic=True)
    # a star import of a module that is still being analysed (it imports the star-importer in the middle of its body), and another
    # star import of the same module once it is complete: what `import *` brings in is read each time, not remembered
    yield project([mod("p", pkg=True),
                   mod("errors", 1, ops=flat(cls("ProjError", "Exception", body=[fn("explain")]), frm("", "handlers", lvl=1),
                                              cls("ParseError", "ProjError", body=[fn("position")]))),
                   mod("handlers", 1, ops=flat(star("errors", lvl=1), cls("HandlerError", "ProjError"))),
                   mod("parser", 1, ops=flat(star("errors", lvl=1), cls("TokenError", "ParseError", body=[fn("explain")]), cls("Token")))],
                  "T4", starcycle=True, cyclic=True)
    # ... and the same with the names DEFINED AFTER the point of the cycle: which module is half-way depends on the schedule
    # (the interpreter raises NameError when the cycle is entered through m1)
    yield project([mod("p", pkg=True), mod("q", 1, pkg=True, ops=[frm("m2", "G", lvl=1)], all=["G"]),
                   mod("m0", 2, ops=flat(fn("helper"))),
                   mod("m1", 1, ops=flat(imp("p.q.m0", "z0"), cls("D", body=[fn("f")]))),
                   mod("m2", 2, ops=flat(star("p.m1"), cls("G", "D", body=[fn("g")])))], "T4", starcycle="late", cyclic=True)
    # a module that does not parse in the middle of a chain
    yield project([mod("p", pkg=True), mod("a", 1, ops=flat(cls("A"))), mod("bad", 1, broken=True),
                   mod("c", 1, ops=flat(frm("bad", "Nope", lvl=1), frm("a", "A", lvl=1), cls("C", "A", "Nope")))], "T4", broken=True)


def t5_duplicates() -> Iterator[Dict[str, Any]]:
    """T5: duplicate definitions, at every level, combined with moves (C02)."""
    yield project([mod("m", ops=flat(cls("C", body=[fn("f"), fn("f")]), cls("C", body=[fn("g")])))], "T5", shape="dup-child-then-dup-parent")
    yield project([mod("m", ops=flat(fn("f"), fn("f"), fn("f")))], "T5", shape="triple")
    yield project([mod("m", ops=flat(cls("C", body=flat(cls("I", body=[fn("f")]), cls("I")))))], "T5", shape="nested-class-dup")
    yield project([mod("m", ops=flat(var("x"), fn("x"), cls("x")))], "T5", shape="var-func-class")
    # a class re-exported onto the name of the module that defines it, and a function named like its method
    yield project([mod("rc", pkg=True, ops=[frm("rc", "rc", lvl=1), frm("rc", "rf", lvl=1)], all=["rc", "rf"]),
                   mod("rc", 1, ops=flat(cls("rc", body=[fn("rf")]), fn("rf")))], "T5", shape="move-onto-own-module-name")
    yield project([mod("m", ops=flat(cls("Outer", body=flat(cls("Inner", body=[fn("f"), fn("f")]), cls("Inner"))), cls("Outer")))],
                  "T5", shape="dup-in-dup-then-dup-outer")
    yield project([mod("p", pkg=True, ops=[frm("_impl", "Outer", lvl=1)], all=["Outer"]),
                   mod("_impl", 1, ops=flat(cls("Outer", body=flat(cls("Inner", body=[fn("f"), fn("f")]), cls("Inner")))))],
                  "T5", shape="dup-in-dup-then-move")
    # a re-exported class is defined again in the importing module: the moved class is superseded with all its members
    yield project([mod("p", pkg=True, ops=flat(frm("_impl", "X", lvl=1), cls("X", body=[fn("h")])), all=["X"]),
                   mod("_impl", 1, ops=flat(cls("X", body=flat(fn("run"), cls("In", body=[fn("deep")])))))], "T5", shape="move-then-redefine")
    # the same name imported twice by the re-exporter (explicitly, then by a star import): the second handling is a move onto itself
    yield project([mod("p", pkg=True, ops=flat(frm("_impl", "X", lvl=1), star("_impl", lvl=1)), all=["X", "helper"]),
                   mod("_impl", 1, ops=flat(cls("X", body=[fn("meth")]), fn("helper"))),
                   mod("zuser", 1, ops=flat(frm("p", "X"), cls("Sub", "X")))], "T5", shape="move-same-name-twice")
    # three (four) definitions of one name with the analysis of ANOTHER module nested between them (an import of a module not
    # analysed yet, a module that itself has duplicates): the numbering of the superseded definitions belongs to the registry
    for how in ("from", "import", "star"):
        between = {"from": frm("zz", "Z", lvl=1), "import": imp("p.zz"), "star": star("zz", lvl=1)}[how]
        yield project([mod("p", pkg=True), mod("h", 1, ops=flat(cls("H", body=[fn("close"), fn("only1")]), cls("H", body=[fn("close"), fn("w")]), between,
                                                                 cls("H", body=[fn("close")]), fn("g"), fn("g"), between, fn("g"))),
                       mod("zz", 1, ops=flat(cls("Z"), fn("g"), fn("g"), cls("H"), cls("H")))], "T5", shape="triple-with-nested-analysis", how=how)
    yield project([mod("p", pkg=True), mod("h", 1, ops=flat(cls("K", body=flat(fn("m"), fn("m"), frm("zz", "Z", lvl=1), fn("m"), fn("m"))))),
                   mod("zz", 1, ops=flat(cls("Z", body=[fn("m"), fn("m")])))], "T5", shape="triple-member-with-nested-analysis")
    for form in ("plain", "star"):
        imp_ops = [frm("_impl", "X", lvl=1)] if form == "plain" else [star("_impl", lvl=1)]
        yield project([mod("p", pkg=True, ops=imp_ops, all=["X"]),
                       mod("_impl", 1, ops=flat(cls("X", body=[fn("f"), fn("f")])))], "T5", shape="move-with-dup-member", form=form)
        yield project([mod("p", pkg=True, ops=imp_ops, all=["X"]),
                       mod("_impl", 1, ops=flat(cls("X"), cls("X", body=[fn("g")])))], "T5", shape="move-of-dup", form=form)
        yield project([mod("p", pkg=True, ops=flat(cls("X"), imp_ops), all=["X"]),
                       mod("_impl", 1, ops=flat(cls("X", body=[fn("g")])))], "T5", shape="move-onto-resident", form=form)
        yield project([mod("p", pkg=True, ops=flat(cls("X", body=flat(fn("h"), cls("In", body=[fn("deep")]))), imp_ops), all=["X"]),
                       mod("_impl", 1, ops=flat(cls("X", body=[fn("g")])))], "T5", shape="move-onto-resident-with-members", form=form)


def t6_nested_packages() -> Iterator[Dict[str, Any]]:
    """T6: nested packages, relative imports of every level, classes in class scope."""
    for form in ("dd_mod", "dd_pkg", "abs", "d_sub"):
        ops = {"dd_mod": flat(frm("a", "A", lvl=2), cls("S", "A")),
               "dd_pkg": flat(frm("", "a", lvl=2), cls("S", "a.A")),
               "abs": flat(frm("p.a", "A"), cls("S", "A")),
               "d_sub": flat(frm("", "t", lvl=1), cls("S", "t.T"))}[form]
        yield project([mod("p", pkg=True), mod("a", 1, ops=flat(cls("A", body=flat(cls("In"))))),
                       mod("q", 1, pkg=True, ops=flat(frm("t", "T", lvl=1))), mod("s", 3, ops=ops),
                       mod("t", 3, ops=flat(cls("T")))], "T6", form=form)
    # class-scope imports and nested classes as bases
    yield project([mod("p", pkg=True), mod("a", 1, ops=flat(cls("A", body=flat(cls("In"))))),
                   mod("b", 1, ops=flat(cls("Outer", body=flat(frm("a", "A", lvl=1), cls("I2", "A"), cls("I3", "A.In"))),
                                        frm("a", "A", "AA", lvl=1), cls("B", "AA.In"), alias("Al", "AA.In"), cls("B2", "Al")))],
                  "T6", form="class-scope")
    # two roots
    yield project([mod("r1", pkg=True), mod("x", 1, ops=flat(cls("X"))),
                   mod("r2", pkg=True), mod("y", 3, ops=flat(frm("r1.x", "X"), cls("Y", "X")))], "T6", form="two-roots")


def t7_moved_class_with_moved_base() -> Iterator[Dict[str, Any]]:
    """T7: a class that is itself re-exported and whose base (named through the defining module) was re-exported
       by another module: the second base-resolution pass must not depend on where the class lives now."""
    for form in ("plain", "star"):
        imp_a = [frm("p.m0", "A")] if form == "plain" else [star("p.m0")]
        yield project([mod("p", pkg=True), mod("m0", 1, ops=flat(cls("A"))),
                       mod("m1", 1, ops=flat(frm("p.m0", "A", "RA"), cls("C", "RA"))),
                       mod("m2", 1, ops=imp_a, all=["A"]),
                       mod("m3", 1, ops=[frm("p.m1", "C", "RC")], all=["RC"])], "T7", form=form)




def all_projects(quick: bool) -> List[Dict[str, Any]]:
    out: List[Dict[str, Any]] = []
    for f in family_list():
        ps = list(f())
        if quick and f is t1_base_chains:
            ps = ps[::3]
        out.extend(ps)
    return out + rnd2_corpus(quick)


def rnd2_corpus(quick: bool, max_sched: int = 24) -> List[Dict[str, Any]]:
    """A fixed corpus of second-generation random projects (the seeds are constants: the corpus is the same in every run)."""
    out = []
    for seed in range(60 if quick else 600):
        p = random_project2(random.Random(1000 + seed))
        p["meta"]["rnd2_seed"] = 1000 + seed
        out.append(p)
    from . import projects as P
    return [p for p in out if len(P.schedules(p)) <= (max_sched if quick else 120)]


# ------------------------------------------------------------------------------- random projects (thorough)

def random_project(rng: random.Random, nmods: int = 5) -> Dict[str, Any]:
    """A random acyclic-by-default project over one package with sub-package; definitions have unique names."""
    mods: List[Dict[str, Any]] = [mod("p", pkg=True)]
    defs: List[tuple] = []      # (module index, class name)
    names = iter("ABCDEFGHJKLMN")
    with_sub = rng.random() < 0.4
    if with_sub:
        mods.append(mod("q", 1, pkg=True))
    for i in range(nmods):
        par = 2 if with_sub and rng.random() < 0.4 else 1
        name = "m%d" % i
        ops: List[Any] = []
        local: List[str] = []
        for _ in range(rng.randint(0, 2)):
            if defs and rng.random() < 0.8:
                mi, cn = rng.choice(defs)
                tgt = mods[mi - 1]
                path = ".".join(_path(mods, mi))
                form = rng.choice(["from", "from_as", "import", "star"])
                if form == "from":
                    ops.append(frm(path, cn)); local.append(cn)
                elif form == "from_as":
                    ops.append(frm(path, cn, "R" + cn)); local.append("R" + cn)
                elif form == "import":
                    ops.append(imp(path)); local.append(path + "." + cn)
                else:
                    ops.append(star(path)); local.append(cn)
        for _ in range(rng.randint(1, 2)):
            cn = next(names)
            bases = rng.sample(local, k=min(len(local), rng.randint(0, 2)))
            ops.extend(cls(cn, *bases, body=[fn("f")] if rng.random() < 0.3 else []))
            local.append(cn)
            defs.append((len(mods) + 1, cn))
        has_all = rng.random() < 0.3
        allv = [x for x in local if "." not in x and rng.random() < 0.7] if has_all else None
        mods.append(mod(name, par, ops=ops, all=allv))
    return project(mods, "RND")


def _path(mods: List[Dict[str, Any]], i: int) -> List[str]:
    m = mods[i - 1]
    return (_path(mods, m["par"]) if m["par"] else []) + [m["name"]]


# ------------------------------------------------------------------------------------ C04 family

C04_FORMS = {
    # name -> (ops builder given consumer level info, local dotted name of class A afterwards)
    "import_abs": lambda nested: ([imp("p.a")], "p.a.A"),
    "import_as": lambda nested: ([imp("p.a", "x")], "x.A"),
    "from_pkg_abs": lambda nested: ([frm("p", "a")], "a.A"),
    "from_pkg_rel": lambda nested: ([frm("", "a", lvl=2 if nested else 1)], "a.A"),
    "from_mod_rel": lambda nested: ([frm("a", "A", lvl=2 if nested else 1)], "A"),
    "from_mod_rel_as": lambda nested: ([frm("a", "A", "Y", lvl=2 if nested else 1)], "Y"),
    "from_mod_abs": lambda nested: ([frm("p.a", "A")], "A"),
    "star": lambda nested: ([star("a", lvl=2 if nested else 1)], "A"),
    "from_mod_func": lambda nested: ([frm("p.a", "f", "g")], None),
    "from_sub": lambda nested: ([frm("p.q.t", "T")], None),
    "import_sub_as": lambda nested: ([imp("p.q.t", "tt")], None),
    "from_subpkg": lambda nested: ([frm("p.q", "t")], None),
}


def t_c04() -> Iterator[Dict[str, Any]]:
    """Acyclic projects, globally unique definition names, one binding per name per scope; every import form,
       at module scope and inside a class body, from a sibling module and from a module of a sub-package."""
    names = list(C04_FORMS)
    for nested in (False, True):
        for scope in ("module", "class"):
            for f1, f2 in itertools.combinations(names, 2):
                o1, loc1 = C04_FORMS[f1](nested)
                o2, loc2 = C04_FORMS[f2](nested)
                bound = [o.get("as") or (o["m"][0] if o["k"] == "import" else None) for o in o1 + o2]
                if len(set(bound)) != len(bound) and None not in bound:
                    continue
                if f1 == "star" or f2 == "star":
                    # a star import binds A, In..., so an explicit binding of A would be a second binding
                    if any(x in ("from_mod_rel", "from_mod_abs") for x in (f1, f2)):
                        continue
                loc = loc1 or loc2
                body: List[Any] = list(o1) + list(o2)
                if loc:
                    body += cls("Sub", loc) + [alias("al", loc)] + ([alias("inn", loc + ".In")])
                ops = flat(cls("K", body=body)) if scope == "class" else flat(body)
                mods = [mod("p", pkg=True),
                        mod("a", 1, ops=flat(cls("A", body=flat(cls("In"), fn("meth"))), fn("f"), var("v")),
                            all=None),
                        mod("q", 1, pkg=True), mod("t", 3, ops=flat(cls("T")))]
                mods.append(mod("c", 3 if nested else 1, ops=ops))
                yield project(mods, "C04", nested=nested, scope=scope, forms=[f1, f2])
    # star import honouring __all__ (hidden names must not be bound)
    yield project([mod("p", pkg=True), mod("a", 1, ops=flat(cls("A"), cls("B2"), fn("f")), all=["A"]),
                   mod("c", 1, ops=flat(star("a", lvl=1), cls("Sub", "A")))], "C04", star_all=True)
    # __all__ listing underscore names: a star import binds every listed name, private-looking or not
    yield project([mod("p", pkg=True),
                   mod("core", 1, ops=flat(cls("_Backend", body=[fn("open")]), fn("_helper"), cls("Public"), cls("_Unlisted")), all=["_Backend", "_helper", "Public"]),
                   mod("compat", 1, ops=flat(cls("_Backend", body=[fn("open")]))),
                   mod("use1", 1, ops=flat(star("core", lvl=1), cls("S1", "_Backend"), alias("h", "_helper"))),
                   mod("use2", 1, ops=flat(frm("compat", "_Backend", lvl=1), star("core", lvl=1), cls("S2", "_Backend"), alias("o", "_Backend.open")))],
                  "C04", star_all_private=True)
    # chains of re-imports (pydoctor may leave them unresolved, never resolve them wrongly)
    yield project([mod("p", pkg=True, ops=[frm("a", "A", lvl=1)]), mod("a", 1, ops=flat(cls("A"))),
                   mod("c", 1, ops=flat(frm("p", "A"), cls("Sub", "A"))),
                   mod("d", 1, ops=flat(frm("c", "A", "Z", lvl=1), cls("Sub2", "Z")))], "C04", chain=True)


def t_c04_pkginit() -> Iterator[Dict[str, Any]]:
    """The consumer is a package's own __init__ (relative levels count from the package itself), module and class scope."""
    for scope in ("module", "class"):
        for form in ("dd_mod", "d_mod", "d_pkg", "dd_pkg"):
            body = {"dd_mod": flat(frm("a", "A", lvl=2), cls("Sub", "A")),
                    "d_mod": flat(frm("t", "T", lvl=1), cls("Sub", "T")),
                    "d_pkg": flat(frm("", "t", lvl=1), cls("Sub", "t.T")),
                    "dd_pkg": flat(frm("", "a", lvl=2), cls("Sub", "a.A"))}[form]
            ops = flat(cls("K", body=body)) if scope == "class" else body
            yield project([mod("p", pkg=True), mod("a", 1, ops=flat(cls("A"))),
                           mod("q", 1, pkg=True, ops=ops), mod("t", 3, ops=flat(cls("T")))], "C04", pkginit=form, scope=scope)


def t_c04_class_members() -> Iterator[Dict[str, Any]]:
    """Names reached through a class: members inherited along the MRO (diamond: depth-first order differs from C3),
       used as base classes and aliases in the same module and from another module."""
    diamond = flat(cls("Root", body=flat(cls("Inner"), fn("m"))), cls("L", "Root"),
                   cls("R", "Root", body=flat(cls("Inner"), fn("m"))), cls("D", "L", "R"))
    for where in ("same", "other"):
        use = flat(cls("E", "D.Inner"), alias("al", "D.m"), alias("inner", "D.Inner"))
        if where == "same":
            yield project([mod("p", pkg=True), mod("a", 1, ops=flat(diamond, use))], "C04", members="diamond", where=where)
        else:
            yield project([mod("p", pkg=True), mod("a", 1, ops=diamond),
                           mod("b", 1, ops=flat(frm("a", "D", lvl=1), use))], "C04", members="diamond", where=where)
    # a member inherited through a class while the module has a top-level object of the same name: attribute access on a class
    # does not see the module's globals
    shadow = flat(cls("Inner", body=[fn("top")]), fn("m"), cls("OuterA", body=flat(cls("Inner", body=[fn("nested")]), fn("m"))), cls("OuterB", "OuterA"))
    for where in ("same", "other"):
        use = flat(cls("K", "OuterB.Inner"), alias("am", "OuterB.m"), alias("ai", "OuterB.Inner"))
        if where == "same":
            yield project([mod("p", pkg=True), mod("a", 1, ops=flat(shadow, use))], "C04", members="module-level-namesake", where=where)
        else:
            yield project([mod("p", pkg=True), mod("a", 1, ops=shadow), mod("b", 1, ops=flat(frm("a", "OuterB", lvl=1), cls("Inner"), use))],
                          "C04", members="module-level-namesake", where=where)
    # a name read in the body of a NESTED class: Python looks in that class, then in the module - never in the enclosing class
    yield project([mod("p", pkg=True), mod("a", 1, ops=flat(cls("name", body=[fn("modlevel")]), fn("tool"),
                                                            cls("Outer", body=flat(cls("name", body=[fn("inouter")]), fn("tool"),
                                                                                   cls("Inner", body=flat(alias("al", "name"), alias("t", "tool"), cls("K", "name")))))))],
                  "C04", members="nested-class-scope")
    # what the class BODY binds by an alias or an import comes before what the bases define (also through a subclass)
    origin = mod("o", 1, ops=flat(cls("Thing", body=[fn("t")]), fn("helper"), cls("Codec", body=[fn("enc")])))
    shadowed = flat(imp("p.o"), cls("Base", body=flat(fn("build"), fn("helper"), cls("Codec", body=[fn("base_enc")]), fn("kept"))),
                    cls("C", "Base", body=flat(alias("build", "p.o.Thing"), frm("o", "helper", lvl=1), alias("Codec", "p.o.Codec"))),
                    cls("E", "C"))
    for where in ("same", "other"):
        use = flat(cls("U1", "C.build"), cls("U2", "C.Codec"), alias("h", "C.helper"), alias("k", "C.kept"), cls("U3", "C.Codec"), alias("enc", "C.Codec.enc"))
        if where == "same":
            yield project([mod("p", pkg=True), origin, mod("m", 1, ops=flat(shadowed, use))], "C04", members="class-body-binding-shadows-inherited", where=where)
        else:
            yield project([mod("p", pkg=True), origin, mod("m", 1, ops=shadowed), mod("u", 1, ops=flat(frm("m", "C", lvl=1), use))],
                          "C04", members="class-body-binding-shadows-inherited", where=where)
    # a member looked up DURING analysis (an alias `go = Job.run`) through a class whose grand-base has been moved by a re-export
    # analysed before (or after) the module that names its old location: multiple inheritance, the member exists on both sides
    yield project([mod("impl", ops=flat(cls("Fast", body=[fn("run")]))),
                   mod("api", ops=[frm("impl", "Fast")], all=["Fast"]),
                   mod("app", ops=flat(frm("impl", "Fast"), cls("Slow", body=[fn("run")]), cls("Mid", "Fast"), cls("Job", "Mid", "Slow"),
                                       alias("go", "Job.run"), cls("Direct", "Fast", "Slow"), alias("direct", "Direct.run"))),
                   mod("user", ops=flat(frm("app", "go", "started"), imp("app"), alias("again", "app.go")))],
                  "C04", members="moved-grand-base-multiple-inheritance")
    chain = flat(cls("Base", body=flat(cls("In"), var("v"))), cls("Mid", "Base"), cls("Leaf", "Mid"))
    yield project([mod("p", pkg=True), mod("a", 1, ops=chain), mod("b", 1, ops=flat(frm("a", "Leaf", lvl=1), cls("X", "Leaf.In"), alias("vv", "Leaf.v")))],
                  "C04", members="chain")


def t10_double_reexport() -> Iterator[Dict[str, Any]]:
    """T10: one class re-exported by TWO modules (outside 'objects re-exported by a single module': its location may
       depend on the order) and a consumer naming the defining module."""
    yield project([mod("p", pkg=True), mod("m0", 1, ops=flat(cls("A", body=flat(fn("run"), cls("In", body=[fn("deep")]))))),
                   mod("m1", 1, ops=[frm("p.m0", "A")], all=["A"]), mod("m2", 1, ops=[frm("p.m0", "A")], all=["A"]),
                   mod("m3", 1, ops=flat(frm("p.m0", "A", "RA"), cls("F", "RA"), cls("G", "F")))], "T10")


def family_list() -> List[Any]:
    return [t1_base_chains, t1_exceptions, t2_star, t3_reexport, t4_cycles, t5_duplicates, t6_nested_packages,
            t7_moved_class_with_moved_base, t8_prefix_roots, t9_reexport_while_origin_processing, t10_double_reexport,
            t12_instance_variable_kind, t13_attribute_docstring_after_import,
            t11_cycle_rename_and_consumer_first, t14_two_roots_facade, t16_type_checking_cycle, t17_how_all_is_written]


def t17_how_all_is_written() -> Iterator[Dict[str, Any]]:
    """T17: the ways a module spells its __all__ (projects.ALL_FORMS): one list or tuple literal (at the top or at the end),
       two assignments, a literal extended by `+=` / .extend() / .append(), a concatenation, an assignment nested in an `if`.
       What __all__ IS when the module is imported is the same in every form: two re-exported classes (the second one stands
       in the second part of the split forms), and a star-imported library module whose __all__ leaves a public name out."""
    from .projects import ALL_FORMS
    for form in ALL_FORMS:
        if form == "literal":
            continue                    # every other family writes it that way
        yield project([mod("p", pkg=True, ops=[frm("_impl", "X", lvl=1), frm("_impl", "Y", lvl=1)], all=["X", "Y"], allform=form),
                       mod("_impl", 1, ops=flat(cls("X", body=[fn("meth")]), cls("Y", body=[fn("other")]))),
                       mod("co", 1, ops=flat(frm("p._impl", "X", "A1"), frm("p._impl", "Y", "A2"), cls("D", "A1"), cls("E", "A2"))),
                       mod("cs", 1, ops=flat(star("p"), cls("F", "X"), cls("G", "Y")))], "T17", allform=form, shape="reexport")
        yield project([mod("p", pkg=True),
                       mod("lib", 1, ops=flat(cls("A"), cls("B"), cls("C", body=[fn("lib_c")])), all=["A", "B"], allform=form),
                       mod("other", 1, ops=flat(cls("C", body=[fn("other_c")]))),
                       mod("use", 1, ops=flat(frm("other", "C", lvl=1), star("lib", lvl=1), cls("K", "C"), cls("L", "A"), cls("M", "B")))],
                      "T17", allform=form, shape="star-origin")


def t12_instance_variable_kind() -> Iterator[Dict[str, Any]]:
    """T12: a class variable re-declared below an inherited instance variable becomes an instance variable; the three
       levels live in sibling modules and the lower ones name their base without forcing its module to be analysed."""
    from .projects import ivar, cvar
    for form in ("import_abs", "from_rel"):
        b1 = ([imp("p.top")], "p.top.Top") if form == "import_abs" else ([frm("top", "Top", lvl=1)], "Top")
        b2 = ([imp("p.mid")], "p.mid.Stuff") if form == "import_abs" else ([frm("mid", "Stuff", lvl=1)], "Stuff")
        yield project([mod("p", pkg=True), mod("top", 1, ops=flat(cls("Top", body=[ivar("var")]))),
                       mod("mid", 1, ops=flat(b1[0], cls("Stuff", b1[1], body=[cvar("var")]))),
                       mod("bot", 1, ops=flat(b2[0], cls("Gadget", b2[1], body=[cvar("var")])))], "T12", form=form)
    # the middle class is re-exported by a sibling analysed after the bottom module (re-inserted at the end of the registry)
    yield project([mod("p", pkg=True), mod("top", 1, ops=flat(cls("Top", body=[ivar("var")]))),
                   mod("mid", 1, ops=flat(frm("top", "Top", lvl=1), cls("Stuff", "Top", body=[cvar("var")]))),
                   mod("bot", 1, ops=flat(frm("mid", "Stuff", lvl=1), cls("Gadget", "Stuff", body=[cvar("var")]))),
                   mod("zapi", 1, ops=[frm("mid", "Stuff", lvl=1)], all=["Stuff"])], "T12", form="reexported-middle")


def t13_attribute_docstring_after_import() -> Iterator[Dict[str, Any]]:
    """T13: a bare string right after an import that may or may not trigger on-demand analysis of a sibling; it documents
       nothing (it follows an import), and the sibling's last variable must not receive it."""
    from .projects import strdoc
    yield project([mod("p", pkg=True), mod("client", 1, ops=flat(var("RETRIES"), frm("settings", "TIMEOUT", lvl=1), strdoc(1))),
                   mod("settings", 1, ops=flat(var("TIMEOUT"), {**var("VERSION"), "nodoc": True}))], "T13")


def t11_cycle_rename_and_consumer_first() -> Iterator[Dict[str, Any]]:
    """T11: _impl and _sub import each other (valid Python), Foo is re-exported renamed (Foo as Bar) and Sub(Foo) is
       re-exported too; a module analysed before / after the package imports straight from the defining module."""
    for cname in ("app", "zapp"):
        yield project([mod("root", pkg=True),
                       mod("pkg", 1, pkg=True, ops=[frm("_impl", "Foo", "Bar", lvl=1), frm("_sub", "Sub", lvl=1)], all=["Bar", "Sub"]),
                       mod("_impl", 2, ops=flat(frm("_sub", "helper", lvl=1), cls("Foo", body=[fn("meth")]))),
                       mod("_sub", 2, ops=flat(fn("helper"), frm("_impl", "Foo", lvl=1), cls("Sub", "Foo"))),
                       mod(cname, 1, ops=flat(frm("root.pkg._impl", "Foo"), cls("User", "Foo")))], "T11", consumer=cname, cyclic=True)


def t14_two_roots_facade() -> Iterator[Dict[str, Any]]:
    """T14: root `core` uses shapes.Shape through a module alias in its own __init__ before another root `facade`
       re-exports core.shapes.Shape; later consumers import it from the defining module."""
    yield project([mod("core", pkg=True, ops=flat(frm("", "shapes", lvl=1), cls("DefaultShape", "shapes.Shape"))),
                   mod("shapes", 1, ops=flat(cls("Shape", body=[fn("area")]))),
                   mod("user", 1, ops=flat(frm("core.shapes", "Shape"), cls("Circle", "Shape"), frm("", "shapes", "sh", lvl=1), cls("Sq", "sh.Shape"))),
                   mod("facade", pkg=True, ops=[frm("core.shapes", "Shape")], all=["Shape"]),
                   mod("extra", 4, ops=flat(frm("core.shapes", "Shape"), cls("Tri", "Shape")))], "T14")


def t15_rebinding() -> Iterator[Dict[str, Any]]:
    """T15: a name bound twice in one module - imported then defined (class W(W)), defined then imported, imported then
       re-assigned through an alias, two imports, variable and import, a class attribute named like a module-level
       function - seen from inside the module, through `from .w import name`, through a module alias, and with the
       package re-exporting the name.  Python: the last binding wins."""
    shapes = {
        "import-then-class": ("W", flat(frm("b", "W", lvl=1), cls("W", "W", body=[fn("extra")]))),
        "class-then-import": ("W", flat(cls("W", body=[fn("extra")]), frm("b", "W", lvl=1))),
        "import-then-alias": ("enc", flat(frm("b", "enc", lvl=1), frm("o", "enc", "_py", lvl=1), alias("enc", "_py"))),
        "alias-then-import": ("enc", flat(frm("o", "enc", "_py", lvl=1), alias("enc", "_py"), frm("b", "enc", lvl=1))),
        "two-imports": ("W", flat(frm("b", "W", lvl=1), frm("o", "W", lvl=1))),
        "var-then-import": ("W", flat(var("W"), frm("b", "W", lvl=1))),
        "import-then-var": ("W", flat(frm("b", "W", lvl=1), var("W"))),
        "import-then-def": ("enc", flat(frm("b", "enc", lvl=1), fn("enc"))),
        "def-then-import": ("enc", flat(fn("enc"), frm("b", "enc", lvl=1))),
        "class-attr-like-module-function": ("dec", flat(fn("dec"), cls("Codec", body=[alias("dec", "dec")]))),
    }
    for shape, (name, ops) in shapes.items():
        for reexport in (False, True):
            init = mod("p", pkg=True, ops=[frm("w", name, lvl=1)], all=[name]) if reexport else mod("p", pkg=True)
            use = flat(frm("w", name, "X", lvl=1), imp("p.w", "m"), alias("y", "m." + name))
            if name == "W":
                use += cls("D", "X")
            second = [mod("o", 1, ops=flat(cls("W", body=[fn("paint")]), fn("enc")))] if any(o.get("m") == ["o"] for o in ops) else []
            yield project([init, mod("b", 1, ops=flat(cls("W", body=[fn("draw")]), fn("enc")))] + second
                          + [mod("w", 1, ops=ops), mod("c", 1, ops=use)], "T15", shape=shape, reexport=reexport)
            if not reexport:
                # the same module seen through `from .w import *` (alone, and after a star import of the module w imports from)
                suse = flat(star("w", lvl=1), alias("y", name)) + (cls("D", name) if name == "W" else [])
                suse2 = flat(star("b", lvl=1), star("w", lvl=1), alias("y", name)) + (cls("D", name) if name == "W" else [])
                yield project([init, mod("b", 1, ops=flat(cls("W", body=[fn("draw")]), fn("enc")))] + second
                              + [mod("w", 1, ops=ops), mod("s", 1, ops=suse), mod("s2", 1, ops=suse2)], "T15", shape=shape, reexport=False, star=True)
    # the package itself binds the name first (a pure-Python fallback class, a placeholder variable, an earlier re-export) and
    # then re-exports the real thing under the same name: the last binding wins, for the package and for everybody importing it
    firsts = {"class": flat(cls("W", body=[fn("fallback")])), "var": flat(var("W")), "reexport": [frm("a", "W", lvl=1)], "same-twice": [frm("b", "W", lvl=1)]}
    for first, fops in firsts.items():
        for second in ("from", "star"):
            sops = [frm("b", "W", lvl=1)] if second == "from" else [star("b", lvl=1)]
            yield project([mod("p", pkg=True, ops=flat(fops, sops), all=["W"]),
                           mod("a", 1, ops=flat(cls("W", body=[fn("draw_a")]))),
                           mod("b", 1, ops=flat(cls("W", body=[fn("draw")]))),
                           mod("c", 1, ops=flat(frm("p", "W", "X"), imp("p", "m"), alias("y", "m.W"), cls("D", "X"), frm("p.b", "W", "Fast"), cls("E", "Fast")))],
                          "T15", shape="bound-then-reexported", first=first, second=second)
    # a package that star-imports a fallback, then the real module, which imports a sibling half way through its body; another
    # module, analysed before the package, reaches the real module / the sibling first: with a plain import, with a from-import
    for first in ("import", "from", "sibling"):
        head = {"import": [imp("top.lib.core")], "from": [frm("top.lib.core", "Late", "L0")], "sibling": [imp("top.lib._util")]}[first]
        yield project([mod("top", pkg=True),
                       mod("app", 1, ops=flat(head, frm("top.lib", "Late", "L"), frm("top.lib", "tool", "t"), cls("A", "L"))),
                       mod("lib", 1, pkg=True, ops=[star("_fallback", lvl=1), star("core", lvl=1)]),
                       mod("_fallback", 3, ops=flat(cls("Late", body=[fn("fb")]), fn("tool"))),
                       mod("_util", 3, ops=flat(fn("helper"))),
                       mod("core", 3, ops=flat(cls("Early"), frm("", "_util", lvl=1), cls("Late", "Early", body=[fn("real")]), fn("tool")))],
                      "T15", shape="fallback-then-real", first=first)


def t16_type_checking_cycle() -> Iterator[Dict[str, Any]]:
    """T16: an import cycle that exists for the type checker only (`if TYPE_CHECKING: from ._ext import D` at the top of the
       defining module): pydoctor analyses the guarded import, so the subclass module is visited BEFORE the class it derives from
       exists and before the package re-exports it; the subclass has a class-level assignment (a lookup through its bases while
       the modules are still analysed)."""
    for via in ("package", "origin"):
        src = frm("p", "X") if via == "package" else frm("p._core", "X")
        yield project([mod("p", pkg=True, ops=[frm("_core", "X", lvl=1)], all=["X"]),
                       mod("_core", 1, ops=flat({**frm("_ext", "D", lvl=1), "tc": True}, cls("X", body=[fn("spawn")]))),
                       mod("_ext", 1, ops=flat(src, cls("D", "X", body=[var("level")]), cls("E", "D", body=[var("more")])))],
                      "T16", via=via, cyclic=True)


def t_c04_cycles() -> Iterator[Dict[str, Any]]:
    """C04 with import cycles: what a name denotes depends on the module imported first; `entries` lists every order in which
       the project can be imported (PyBind evaluates each, those in which the interpreter raises are discarded)."""
    def with_entries(p: Dict[str, Any]) -> Dict[str, Any]:
        n = len(p["mods"])
        perms = [list(x) for x in itertools.permutations(range(1, n + 1))] if n <= 4 else \
                [list(range(k, n + 1)) + list(range(1, k)) for k in range(1, n + 1)] + [list(range(n, 0, -1))]
        p["entries"] = perms
        return p
    # a star import of a module that is still being executed copies the names bound SO FAR
    yield with_entries(project([mod("shapes", pkg=True),
                                mod("base", 1, ops=flat(cls("Shape"), frm("", "registry", lvl=1), cls("Polygon", "Shape"), fn("area"))),
                                mod("registry", 1, ops=flat(star("base", lvl=1))),
                                mod("draw", 1, ops=flat(star("base", lvl=1), cls("Square", "Polygon")))], "C04c", shape="star-of-partial-module", cyclic=True))
    yield with_entries(project([mod("shapes", pkg=True),
                                mod("base", 1, ops=flat(cls("Shape"), frm("", "registry", lvl=1), cls("Polygon", "Shape"))),
                                mod("legacy", 1, ops=flat(cls("Polygon"))),
                                mod("registry", 1, ops=flat(star("base", lvl=1))),
                                mod("migrate", 1, ops=flat(frm("legacy", "Polygon", lvl=1), star("base", lvl=1), cls("New", "Polygon")))],
                               "C04c", shape="star-overrides-earlier-import", cyclic=True))
    # the classic two-module cycle, late and early imports
    for late in (False, True):
        a_ops = flat(cls("A"), frm("b", "B", lvl=1), cls("A2", "B")) if late else flat(frm("b", "B", lvl=1), cls("A"), cls("A2", "B"))
        yield with_entries(project([mod("p", pkg=True), mod("a", 1, ops=a_ops), mod("b", 1, ops=flat(cls("B"), frm("a", "A", lvl=1), cls("B2", "A"))),
                                    mod("u", 1, ops=flat(frm("a", "A2", lvl=1), frm("b", "B2", lvl=1), cls("U", "A2", "B2")))], "C04c", shape="two-module-cycle", late=late, cyclic=True))
    # a base that can only be resolved once the cycle is closed, and whose NAME is bound to something else further down: the base
    # is what the name denoted when the class statement ran (by an import, by a class statement, by an alias; in a package too)
    for how in ("import", "class", "alias"):
        later = {"import": [frm("c", "Base")], "class": cls("Base", body=[fn("own")]), "alias": [alias("Base", "c.Base")]}[how]
        pre = [imp("c")] if how == "alias" else []
        yield with_entries(project([mod("a", ops=flat(imp("b"), cls("Base", body=[fn("x"), fn("only_in_a")]))),
                                    mod("b", ops=flat(pre, frm("a", "Base"), cls("D", "Base"), later, cls("E", "Base"))),
                                    mod("c", ops=flat(cls("Base", body=[fn("x")])))], "C04c", shape="cycle-then-rebound", how=how, cyclic=True))
    yield with_entries(project([mod("p", pkg=True), mod("a", 1, ops=flat(frm("", "b", lvl=1), cls("Base", body=[fn("x")]))),
                                mod("b", 1, ops=flat(frm("a", "Base", lvl=1), cls("D", "Base"), frm("c", "Base", lvl=1), cls("E", "Base"))),
                                mod("c", 1, ops=flat(cls("Base", body=[fn("y")])))], "C04c", shape="cycle-then-rebound", how="import-in-package", cyclic=True))
    # module objects exchanged in a cycle (always importable): attribute access happens later, in class bases of a third module
    yield with_entries(project([mod("p", pkg=True), mod("a", 1, ops=flat(frm("", "b", lvl=1), cls("A"))), mod("b", 1, ops=flat(frm("", "a", lvl=1), cls("B"))),
                                mod("u", 1, ops=flat(frm("", "a", lvl=1), frm("", "b", lvl=1), cls("U", "a.A", "b.B"), cls("V", "a.b.B", "b.a.A")))], "C04c", shape="module-cycle", cyclic=True))


# ------------------------------------------------------------------------------- random projects, second generation

def random_project2(rng: random.Random) -> Dict[str, Any]:
    """RND2: a random project that Python can import (every import names a module defined EARLIER in the list), mixing what
       the template families vary one at a time: nested packages, a second root, every import form, module aliases, class-scope
       imports, nested classes as bases, redefinitions, names bound twice, names shared by several modules, aliases,
       re-exports through __all__ (also through an intermediate module), TYPE_CHECKING-only imports of LATER modules."""
    mods: List[Dict[str, Any]] = [mod("p", pkg=True)]
    pk = [1]
    if rng.random() < 0.5:
        mods.append(mod("q", 1, pkg=True)); pk.append(2)
    if rng.random() < 0.25:
        mods.append(mod("r2", 0, pkg=True)); pk.append(len(mods))
    pool = ["A", "B", "C", "D", "E", "F", "G", "H"]
    defs: List[Tuple[int, str, str]] = []          # (module index, name, kind)
    nobase: set = set()                            # (module index, name) of classes written without bases
    cyclic = False
    nmods = rng.randint(2, 4)
    plan: List[Tuple[int, int]] = []
    for i in range(nmods):
        plan.append((len(mods) + 1 + i, rng.choice(pk)))
    for i, (mi, par) in enumerate(plan):
        ops: List[Any] = []
        local: Dict[str, str] = {}                  # local (possibly dotted) name -> kind
        local_nobase: set = set()                   # local names known to denote a class without bases
        origin: Dict[str, Tuple[int, str]] = {}     # local name -> (defining module, name there): two names may denote one object
        my_pkg_path = _path(mods, par)
        def rel(target_mi: int) -> Optional[Tuple[int, str]]:
            tp = _path(mods, target_mi)
            if tp[:-1] == my_pkg_path:
                return 1, tp[-1]
            if len(my_pkg_path) >= 2 and tp[:-1] == my_pkg_path[:-1]:
                return 2, tp[-1]
            return None
        for _ in range(rng.randint(0, 3)):
            cands = [d for d in defs if d[0] != mi]
            if not cands:
                break
            dm, dn, dk = rng.choice(cands)
            path = ".".join(_path(mods, dm))
            form = rng.choice(["from", "from", "from_as", "import", "import_as", "star", "from_rel", "from_pkg"])
            r = rel(dm)
            # a module binds each name at most once: the ways pydoctor departs from Python when a name is bound twice (import then
            # definition, definition then import, two imports, alias to a name redefined later, ...) are recorded findings carried
            # by the deterministic families T5 / T15; the random corpus mixes everything else
            def free(n: str) -> bool:
                return n.split(".")[0] not in {x.split(".")[0] for x in local}
            before = set(local)
            if form == "from_rel" and r and free(dn):
                ops.append(frm(r[1], dn, lvl=r[0])); local[dn] = dk
            elif form == "from_pkg" and r and free(r[1]):
                ops.append(frm("", r[1], lvl=r[0])); local[r[1] + "." + dn] = dk
            elif form == "from_as" and free("R" + dn):
                ops.append(frm(path, dn, "R" + dn)); local["R" + dn] = dk
            elif form == "import" and free(path):
                ops.append(imp(path)); local[path + "." + dn] = dk
            elif form == "import_as":
                ops.append(imp(path, "z%d" % len(ops))); local["z%d.%s" % (len(ops) - 1, dn)] = dk
            elif form == "star" and not mods[dm - 1]["hasAll"] and all(free(n2) for (m2, n2, k2) in defs if m2 == dm) \
                    and len({n2 for (m2, n2, k2) in defs if m2 == dm}) == len([1 for (m2, n2, k2) in defs if m2 == dm]):
                ops.append(star(path))
                for (m2, n2, k2) in defs:
                    if m2 == dm and not n2.startswith("_"):
                        local[n2] = k2
            elif form in ("from",) and free(dn):
                ops.append(frm(path, dn)); local[dn] = dk
            for n_new in set(local) - before:
                last = n_new.split(".")[-1]
                origin[n_new] = (dm, dn if last in ("R" + dn,) else last)
                if (dm, origin[n_new][1]) in nobase:
                    local_nobase.add(n_new)
        mine: List[Tuple[str, str]] = []
        for _ in range(rng.randint(1, 3)):
            kind = rng.choice(["class", "class", "class", "def", "var", "alias"])
            name = rng.choice([n for n in pool if n.split(".")[0] not in {x.split(".")[0] for x in local}] or ["Z%d" % len(ops)])
            classes = [n for n, k in local.items() if k == "class"]
            if kind == "class":
                # a second base only if it is written without bases itself, and last: Python accepts the hierarchy
                bases = rng.sample(classes, k=min(len(classes), rng.choice([0, 1, 1, 2])))
                if len(bases) == 2:
                    roots_ = [b for b in bases if b in local_nobase]
                    bases = ([b for b in bases if b not in roots_[-1:]] + roots_[-1:]) if roots_ else bases[:1]
                    if len(bases) == 2 and origin.get(bases[0], bases[0]) == origin.get(bases[1], bases[1]):
                        bases = bases[:1]                   # two names of one class: Python rejects the duplicate base
                body: List[Any] = []
                if rng.random() < 0.5:
                    body.append(fn(rng.choice(["f", "g"])))
                if rng.random() < 0.3:
                    body += cls("In", body=[fn("deep")] if rng.random() < 0.5 else [])
                if rng.random() < 0.3:
                    body.append(var("level"))
                if rng.random() < 0.15 and defs:
                    dm, dn, dk = rng.choice(defs)
                    if dm != mi:
                        body.insert(0, frm(".".join(_path(mods, dm)), dn, "L" + dn))
                ops.extend(cls(name, *bases, body=body))
                local[name] = "class"
                origin[name] = (mi, name)
                if any(isinstance(b, dict) and b.get("k") == "class" for b in body):
                    origin[name + ".In"] = (mi, name + ".In")
                if not bases:
                    local_nobase.add(name); nobase.add((mi, name))
                if any(isinstance(b, dict) and b.get("k") == "class" for b in body):
                    local[name + ".In"] = "class"
                mine.append((name, "class"))
            elif kind == "def":
                ops.append(fn(name)); local[name] = "def"; mine.append((name, "def"))
            elif kind == "var":
                ops.append(var(name)); local[name] = "var"; mine.append((name, "var"))
            elif local:
                src = rng.choice(sorted(local))
                an = "al" + name
                if an not in local:
                    ops.append(alias(an, src)); local[an] = local[src]
                    origin[an] = origin.get(src, (mi, src))
                    if src in local_nobase:
                        local_nobase.add(an)
        if rng.random() < 0.12 and i + 1 < len(plan) and any(k == "class" and "." not in n and n in [x for x, _ in mine] for n, k in local.items()):
            # an import for the type checker only, of a module defined later
            ops.insert(0, {**frm("p.fwd%d" % (i + 1), "Later"), "tc": True})
            cyclic = True
        imported_here = {o["as"] for o in ops if isinstance(o, dict) and o.get("k") == "from"} | \
                        ({n for n in local if "." not in n} if any(isinstance(o, dict) and o.get("k") == "star" for o in ops) else set())
        rebound = imported_here & {n for n, _ in mine}
        # (a name imported, listed in __all__ and re-bound by the module itself is the recorded finding import-listed-in-all-then-rebound:
        #  the deterministic families carry it, the random corpus does not)
        exported = [n for n, k in local.items() if "." not in n and not n.startswith("al") and n not in rebound and rng.random() < 0.6]
        has_all = rng.random() < 0.35 and bool(exported)
        mods.append(mod("m%d" % i, par, ops=ops, all=exported if has_all else None))
        for n, k in mine:
            defs.append((mi, n, k))
    # forward references of the TYPE_CHECKING imports: make them real (module fwdK defining Later importing from mK)
    for i, (mi, par) in enumerate(plan):
        if any(isinstance(o, dict) and o.get("tc") for o in mods[mi - 1]["ops"]):
            final: Dict[str, str] = {}
            depth = 0
            for o in mods[mi - 1]["ops"]:
                depth += 1 if o["k"] == "class" else -1 if o["k"] == "endclass" else 0
                if o["k"] == "class" and depth == 1:
                    final[o["n"]] = "class"
                elif depth == 0 and o["k"] in ("def", "var", "alias"):
                    final[o["n"]] = o["k"]
                elif depth == 0 and o["k"] == "from":
                    final[o["as"]] = "import"
            mine_cls = [n for n, k in final.items() if k == "class"]
            base = [".".join(_path(mods, mi)) + "." + mine_cls[0]] if mine_cls else []
            ops = flat(imp(".".join(_path(mods, mi))), cls("Later", *base, body=[var("level")]))
            mods.append(mod("fwd%d" % (i + 1), 1, ops=ops))
    # packages re-export something from their sub-modules
    for pi in pk:
        kids = [(m2, n2, k2) for (m2, n2, k2) in defs if mods[m2 - 1]["par"] == pi and k2 in ("class", "def")]
        if kids and rng.random() < 0.5:
            chosen = rng.sample(kids, k=min(len(kids), rng.randint(1, 2)))
            seen = set()
            ops = []
            for (m2, n2, k2) in chosen:
                if n2 in seen:
                    continue
                seen.add(n2)
                ops.append(frm(mods[m2 - 1]["name"], n2, lvl=1))
            mods[pi - 1]["ops"] = ops
            mods[pi - 1]["hasAll"] = True
            mods[pi - 1]["all"] = sorted(seen)
    # how each __all__ is spelled: the spellings pydoctor reads in full (the others are family T17 and its open findings)
    for m in mods:
        if m["hasAll"]:
            m["allform"] = rng.choice(["literal", "literal", "top", "tuple", "twice"])
            m["allsplit"] = min(1, len(m["all"])) if m["allform"] == "twice" else len(m["all"])
    p = project(mods, "RND2")
    from . import projects as P
    if cyclic or P.has_import_cycle(p):       # e.g. a package __init__ importing from a sub-module that imports a user of the package
        p["meta"]["cyclic"] = True
    return p


def t_c04_generations() -> Iterator[Dict[str, Any]]:
    """Several generations of one class name in a module, a subclass derived from an EARLIER generation, names reached through that
       subclass (Python: the members of the generation the subclass was derived from)."""
    for n in (2, 3, 4):
        ops: List[Any] = []
        for g in range(n):
            ops += cls("Codec", body=[fn("render"), fn(f"only{g}")])
            if g == 0:
                ops += cls("Legacy", "Codec", body=[fn("own")])
            if g == 1:
                ops += cls("Second", "Codec")
        ops += [alias("r1", "Legacy.render"), alias("o0", "Legacy.only0"), alias("r2", "Second.render"), alias("cur", "Codec.render")]
        yield project([mod("p", pkg=True), mod("m", 1, ops=flat(ops)),
                       mod("u", 1, ops=flat(frm("m", "Legacy", lvl=1), frm("m", "Codec", lvl=1), alias("x", "Legacy.render"), cls("Sub", "Legacy"), cls("Cur", "Codec")))],
                      "C04", members="generations", count=n)
