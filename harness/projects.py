"""
Abstract projects (the constants of spec/Processing.tla) : construction, template families, rendering to files,
real builds with an imposed schedule, projection of the real System, CPython oracle.
"""
from __future__ import annotations

import itertools
import json
import os
import random
import subprocess
import sys
from pathlib import Path
from typing import Any, Callable, Dict, Iterable, List, Optional, Sequence, Tuple

# ------------------------------------------------------------------------------------------ DSL

ALL_FORMS = ("literal", "top", "tuple", "twice", "augmented", "extend", "append", "concat", "conditional")
ALL_FORMS_SPLIT = ("augmented", "extend", "append", "concat", "twice")      # written in two parts: the first name, then the rest


def mod(name: str, par: int = 0, pkg: bool = False, ops: Sequence[Dict[str, Any]] = (), all: Optional[Sequence[str]] = None,
        broken: bool = False, allform: str = "literal") -> Dict[str, Any]:
    """`all`: the value __all__ has once the module is imported (None: no __all__); `allform`: how the source writes it
    (ALL_FORMS); `allsplit`: how many of the names stand in the FIRST statement for the forms written in two parts."""
    assert allform in ALL_FORMS
    n = len(all or [])
    return {"name": name, "par": par, "pkg": pkg, "hasAll": all is not None, "all": list(all or []),
            "allform": allform, "allsplit": min(1, n) if allform in ALL_FORMS_SPLIT else n,
            "ops": list(ops), "broken": broken}


def render_all(m: Dict[str, Any]) -> Tuple[List[str], List[str]]:
    """(lines for the top of the module, lines for its end) writing __all__ in the module's form."""
    if not m["hasAll"]:
        return [], []
    names, k, form = list(m["all"]), m.get("allsplit", len(m["all"])), m.get("allform", "literal")
    first, rest = names[:k], names[k:]
    if form == "literal":
        return [], [f"__all__ = {names!r}"]
    if form == "top":
        return [f"__all__ = {names!r}"], []
    if form == "tuple":
        return [], [f"__all__ = {tuple(names)!r}"]
    if form == "twice":
        return [f"__all__ = {first!r}"], [f"__all__ = {names!r}"]
    if form == "augmented":
        return [], [f"__all__ = {first!r}", f"__all__ += {rest!r}"]
    if form == "extend":
        return [], [f"__all__ = {first!r}", f"__all__.extend({rest!r})"]
    if form == "append":
        return [], [f"__all__ = {first!r}"] + [f"__all__.append({x!r})" for x in rest]
    if form == "concat":
        return [], [f"__all__ = {first!r} + {rest!r}"]
    if form == "conditional":
        return [], ["if True:", f"    __all__ = {names!r}"]
    raise ValueError(form)


def frm(m: str, orig: str, as_: Optional[str] = None, lvl: int = 0) -> Dict[str, Any]:
    return {"k": "from", "lvl": lvl, "m": [x for x in m.split(".") if x], "orig": orig, "as": as_ or orig}


def star(m: str, lvl: int = 0) -> Dict[str, Any]:
    return {"k": "star", "lvl": lvl, "m": [x for x in m.split(".") if x]}


def imp(m: str, as_: str = "") -> Dict[str, Any]:
    return {"k": "import", "m": m.split("."), "as": as_}


def cls(n: str, *bases: str, body: Sequence[Dict[str, Any]] = ()) -> List[Dict[str, Any]]:
    return [{"k": "class", "n": n, "bases": [b.split(".") for b in bases]}, *body, {"k": "endclass"}]


def fn(n: str) -> Dict[str, Any]:
    return {"k": "def", "n": n}


def var(n: str) -> Dict[str, Any]:
    return {"k": "var", "n": n}


def strdoc(off: int = 0) -> Dict[str, Any]:
    """a bare string statement, rendered as the attribute docstring (site marker) of the var `off`+1 statements before it"""
    return {"k": "str", "off": off}


def ivar(n: str) -> Dict[str, Any]:
    """def __init__(self): self.<n> = ...   (instance variable of the enclosing class)"""
    return {"k": "ivar", "n": n}


def cvar(n: str) -> Dict[str, Any]:
    """class-level annotation '<n>: int' (class variable without value; not bound at run time)"""
    return {"k": "var", "n": n, "ann": True}


def alias(n: str, v: str) -> Dict[str, Any]:
    return {"k": "alias", "n": n, "v": v.split(".")}


def flat(*xs: Any) -> List[Dict[str, Any]]:
    out: List[Dict[str, Any]] = []
    for x in xs:
        if isinstance(x, list):
            out.extend(x)
        else:
            out.append(x)
    return out


def project(mods: Sequence[Dict[str, Any]], family: str, **meta: Any) -> Dict[str, Any]:
    names = set()
    for m in mods:
        names.add(m["name"])
        for op in m["ops"]:
            for key in ("n", "orig", "as"):
                if key in op and op[key]:
                    names.add(op[key])
        names.update(m["all"])
    return {"mods": list(mods), "priv": sorted(n for n in names if n.startswith("_")), "family": family, "meta": meta}


# ---------------------------------------------------------------------------------- rendering

def render_module(p: Dict[str, Any], i: int) -> str:
    m = p["mods"][i]
    if m["broken"]:
        return "def (:\n"
    lines: List[str] = [f"'''site:{i + 1}:0'''"]
    ind = 0
    for pc, op in enumerate(m["ops"], 1):
        sp = "    " * ind
        k = op["k"]
        if k == "from":
            src = "." * op["lvl"] + ".".join(op["m"])
            stmt = f"from {src} import {op['orig']}" + (f" as {op['as']}" if op["as"] != op["orig"] else "")
            if op.get("tc"):          # an import for the type checker only: not executed, but analysed by pydoctor
                lines.append(f"{sp}from typing import TYPE_CHECKING\n{sp}if TYPE_CHECKING:\n{sp}    {stmt}")
            elif op.get("try"):
                lines.append(f"{sp}try:\n{sp}    {stmt}\n{sp}except ImportError:\n{sp}    pass")
            else:
                lines.append(f"{sp}{stmt}")
        elif k == "star":
            lines.append(f"{sp}from {'.' * op['lvl'] + '.'.join(op['m'])} import *")
        elif k == "import":
            lines.append(f"{sp}import {'.'.join(op['m'])}" + (f" as {op['as']}" if op["as"] else ""))
        elif k == "class":
            bases = ", ".join(".".join(b) for b in op["bases"])
            lines.append(f"{sp}class {op['n']}({bases}):" if bases else f"{sp}class {op['n']}:")
            lines.append(f"{sp}    '''site:{i + 1}:{pc}'''")
            ind += 1
        elif k == "endclass":
            ind -= 1
        elif k == "def":
            lines.append(f"{sp}def {op['n']}(*args):")
            lines.append(f"{sp}    '''site:{i + 1}:{pc}'''")
        elif k == "var":
            if op.get("ann"):
                lines.append(f"{sp}{op['n']}: int")
            else:
                lines.append(f"{sp}{op['n']} = {i + 1}000 + {pc}")
            if not op.get("nodoc"):
                lines.append(f"{sp}'''site:{i + 1}:{pc}'''")
        elif k == "str":
            lines.append(f"{sp}'''site:{i + 1}:{pc - 1 - op.get('off', 0)}'''")
        elif k == "ivar":
            lines.append(f"{sp}def __init__(self):")
            lines.append(f"{sp}    '''site:{i + 1}:{pc}'''")
            lines.append(f"{sp}    self.{op['n']} = {i + 1}000 + {pc}")
            lines.append(f"{sp}    '''site:{i + 1}:{-pc}'''")
        elif k == "alias":
            # three spellings of one binding: bare, annotated, with a type comment (what the name denotes does not depend on it)
            how = (i + pc) % 3
            lines.append(f"{sp}{op['n']}{': object' if how == 1 else ''} = {'.'.join(op['v'])}{'  # type: object' if how == 2 else ''}")
        else:
            raise ValueError(k)
    top, end = render_all(m)
    return "\n".join(lines[:1] + top + lines[1:] + end) + "\n"


def mod_path(p: Dict[str, Any], i: int) -> List[str]:
    m = p["mods"][i]
    up = mod_path(p, m["par"] - 1) if m["par"] else []
    return up + [m["name"]]


def write_project(p: Dict[str, Any], root: Path, rename: Optional[Dict[int, str]] = None) -> List[Path]:
    """Write the project under `root`; returns the root paths (packages: directory, modules: file) by module index."""
    roots: Dict[int, Path] = {}
    for i, m in enumerate(p["mods"]):
        parts = mod_path(p, i)
        if m["pkg"]:
            d = root.joinpath(*parts)
            d.mkdir(parents=True, exist_ok=True)
            f = d / "__init__.py"
            if not m["par"]:
                roots[i + 1] = d
        else:
            d = root.joinpath(*parts[:-1])
            d.mkdir(parents=True, exist_ok=True)
            f = d / (parts[-1] + ".py")
            if not m["par"]:
                roots[i + 1] = f
        f.write_text(render_module(p, i))
    return roots  # type: ignore[return-value]


def schedules(p: Dict[str, Any]) -> List[List[int]]:
    """Python twin of Orders(pr, 0) in Processing.tla (used only to count / sample, TLC enumerates them itself)."""
    mods = p["mods"]

    def kids(m: int) -> List[int]:
        return [i + 1 for i, x in enumerate(mods) if x["par"] == m]

    def orders(m: int) -> List[List[int]]:
        res: List[List[int]] = []
        for perm in itertools.permutations(kids(m)):
            tails: List[List[int]] = [[]]
            for c in perm:
                tails = [a + b for a in tails for b in orders(c)]
            res.extend(tails)
        return res if m == 0 else [[m] + t for t in res]

    return orders(0)


# --------------------------------------------------------------------------- real build + observation

def waiting_modules(system: Any) -> List[Any]:
    """The modules waiting to be analysed, in order - whatever container the System keeps them in (observation through behaviour:
    a list today, a mapping by name would do as well)."""
    um = system.unprocessed_modules
    return list(um.values()) if isinstance(um, dict) else list(um)


def comp(name: str) -> Dict[str, Any]:
    """'C 0' -> {b: 'C', d: 1};  'C' -> {b: 'C', d: 0}"""
    if " " in name:
        b, _, i = name.rpartition(" ")
        if i.isdigit():
            return {"b": b, "d": int(i) + 1}
    return {"b": name, "d": 0}


def qn(full: str) -> List[Dict[str, Any]]:
    return [comp(x) for x in full.split(".")]


def site_of(obj: Any, modidx: Dict[str, int]) -> Optional[List[int]]:
    doc = getattr(obj, "docstring", None)
    if isinstance(doc, str) and doc.startswith("site:"):
        try:
            _, a, b = doc.strip().split(":")
            return [int(a), int(b)]
        except ValueError:
            return None
    return None


class Recorder:
    """Run-time wrappers (no change to /repo): record registry actions with the full projected state."""

    def __init__(self, record_states: bool = True):
        self.events: List[Dict[str, Any]] = []
        self.keep: List[Any] = []
        self.all_constructed: List[Any] = []
        self.ids: Dict[int, int] = {}
        self.log: List[List[Any]] = []
        self.record_states = record_states
        self.system: Any = None
        self._depth = 0
        self.probe = False          # ask the registry questions after every action (see run_probe)
        self.probe_names: List[str] = []     # names (simple and qualified) the project will define LATER: asked before they exist
        self._probing = False
        self.probes = 0

    def oid(self, o: Any) -> int:
        """Object identity = ordinal of its first System.addObject (0: never added)."""
        if o is None:
            return 0
        return self.ids.get(id(o), 0)

    def added(self, o: Any) -> int:
        if id(o) not in self.ids:
            self.ids[id(o)] = len(self.ids) + 1
            self.keep.append(o)
        return self.ids[id(o)]

    def run_probe(self) -> None:
        """History dimension "interleaved lookups": after every registry action, ask everything the lookup operators of
        Registry.tla answer - qualified names, expandName / resolveName of every simple and `Class.member` name in every
        scope, Class.find, Class.mro, find_object of every registered name - and throw the answers away.  In the model the
        lookups are pure operators over the current state (they are not actions, nothing remembers that they were asked), so
        a build with these questions asked at every step must end like a build without them: whatever a lookup remembered
        from an intermediate state shows in the final answers the checks judge."""
        from pydoctor import model
        system = self.system
        if self._probing or system is None:
            return
        self._probing = True
        try:
            objs = list(system.allobjects.values())
            names = sorted({o.name for o in objs if " " not in o.name and "." not in o.name} | {n for n in self.probe_names if "." not in n})[:20]
            dotted = sorted({f"{o.name}.{n}" for o in objs if isinstance(o, model.Class) and " " not in o.name for n in list(o.contents)[:4]})[:14]
            for o in objs:
                try:
                    o.fullName()
                    # what the pages are made from, asked early: the linker of the object, its page, its address, its privacy
                    o.docstring_linker
                    o.page_object
                    o.url
                    o.module
                    o.privacyClass
                    if isinstance(o, (model.Module, model.Class)):
                        for q in names + dotted:
                            o.expandName(q)
                            o.resolveName(q)
                            self.probes += 1
                    if isinstance(o, model.Class):
                        o.mro()
                        for q in names:
                            o.find(q)
                except Exception:
                    pass            # a lookup that raises in an intermediate state is not this dimension's business
            for k in list(system.allobjects)[:60] + [n for n in self.probe_names if "." in n][:40]:
                try:
                    system.find_object(k)
                    system.find_object(k + ".nosuchmember")
                except Exception:
                    pass
        finally:
            self._probing = False

    def project(self) -> Dict[str, Any]:
        system = self.system
        objs = sorted(self.keep, key=self.oid)
        return {
            "objs": [{"cls": type(o).__name__, "nm": comp(o.name), "par": self.oid(o.parent) if o.parent is not None else 0}
                     for o in objs],
            "cont": [[[n, self.oid(c)] for n, c in o.contents.items()] for o in objs],
            "all": [[qn(k), self.oid(v)] for k, v in system.allobjects.items()],
            "roots": [self.oid(r) for r in system.rootobjects],
        }

    def install(self) -> Callable[[], None]:
        from pydoctor import model
        rec = self
        oi, oa, orp, opm = (model.Documentable.__init__, model.System.addObject, model.Documentable.reparent,
                            model.System.processModule)

        def init(self, *a, **k):
            oi(self, *a, **k)
            rec.all_constructed.append(self)      # keeps objects alive so id() stays unique

        def add(self, obj):
            rec.system = self
            exc = None
            rec._depth += 1
            rec.added(obj)
            nm0 = obj.name
            try:
                return oa(self, obj)
            except BaseException as e:
                exc = type(e).__name__
                raise
            finally:
                rec._depth -= 1
                rec.events.append({"a": "AddObject", "o": rec.oid(obj), "m": 0, "n": "", "nm": nm0, "exc": exc or "",
                                   "s": rec.project() if rec.record_states else None})
                if rec.probe and not exc:
                    rec.run_probe()

        def rep(self, new_parent, new_name):
            rec.system = self.system
            exc = None
            try:
                return orp(self, new_parent, new_name)
            except BaseException as e:
                exc = type(e).__name__
                raise
            finally:
                rec.events.append({"a": "Reparent", "o": rec.oid(self), "m": rec.oid(new_parent), "n": new_name, "nm": "",
                                   "exc": exc or "", "s": rec.project() if rec.record_states else None})
                if rec.probe and not exc:
                    rec.run_probe()

        def pm(self, mod):
            rec.system = self
            name = mod.fullName()
            n0 = len(rec.log)
            rec.log.append(["start", name])
            try:
                return opm(self, mod)
            finally:
                if mod.state.name == "PROCESSED":
                    rec.log.append(["finish", name])
                else:
                    rec.log[n0] = ["broken", name]

        model.Documentable.__init__, model.System.addObject, model.Documentable.reparent, model.System.processModule = init, add, rep, pm

        def undo() -> None:
            model.Documentable.__init__, model.System.addObject, model.Documentable.reparent, model.System.processModule = oi, oa, orp, opm
        return undo


def real_build(p: Dict[str, Any], sched: Sequence[int], scratch: Path, record_states: bool = False,
               via_rename: bool = False, probe: bool = False) -> Dict[str, Any]:
    """
    Build the project with the real pydoctor, the schedule imposed the way a rename would impose it: the
    `sorted` used by System.addPackage is shadowed in pydoctor.model's namespace by a function that orders
    directory entries by the chosen permutation, and the roots are passed in the chosen order.
    """
    from pydoctor import model
    import shutil

    d = scratch / "proj"
    if d.exists():
        shutil.rmtree(d)
    d.mkdir(parents=True)
    roots = write_project(p, d)
    rank: Dict[str, int] = {}
    for pos, m in enumerate(sched):
        parts = mod_path(p, m - 1)
        base = d.joinpath(*parts)
        rank[str(base)] = pos
        rank[str(base) + ".py"] = pos

    def my_sorted(it: Iterable[Any], **kw: Any) -> List[Any]:
        items = list(it)
        if items and all(isinstance(x, Path) for x in items):
            return sorted(items, key=lambda x: (rank.get(str(x), 10 ** 6), str(x)))
        return sorted(items, **kw)

    rec = Recorder(record_states)
    rec.probe = probe
    if probe:
        simple = {op.get("n") or op.get("as") for m in p["mods"] for op in m["ops"] if op.get("k") in ("class", "def", "var", "alias", "from")} - {None}
        qual = {".".join(mod_path(p, i) + [op["n"]]) for i, m in enumerate(p["mods"]) for op in m["ops"] if op.get("k") in ("class", "def", "var")}
        rex = {".".join(mod_path(p, i) + [n]) for i, m in enumerate(p["mods"]) if m["hasAll"] for n in m["all"]}
        rec.probe_names = sorted(simple) + sorted(qual | rex)
    undo = rec.install()
    msgs: List[Tuple[str, str]] = []
    crashed = ""
    system = model.System()
    system.options.quietness = 0
    rec.system = system
    orig_msg = model.System.msg

    def msg(self, section, msg, thresh=0, topthresh=100, nonl=False, wantsnl=True, once=False):
        msgs.append((section, msg))
        if thresh < 0:
            self.violations += 1

    model.System.msg = msg
    model.sorted = my_sorted                                      # shadows the builtin inside pydoctor.model only
    try:
        builder = system.systemBuilder(system)
        for m in sched:
            if m in roots:
                builder.addModule(roots[m])
        try:
            builder.buildModules()
        except Exception as e:                                    # an exception escaping the analysis
            crashed = f"{type(e).__name__}: {e}"
    finally:
        del model.sorted
        model.System.msg = orig_msg
        undo()
    modidx = {".".join(mod_path(p, i)): i + 1 for i in range(len(p["mods"]))}
    return {"system": system, "rec": rec, "msgs": msgs, "crashed": crashed, "dump": dump_system(system, modidx),
            "log": [[a, modidx.get(n, 0)] for a, n in rec.log], "modidx": modidx}


def dump_system(system: Any, modidx: Dict[str, int]) -> Dict[str, Any]:
    """Canonical dump keyed by registry key (C06): class of object, definition site, resolved bases, linearisation."""
    from pydoctor import model
    out: Dict[str, Any] = {}
    for k, o in system.allobjects.items():
        site = site_of(o, modidx)
        if isinstance(o, model.Module) and site is None:        # module without (parsable) docstring: by name
            site = [modidx.get(o.fullName(), modidx.get(k, 0)), 0]
        top = o
        while top.parent is not None and not isinstance(top.parent, model.Module):
            top = top.parent
        e: Dict[str, Any] = {"cls": type(o).__name__, "site": site, "name": o.fullName(), "bases": [], "mro": [],
                             "kind": o.kind.name if o.kind is not None else None,
                             "top_site": site if top is o else site_of(top, modidx)}
        if isinstance(o, model.Class):
            e["bases"] = [b.fullName() if b is not None else "" for b in o.baseobjects]
            e["base_sites"] = [site_of(b, modidx) if b is not None else None for b in o.baseobjects]
            e["mro"] = [c.fullName() for c in o.mro()]
            e["subclasses"] = sorted(c.fullName() for c in o.subclasses)
            e["rawbases"] = [s for s, _ in o.rawbases]
        out[k] = e
    return out


# ------------------------------------------------------------------------------- registry invariants (Python twin)

def registry_invariants(s: Dict[str, Any]) -> List[str]:
    """Twin of FailedRegistryInvs in Registry.tla over a projected real state."""
    objs = s["objs"]
    n = len(objs)

    def fulln(o: int) -> Tuple[Any, ...]:
        parts = []
        seen = 0
        while o and seen <= n:
            # the registry is keyed by strings: a name with dots in it ('x.setter') contributes several components (Comps in Registry.tla)
            ps = objs[o - 1]["nm"]["b"].split(".")
            parts.extend(reversed([(x, 0) for x in ps[:-1]] + [(ps[-1], objs[o - 1]["nm"]["d"])]))
            o = objs[o - 1]["par"]
            seen += 1
        return tuple(reversed(parts))

    allm = [(tuple((c["b"], c["d"]) for c in k), o) for k, o in s["all"]]
    registered = {o for _, o in allm}
    bad: List[str] = []
    if any(fulln(o) != k for k, o in allm):
        bad.append("KeysAreCurrentNames")
    if len(registered) != len(allm):
        bad.append("OneKeyPerObject")
    cont = [dict((nm, c) for nm, c in cs) for cs in s["cont"]]
    for k, o in allm:
        ob = objs[o - 1]
        p = ob["par"]
        if p:
            ok = (ob["nm"]["d"] == 0 and cont[p - 1].get(ob["nm"]["b"]) == o) or ob["nm"]["d"] > 0
            if not ok:
                bad.append("EntryOfParent")
                break
    for pi in range(1, n + 1):
        if pi not in registered:
            continue
        for nm, c in cont[pi - 1].items():
            if objs[c - 1]["par"] != pi or objs[c - 1]["nm"] != {"b": nm, "d": 0}:
                if "ContentsPointBack" not in bad:
                    bad.append("ContentsPointBack")
            if c not in registered and "ContentsRegistered" not in bad:
                bad.append("ContentsRegistered")
    for k, o in allm:
        r = o
        hops = 0
        while objs[r - 1]["par"] and hops <= n:
            r = objs[r - 1]["par"]
            hops += 1
        if r not in s["roots"] or objs[r - 1]["cls"] not in ("Module", "Package"):
            bad.append("ReachableFromRoot")
            break
    if any(objs[o - 1]["par"] and objs[o - 1]["par"] not in registered for _, o in allm):
        bad.append("ParentRegistered")
    for k, o in allm:
        ob = objs[o - 1]
        p = ob["par"]
        ismod = ob["cls"] in ("Module", "Package")
        if (ismod and p and objs[p - 1]["cls"] != "Package") or (not ismod and not p) or \
                (p and objs[p - 1]["cls"] not in ("Package", "Module", "Class")):
            bad.append("KindFitsPlace")
            break
    return bad


# ------------------------------------------------------------------------------------ CPython oracle

_ORACLE = r'''
import sys, json, importlib, inspect, types
root, modnames = sys.argv[1], json.loads(sys.argv[2])
sys.path.insert(0, root)
def site(o):
    d = getattr(o, "__doc__", None)
    if isinstance(d, str) and d.startswith("site:"):
        _, a, b = d.strip().split(":"); return [int(a), int(b)]
    return None
out = {"classes": {}, "ns": {}, "errors": {}, "cattrs": {}}
def class_attrs(nskey, ns):
    d = {}
    for name, v in ns.items():
        if isinstance(v, type) and site(v) is not None and not name.startswith("__"):
            names = set()
            for k in v.__mro__:
                if k is not object: names.update(a for a in vars(k) if not a.startswith("__"))
            d[name] = {a: tgt(getattr(v, a)) for a in names if tgt(getattr(v, a))}
    out["cattrs"][nskey] = d
mods = {}
for n in modnames:
    try:
        mods[n] = importlib.import_module(n)
    except BaseException as e:
        out["errors"][n] = type(e).__name__ + ": " + str(e)
def tgt(v):
    if isinstance(v, types.ModuleType):
        d = site(v); return ["mod", d[0]] if d else None
    if isinstance(v, (type, types.FunctionType)):
        d = site(v); return ["obj"] + d if d else None
    if isinstance(v, int) and not isinstance(v, bool) and v >= 1000:
        return ["obj", v // 1000, v % 1000]
    return None
def walk_cls(c, seen):
    s = site(c)
    if s is None or tuple(s) in seen: return
    seen.add(tuple(s))
    out["classes"][json.dumps(s)] = {"bases": [site(b) for b in c.__bases__ if b is not object],
                                       "mro": [site(b) for b in c.__mro__ if b is not object],
                                       "qual": c.__module__ + "." + c.__qualname__,
                                       "isexc": issubclass(c, BaseException)}
    out["ns"]["c:" + json.dumps(s)] = {k: tgt(v) for k, v in vars(c).items() if not k.startswith("__") and tgt(v)}
    class_attrs("c:" + json.dumps(s), dict(vars(c)))
    for v in vars(c).values():
        if isinstance(v, type): walk_cls(v, seen)
seen = set()
for n, m in mods.items():
    out["ns"]["m:" + n] = {k: tgt(v) for k, v in vars(m).items() if not k.startswith("__") and tgt(v)}
    class_attrs("m:" + n, dict(vars(m)))
    for v in vars(m).values():
        if isinstance(v, type): walk_cls(v, seen)
print(json.dumps(out))
'''


def cpython_oracle(p: Dict[str, Any], root: Path, order: Optional[Sequence[int]] = None) -> Dict[str, Any]:
    """Import the generated project with CPython (clean subprocess): class site -> base sites / mro sites, namespaces.
       `order`: the modules (1-based indexes) in the order they are imported (matters for import cycles)."""
    names = [".".join(mod_path(p, i)) for i in (range(len(p["mods"])) if order is None else [k - 1 for k in order])]
    r = subprocess.run([sys.executable, "-I", "-c", _ORACLE, str(root), json.dumps(names)], capture_output=True,
                       text=True, timeout=60)
    if r.returncode != 0:
        return {"failed": r.stderr[-500:]}
    return json.loads(r.stdout)


# ------------------------------------------------------------------ arbitrary sources (traces not from the spec)

def build_sources(paths: Sequence[Path] = (), texts: Sequence[Tuple[str, str]] = (), record_states: bool = True,
                  rank: Optional[Callable[[Path], Any]] = None, options: Optional[Dict[str, Any]] = None) -> Dict[str, Any]:
    """Build real packages / module texts with the recorder installed. `rank`: optional sort key imposing a schedule;
    `options`: attributes set on system.options before anything is added (what the command line would have set)."""
    from pydoctor import model

    rec = Recorder(record_states)
    undo = rec.install()
    system = model.System()
    for k, v in (options or {}).items():
        setattr(system.options, k, v)
    rec.system = system
    msgs: List[Tuple[str, str]] = []
    orig_msg = model.System.msg

    def msg(self, section, msg, thresh=0, topthresh=100, nonl=False, wantsnl=True, once=False):
        msgs.append((section, msg))
        if thresh < 0:
            self.violations += 1
    model.System.msg = msg
    if rank is not None:
        model.sorted = lambda it, **kw: sorted(list(it), key=rank) if not kw else sorted(it, **kw)
    crashed = ""
    try:
        builder = system.systemBuilder(system)
        for pth in paths:
            builder.addModule(Path(pth))
        for name, text in texts:
            builder.addModuleString(text, modname=name)
        try:
            builder.buildModules()
        except Exception as e:
            crashed = f"{type(e).__name__}: {e}"
    finally:
        if rank is not None:
            del model.sorted
        model.System.msg = orig_msg
        undo()
    return {"system": system, "rec": rec, "msgs": msgs, "crashed": crashed}


def derived_relations(system: Any, msgs: Sequence[Tuple[str, str]] = ()) -> List[str]:
    """C02, second sentence: derived relations are mutually consistent (evaluated on the real System).
    Classes whose hierarchy Python itself rejects (duplicate bases, no consistent MRO, cycles) and that pydoctor
    reported in section 'mro' have no linearisation to speak of (C05 covers the report); they are skipped for the MRO clauses."""
    from pydoctor import model
    bad: List[str] = []
    classes = [o for o in system.allobjects.values() if isinstance(o, model.Class)]
    def c3(k: Any, depth: int = 0) -> Optional[List[Any]]:
        """Python's linearisation over the resolved bases; None when Python rejects the hierarchy."""
        if depth > 50:
            return None
        bases = [b for b in k.baseobjects if b is not None]
        if len({id(b) for b in bases}) != len(bases):
            return None
        seqs = []
        for b in bases:
            l = c3(b, depth + 1)
            if l is None:
                return None
            seqs.append(list(l))
        seqs.append(list(bases))
        out = [k]
        while any(seqs):
            seqs = [q for q in seqs if q]
            for q in seqs:
                h = q[0]
                if not any(any(x is h for x in r[1:]) for r in seqs):
                    break
            else:
                return None
            out.append(h)
            seqs = [[x for x in q if x is not h] for q in seqs]
        return out

    def plain_inconsistency(k: Any) -> bool:
        seen: List[Any] = []
        todo = [(k, ())]
        while todo:
            x, path = todo.pop()
            if any(x is y for y in path) or len(path) > 50:
                return False
            bases = [b for b in x.baseobjects if b is not None]
            if len({id(b) for b in bases}) != len(bases):
                return False
            todo.extend((b, path + (x,)) for b in bases)
        return True

    for c in classes:
        mro = list(c.mro())
        if c3(c) is None:
            # Python rejects this class statement (duplicate base, no consistent MRO, cycle): C05 covers the report.  What C02 says
            # about a linearisation (the class first, each resolved base once) still applies to the order pydoctor falls back to,
            # unless "each base once" has no meaning (a base written twice, or an inheritance cycle, somewhere above the class).
            if not plain_inconsistency(c):
                continue
        if not mro or mro[0] is not c:
            bad.append(f"MroStartsWithSelf:{c.fullName()}")
        for b in c.baseobjects:
            if b is not None and sum(1 for x in mro if x is b) != 1:
                bad.append(f"MroHasEachBaseOnce:{c.fullName()}")
        if len(set(map(id, mro))) != len(mro):
            bad.append(f"MroNoRepeat:{c.fullName()}")
    for c in classes:
        for b in c.baseobjects:
            if b is not None and sum(1 for x in b.subclasses if x is c) != sum(1 for x in c.baseobjects if x is b):
                bad.append(f"SubclassInverse:{b.fullName()}<-{c.fullName()}")
        for s in c.subclasses:
            if not any(x is c for x in s.baseobjects):
                bad.append(f"SubclassInverse:{c.fullName()}->{s.fullName()}")
    for o in system.allobjects.values():
        if isinstance(o, model.Function) and isinstance(o.parent, model.Class):
            if o.kind not in (model.DocumentableKind.METHOD, model.DocumentableKind.CLASS_METHOD,
                              model.DocumentableKind.STATIC_METHOD):
                bad.append(f"FunctionInClassIsMethod:{o.fullName()}:{o.kind}")
        if isinstance(o, model.Function) and not isinstance(o.parent, model.Class) and o.kind in (
                model.DocumentableKind.METHOD, model.DocumentableKind.CLASS_METHOD, model.DocumentableKind.STATIC_METHOD):
            bad.append(f"MethodSitsInClass:{o.fullName()}:{o.kind}")     # a kind that fits its place: no methods in modules
        if isinstance(o, (model.Function, model.Attribute)) and o.contents:
            bad.append(f"LeavesHaveNoChildren:{o.fullName()}")
    # the kind of an object fits what it is (a module is not a variable, a class is not a function ...)
    K = model.DocumentableKind
    kinds_of = [(model.Package, {K.PACKAGE}), (model.Module, {K.MODULE, K.PACKAGE}), (model.Class, {K.CLASS, K.EXCEPTION, K.INTERFACE}),
                (model.Function, {K.FUNCTION, K.METHOD, K.CLASS_METHOD, K.STATIC_METHOD}),
                (model.Attribute, {K.VARIABLE, K.CLASS_VARIABLE, K.INSTANCE_VARIABLE, K.CONSTANT, K.PROPERTY, K.ATTRIBUTE, K.SCHEMA_FIELD, K.TYPE_ALIAS, K.TYPE_VARIABLE, None})]
    for k, o in system.allobjects.items():
        for typ, allowed in kinds_of:
            if isinstance(o, typ):
                if o.kind not in allowed:
                    bad.append(f"KindMatchesObject:{k}:{o.kind}")
                break
    # 'implemented by' is the inverse of 'implements' (zope.interface extension)
    for k, o in system.allobjects.items():
        for name in getattr(o, "implements_directly", []) or []:
            t = system.allobjects.get(name)
            if t is not None and getattr(t, "isinterface", False) and not any(x is o for x in getattr(t, "implementedby_directly", [])):
                bad.append(f"ImplementedByInverse:{k}->{name}")
        if getattr(o, "isinterface", False):
            for impl in getattr(o, "implementedby_directly", []):
                if o.fullName() not in getattr(impl, "implements_directly", []):
                    bad.append(f"ImplementedByInverse:{k}<-{impl.fullName()}")
                if system.allobjects.get(impl.fullName()) is not impl:
                    bad.append(f"ImplementedByRegistered:{k}<-{impl.fullName()}")
    urls: Dict[str, str] = {}
    for k, o in system.allobjects.items():
        if o.documentation_location is model.DocLocation.OWN_PAGE and o.isVisible:
            u = o.url
            if u in urls and urls[u] != k:
                bad.append(f"PagesShareFileName:{u}:{urls[u]}:{k}")
            urls[u] = k
    return bad


# ------------------------------------------------------------------ expectations derived from the PROPERTY text

def module_index_by_qname(p: Dict[str, Any]) -> Dict[str, int]:
    return {".".join(mod_path(p, i)): i + 1 for i in range(len(p["mods"]))}


def resolve_import_target(p: Dict[str, Any], mi: int, lvl: int, m: Sequence[str]) -> Optional[str]:
    """Python's rule for `from <lvl dots><m> import ...` written in module mi (1-based)."""
    if lvl == 0:
        return ".".join(m)
    me = mod_path(p, mi - 1)
    pkg = me if p["mods"][mi - 1]["pkg"] else me[:-1]
    if lvl - 1 > len(pkg):
        return None
    base = pkg[:len(pkg) - (lvl - 1)]
    if not base:
        return None
    return ".".join(list(base) + list(m))


def top_level_defs(p: Dict[str, Any], mi: int) -> Dict[str, Tuple[str, int]]:
    """name -> (kind, pc) of the LAST module-level definition of that name in module mi."""
    out: Dict[str, Tuple[str, int]] = {}
    depth = 0
    for pc, op in enumerate(p["mods"][mi - 1]["ops"], 1):
        if op["k"] == "endclass":
            depth -= 1
            continue
        if depth == 0 and op["k"] in ("class", "def", "var"):
            out[op["n"]] = (op["k"], pc)
        if depth == 0 and op["k"] in ("from",) and not op.get("try"):      # try: optional import of an absent module
            out.pop(op["as"], None)
        if depth == 0 and op["k"] in ("alias", "import"):
            out.pop(op.get("n") or op.get("as") or op["m"][0], None)
        if op["k"] == "class":
            depth += 1
    return out


def members_of(p: Dict[str, Any], mi: int, pc: int) -> List[Tuple[str, int]]:
    """direct members (name, pc) of the class opened at ops[pc]."""
    ops = p["mods"][mi - 1]["ops"]
    out: Dict[str, int] = {}
    depth = 0
    for j in range(pc, len(ops)):          # ops[pc] is the op after the class op (1-based pc)
        op = ops[j]
        if op["k"] == "endclass":
            if depth == 0:
                break
            depth -= 1
            continue
        if depth == 0 and op["k"] in ("class", "def", "var"):
            out[op["n"]] = j + 1
        if op["k"] == "class":
            depth += 1
    return list(out.items())


def has_import_cycle(p: Dict[str, Any]) -> bool:
    """Static import graph of the project as Python executes it: module -> modules its import statements execute (every prefix
       package of the target, the target, a sub-module named by `from pkg import sub`); imports under TYPE_CHECKING are not
       executed by Python but ARE analysed by pydoctor, so they count as well.  True when the graph has a cycle."""
    idx = module_index_by_qname(p)
    n = len(p["mods"])
    edges: Dict[int, set] = {i: set() for i in range(1, n + 1)}
    hard: Dict[int, set] = {i: set() for i in range(1, n + 1)}     # needs the ATTRIBUTE of a package, set only when the sub-module import is over
    def add(i: int, q: Optional[str]) -> None:
        if not q:
            return
        parts = q.split(".")
        for k in range(1, len(parts) + 1):
            j = idx.get(".".join(parts[:k]))
            if j and j != i:
                edges[i].add(j)
    for i, m in enumerate(p["mods"], 1):
        # importing a module imports its parent packages first
        par = m["par"]
        if par:
            edges[i].add(par)
        for op in m["ops"]:
            if op["k"] in ("from", "star"):
                tq = resolve_import_target(p, i, op["lvl"], op["m"])
                add(i, tq)
                if op["k"] == "from" and tq:
                    add(i, tq + "." + op["orig"])
            elif op["k"] == "import":
                add(i, ".".join(op["m"]))
                # 'import a.b.c' binds 'a': reading a.b.c later goes through the attributes of a and a.b, which a package that is
                # still being imported does not have yet
                for k in range(1, len(op["m"])):
                    j = idx.get(".".join(op["m"][:k + 1]))
                    if j and j != i and not op["as"]:
                        hard[i].add(idx.get(".".join(op["m"][:k])) or j)
    # a module depends on its parent package only for being importable; the package's __init__ importing the module back is a cycle
    # only if the module (transitively) needs something the package binds later - approximated conservatively: any cycle counts
    color: Dict[int, int] = {}
    def dfs(u: int) -> bool:
        color[u] = 1
        for v in edges[u]:
            if v == p["mods"][u - 1]["par"] and v not in hard[u]:
                continue                     # the parent package is already being imported when its sub-module runs
            c = color.get(v, 0)
            if c == 1 or (c == 0 and dfs(v)):
                return True
        color[u] = 2
        return False
    return any(color.get(u, 0) == 0 and dfs(u) for u in range(1, n + 1))


def import_chain_intermediates(p: Dict[str, Any], oi: int, name: str) -> int:
    """Number of modules between an importer of `name` from module oi and the module that defines the object (0: oi defines it)."""
    n = 0
    idx = module_index_by_qname(p)
    while n < 8 and name not in top_level_defs(p, oi):
        hit = None
        depth = 0
        for op in p["mods"][oi - 1]["ops"]:
            depth += 1 if op["k"] == "class" else -1 if op["k"] == "endclass" else 0
            if depth == 0 and op["k"] == "from" and op["as"] == name:
                hit = op
        if hit is None:
            return n
        ni = idx.get(resolve_import_target(p, oi, hit["lvl"], hit["m"]) or "")
        if not ni:
            return n
        oi, name, n = ni, hit["orig"], n + 1
    return n


def import_source_modules(p: Dict[str, Any], mi: int, name: str) -> List[int]:
    """The project modules named by the import statement(s) that bind `name` at module level of module mi (star imports included)."""
    idx = module_index_by_qname(p)
    out: List[int] = []
    depth = 0
    for op in p["mods"][mi - 1]["ops"]:
        depth += 1 if op["k"] == "class" else -1 if op["k"] == "endclass" else 0
        if depth == 0 and ((op["k"] == "from" and op["as"] == name) or op["k"] == "star"):
            ti = idx.get(resolve_import_target(p, mi, op["lvl"], op["m"]) or "")
            if ti:
                out.append(ti)
    return out


def follow_import_chain(p: Dict[str, Any], oi: int, name: str, hops: int = 6) -> Optional[Tuple[int, str]]:
    """`name` as bound at module level of module oi: the (module, name) that DEFINES the object, following plain
       `from M import x [as name]` statements through intermediate modules; None when it cannot be read off statically."""
    idx = module_index_by_qname(p)
    for _ in range(hops):
        if name in top_level_defs(p, oi):
            return oi, name
        depth, hit = 0, None
        for op in p["mods"][oi - 1]["ops"]:
            if op["k"] == "class":
                depth += 1
            elif op["k"] == "endclass":
                depth -= 1
            elif depth == 0 and op["k"] == "from" and op["as"] == name:
                hit = op
            elif depth == 0 and op["k"] in ("star", "import", "alias") and (op.get("as") == name or op["k"] == "star" or op.get("n") == name):
                hit = None if op["k"] != "star" else hit
        if hit is None:
            return None
        tq = resolve_import_target(p, oi, hit["lvl"], hit["m"])
        ni = idx.get(tq or "")
        if not ni or p["mods"][ni - 1]["broken"]:
            return None
        oi, name = ni, hit["orig"]
    return None


def expected_reexports(p: Dict[str, Any], multi: bool = False) -> List[Dict[str, Any]]:
    """
    The re-exports the property C07 talks about: module R imports name `orig` from project module O (not listing it
    in its own __all__) where O defines it, and lists the bound name in R.__all__; exactly one such R per object.
    """
    idx = module_index_by_qname(p)
    found: List[Dict[str, Any]] = []
    for ri, R in enumerate(p["mods"], 1):
        if not R["hasAll"] or R["broken"]:
            continue
        depth = 0
        for op in R["ops"]:
            if op["k"] == "class":
                depth += 1
            elif op["k"] == "endclass":
                depth -= 1
            if depth or op["k"] not in ("from", "star"):
                continue
            tq = resolve_import_target(p, ri, op["lvl"], op["m"])
            oi = idx.get(tq or "")
            if not oi or p["mods"][oi - 1]["broken"]:
                continue
            if oi == ri:
                # `from . import sub as name` in the __init__ of the package itself: a sub-module (or sub-package, with everything
                # below it) re-exported under another name
                if op["k"] == "from" and R["pkg"] and idx.get(f"{tq}.{op['orig']}") and op["as"] in R["all"] and op["as"] != op["orig"] \
                        and op["as"] not in top_level_defs(p, ri):
                    si = idx[f"{tq}.{op['orig']}"]
                    found.append({"site": [si, 0], "kind": "module", "old": f"{tq}.{op['orig']}", "new": f"{tq}.{op['as']}", "rex": ri, "origin": oi,
                                  "members": [(n, pc2) for n, (k2, pc2) in top_level_defs(p, si).items()], "member_origin": si})
                continue
            O = p["mods"][oi - 1]
            defs = top_level_defs(p, oi)
            if op["k"] == "from":
                pairs = [(op["orig"], op["as"])]
            else:
                names = O["all"] if O["hasAll"] else [n for n in defs if not n.startswith("_")]
                pairs = [(n, n) for n in names]
            own = top_level_defs(p, ri)
            for orig, as_ in pairs:
                if as_ in own:
                    continue          # the re-exporter rebinds the name to a definition of its own afterwards
                if as_ in R["all"] and orig in defs and not (O["hasAll"] and orig in O["all"]):
                    kind, pc = defs[orig]
                    found.append({"site": [oi, pc], "kind": kind, "old": f"{tq}.{orig}",
                                  "new": ".".join(mod_path(p, ri - 1)) + "." + as_, "rex": ri, "origin": oi,
                                  "members": members_of(p, oi, pc) if kind == "class" else []})
                elif as_ in R["all"] and orig not in defs and op["k"] == "from" and not (O["hasAll"] and orig in O["all"]) \
                        and follow_import_chain(p, oi, orig) and follow_import_chain(p, oi, orig)[0] != ri:
                    # the module it is imported from got the object by a plain import itself: the object is the one defined
                    # at the end of the chain
                    di, dname = follow_import_chain(p, oi, orig)
                    kind, pc = top_level_defs(p, di)[dname]
                    found.append({"site": [di, pc], "kind": kind, "old": ".".join(mod_path(p, di - 1)) + "." + dname,
                                  "new": ".".join(mod_path(p, ri - 1)) + "." + as_, "rex": ri, "origin": di,
                                  "intermediates": import_chain_intermediates(p, oi, orig),
                                  "members": members_of(p, di, pc) if kind == "class" else []})
                elif as_ in R["all"] and orig not in defs and idx.get(f"{tq}.{orig}") and not (O["hasAll"] and orig in O["all"]):
                    si = idx[f"{tq}.{orig}"]          # a sub-module re-exported (possibly under another name)
                    # (only a PACKAGE can take a module in: C02 'modules sit only in packages' - a plain module listing a
                    #  module in its __all__ leaves it where it is)
                    if R["pkg"] and f"{tq}.{orig}" != ".".join(mod_path(p, ri - 1)) + "." + as_:
                        found.append({"site": [si, 0], "kind": "module", "old": f"{tq}.{orig}",
                                      "new": ".".join(mod_path(p, ri - 1)) + "." + as_, "rex": ri, "origin": oi,
                                      "members": [(n, pc2) for n, (k2, pc2) in top_level_defs(p, si).items()], "member_origin": si})
    # a re-exporting module can itself be re-exported (renamed) by its package: what it re-exports is documented under its final name
    renames = {m["old"]: m["new"] for m in found if m["kind"] == "module"}
    for f in found:
        for old_q, new_q in renames.items():
            if f["kind"] != "module" and f["new"].startswith(old_q + "."):
                f["new"] = new_q + f["new"][len(old_q):]
    by_site: Dict[Tuple[int, int], List[Dict[str, Any]]] = {}
    for f in found:
        lst = by_site.setdefault(tuple(f["site"]), [])
        if not any(g["rex"] == f["rex"] and g["new"] == f["new"] for g in lst):     # the same module importing it twice is one re-exporter
            lst.append(f)
    if multi:
        return [v[0] for v in by_site.values() if len(v) > 1]
    return [v[0] for v in by_site.values() if len(v) == 1]


def static_base_sites(p: Dict[str, Any]) -> Dict[str, List[Optional[List[int]]]]:
    """What each base written in a module-level class statement denotes, read off the source without running it:
    a single name bound earlier in the same module by `from M import orig [as name]` with M a project module that
    defines orig, or defined earlier in the same module.  {json([mi, pc of class]): [site or None per base]}"""
    idx = module_index_by_qname(p)
    out: Dict[str, List[Optional[List[int]]]] = {}
    for mi, m in enumerate(p["mods"], 1):
        if m["broken"]:
            continue
        bound: Dict[str, Optional[List[int]]] = {}
        depth = 0
        for pc, op in enumerate(m["ops"], 1):
            k = op["k"]
            if k == "endclass":
                depth -= 1
                continue
            if depth == 0:
                if k == "from" and not op.get("try"):
                    tq = resolve_import_target(p, mi, op["lvl"], op["m"])
                    oi = idx.get(tq or "")
                    d = top_level_defs(p, oi).get(op["orig"]) if oi and not p["mods"][oi - 1]["broken"] else None
                    bound[op["as"]] = [oi, d[1]] if d else None
                elif k in ("star", "import", "alias"):
                    bound.clear() if k == "star" else bound.pop(op.get("as") or op.get("n") or op["m"][0], None)
                elif k in ("def", "var"):
                    bound[op["n"]] = [mi, pc]
                elif k == "class":
                    out[json.dumps([mi, pc])] = [bound.get(b[0]) if len(b) == 1 else None for b in op["bases"]]
                    bound[op["n"]] = [mi, pc]
            if k == "class":
                depth += 1
    return out
