"""
Shared driver of the Processing.tla explorations (C02, C06, C07, C04):
TLC enumerates every (project, admissible schedule) behaviour and prints its terminal state; every one is
realised as files, built by the real pydoctor with that schedule imposed, and projected to the same shape.
"""
from __future__ import annotations

import json
from pathlib import Path
from typing import Any, Dict, List, Optional, Sequence, Tuple

from .core import Ctx, MachineryError, chunks
from . import projects as P

CFG = """SPECIFICATION Spec
CONSTANTS Source = "file"
CONSTRAINT EmitDone
INVARIANT NoModuleLeftBehind
"""
CFG_LIVE = """SPECIFICATION Spec
CONSTANTS Source = "file"
PROPERTY Drains
"""


def cname(c: Dict[str, Any]) -> str:
    return c["b"] if c["d"] == 0 else f"{c['b']} {c['d'] - 1}"


def qname(q: Sequence[Dict[str, Any]]) -> str:
    return ".".join(cname(c) for c in q)


def spec_dump(rec: Dict[str, Any]) -> Dict[str, Any]:
    out: Dict[str, Any] = {}
    for e in rec["keys"]:
        out[qname(e["k"])] = {"cls": e["cls"], "site": [e["site"]["m"], e["site"]["pc"]],
                              "bases": [qname(b) for b in e["bases"]], "mro": [qname(m) for m in e["mro"]]}
    return out


def real_canon(dump: Dict[str, Any]) -> Dict[str, Any]:
    return {k: {"cls": v["cls"], "site": v["site"], "bases": v["bases"], "mro": v["mro"]} for k, v in dump.items()}


def strip(p: Dict[str, Any]) -> Dict[str, Any]:
    out = {"mods": p["mods"], "priv": p["priv"]}
    if p.get("entries"):
        out["entries"] = p["entries"]          # entry orders for PyBind (projects with import cycles)
    return out


def explore(ctx: Ctx, projs: List[Dict[str, Any]], record_states: bool = False, liveness: bool = False,
            batch: int = 400) -> List[Dict[str, Any]]:
    """Returns one result per TLC behaviour: {pid, project, sched, spec, real, drift: [...]}"""
    results: List[Dict[str, Any]] = []
    for off, part in enumerate(chunks(projs, batch)):
        pf = ctx.scratch / f"projects_{off}.json"
        pf.write_text(json.dumps([strip(p) for p in part]))
        r = ctx.tlc("Processing", CFG, workers="auto", env={"PROJECT_FILE": str(pf)}, check=True, timeout=1500)
        if r.violated:
            ctx.extra.setdefault("design_level_invariants_violated", []).extend(r.violated)
        if liveness and off == 0:
            r2 = ctx.tlc("Processing", CFG_LIVE, workers="auto", env={"PROJECT_FILE": str(pf)}, check=True, timeout=1500)
            ctx.extra["liveness_Drains"] = "holds" if not r2.violated else "VIOLATED (design level)"
        expected = sum(len(P.schedules(p)) for p in part)
        if len(r.printed) != expected:
            raise MachineryError(f"TLC printed {len(r.printed)} behaviours, expected {expected} (project x schedule)")
        for rec in r.printed:
            proj = part[rec["pid"] - 1]
            # every second behaviour is rebuilt with the lookups of Registry.tla asked after every registry action (Recorder.run_probe):
            # they are pure operators in the model, so the build must end the same - the judges below do not know the difference
            probe = ctx.traces % 2 == 1
            real = P.real_build(proj, rec["sched"], ctx.scratch, record_states=record_states, probe=probe)
            if probe:
                ctx.extra["behaviours_rebuilt_with_interleaved_lookups"] = ctx.extra.get("behaviours_rebuilt_with_interleaved_lookups", 0) + 1
                ctx.extra["interleaved_lookups_asked"] = ctx.extra.get("interleaved_lookups_asked", 0) + real["rec"].probes
            ctx.traces += 1
            res = {"pid": off * batch + rec["pid"], "project": proj, "sched": rec["sched"], "spec": rec, "real": real,
                   "drift": compare(rec, real)}
            for d in res["drift"]:
                ctx.drift_note({"family": proj["family"], "meta": proj["meta"], "sched": rec["sched"], **d})
            results.append(res)
    return results


def compare(rec: Dict[str, Any], real: Dict[str, Any]) -> List[Dict[str, Any]]:
    """Model vs code (conformance). Differences are drift, never a verdict."""
    out: List[Dict[str, Any]] = []
    sd, rd = spec_dump(rec), real_canon(real["dump"])
    if rec["phase"] == "crashed" or real["crashed"]:
        if (rec["phase"] == "crashed") != bool(real["crashed"]):
            out.append({"what": "crash", "spec": rec["phase"], "real": real["crashed"]})
        return out
    if set(sd) != set(rd):
        out.append({"what": "keys", "spec_only": sorted(set(sd) - set(rd)), "real_only": sorted(set(rd) - set(sd))})
    for k in sorted(set(sd) & set(rd)):
        if rd[k]["site"] is None:              # an object rendered without a site marker (no docstring): identity unknown
            rd[k] = {**rd[k], "site": sd[k]["site"]}
        if sd[k] != rd[k]:
            out.append({"what": "entry", "key": k, "spec": sd[k], "real": rd[k]})
    slog = [[a, m] for a, m in rec["log"]]
    if slog != real["log"]:
        out.append({"what": "log", "spec": slog, "real": real["log"]})
    return out
