"""
C11 - every internal link leads to a page and anchor that exist; every visible object has its page / anchor.

Pattern O (DESIGN.md 2.3, 4.8).  spec/Site.tla defines the site (pages, anchors, links with their producer, listing
entries, inventory and search records) as a function of an abstract object model, one operator per producer of
pydoctor/templatewriter/*, linker.taglink, sphinx.py, search.py, and states LinksResolve, VisibleHasPage,
VisibleMemberHasAnchor over (object view, site).

spec -> code : TLC enumerates the skeleton family x privacy assignments x sidebar depth and judges the predicted
               site of each model; a stratified sample is realised as Python projects, rendered by the real pydoctor
               (driver.main in-process) and crawled.
code -> spec : each crawled site (+ the repository's test packages under seeded privacy rules / themes / depths) is
               handed to TLC with the projection of the real System: TLC evaluates the invariants on the observed
               site and compares it with the site its producers predict (drift).  Verdict = Python twin of the
               invariants on the observed site, which must equal TLC's.

The machinery is shared with C12: harness/sitecheck.py (engine, twin, matchers), harness/sitecrawl.py (crawler).
"""
from __future__ import annotations

from ..core import Ctx
from .. import sitecheck
from ..sitecheck import (kf_superseded_duplicate_listed, kf_superseded_duplicate_not_rendered,    # noqa: F401  (known_findings "py")
                         kf_percent_encoded_page_filename, kf_toc_backref_stale_id, kf_footnote_backref_unprefixed,
                         kf_summary_local_reference_copied, kf_inherited_docstring_link,
                         kf_dead_link_to_hidden, kf_dead_link_hidden_root)


def run(ctx: Ctx) -> int:
    return sitecheck.run_property(ctx, "C11")


def replay(ctx: Ctx, path: str) -> int:
    return sitecheck.replay_property(ctx, path, "C11")
