"""
C09 - rendering a docstring keeps its text: nothing is lost, altered or reordered.

spec -> code (1): spec/DocModel.tla is a document builder machine + oracle (Text / Verbatim / Fields).  TLC
               enumerates every document of the bounded builder space and prints it with its expected streams;
               every document is serialised here (trusted, small) to each docformat that can express it, placed
               as a real docstring in generated Python source, built with the real pydoctor System / AST builder,
               rendered with epydoc2stan.format_docstring + stanutils.flatten, and the visible text (HTML parser)
               is judged against the streams TLC printed.
spec -> code (2): spec/Epytext.tla transcribes the block structurer of epytext.parse (token stream + indentation
               stack -> DOM).  TLC enumerates short token sequences with indentations, computes the tree or the
               fatal error, and checks at design level that no paragraph disappears without an error.  Each token
               sequence is rendered as epytext source; the real epytext._tokenize must produce those tokens
               (machinery check) and the real epytext.parse must (a) conserve the text or report a fatal error
               (verdict) and (b) produce the model's tree / errors (conformance, drift otherwise).
"""
from __future__ import annotations

import bisect
import inspect
import json
import os
import re
import textwrap
from collections import Counter
from html.parser import HTMLParser
from typing import Any, Dict, List, Optional, Sequence, Tuple

from ..core import Ctx, MachineryError, chunks

FORMATS = ["epytext", "restructuredtext", "google", "numpy", "plaintext"]
# a vocabulary word counts only when it stands alone: "wq001xwq002x" (two words run together) is an ALTERED text
WORD_RE = re.compile(r"(?<![A-Za-z0-9_])wq\d\d\dx(?![A-Za-z0-9_])")


def word(i: int) -> str:
    return f"wq{i:03d}x"


# =============================================================================== serialisers (trusted)
class NotExpressible(Exception):
    pass


def para_lines(n: Dict[str, Any], rst: bool, lit: bool) -> List[str]:
    """Source lines of one paragraph.  Shapes are fixed by DocModel.Styles."""
    w = [word(i) for i in n["w"]]
    st = n["style"]
    if st == "plain":
        lines = [f"{w[0]} {w[1]}", w[2]]
    elif st == "word":
        lines = [w[0]]
    elif st == "colon":
        lines = [f"{w[0]}: {w[1]} {w[2]}"]
    elif st == "tparam":                     # structured type expressions over one unresolvable container name
        lines = [f"{TYPE_HEAD}[{w[0]}]"]
    elif st == "tbare":
        lines = [TYPE_HEAD]
    elif rst:
        lines = {"bold": [f"{w[0]} **{w[1]}** {w[2]}"] if len(w) > 2 else None,
                 "italic": [f"*{w[0]} {w[1]}* {w[2]}"] if len(w) > 2 else None,
                 "code": [f"{w[0]} ``{w[1]}``"],
                 "link": [f"{w[0]} `{w[1]}` {w[2]}"] if len(w) > 2 else None,
                 "nest": [f"**{w[0]}** *{w[1]}* {w[2]}"] if len(w) > 2 else None,     # reST cannot nest inline markup
                 "uri": [f"{w[0]} `{w[1]} <http://e.org/{w[1]}>`_"]}[st]
    else:
        lines = {"bold": [f"{w[0]} B{{{w[1]}}} {w[2]}"] if len(w) > 2 else None,
                 "italic": [f"I{{{w[0]} {w[1]}}} {w[2]}"] if len(w) > 2 else None,
                 "code": [f"{w[0]} C{{{w[1]}}}"],
                 "link": [f"{w[0]} L{{{w[1]}}} {w[2]}"] if len(w) > 2 else None,
                 "nest": [f"B{{{w[0]} I{{{w[1]}}}}} {w[2]}"] if len(w) > 2 else None,
                 "uri": [f"{w[0]} U{{{w[1]}<http://e.org/{w[1]}>}}"]}[st]
    assert lines
    if lit:
        lines = lines[:-1] + [lines[-1] + "::"]
    return lines


def verb_lines(n: Dict[str, Any], templates: Dict[str, Any]) -> List[str]:
    tpl = templates[n["t"]][n["var"] - 1]
    return ["".join(word(n["m"]) if s == "@M" else s for s in line) for line in tpl]


def verb_text(v: Dict[str, Any]) -> str:
    """Expected exact text of a verbatim block as TLC printed it (Verbatim / Fields[..].verb)."""
    return "\n".join("".join(word(v["m"]) if s == "@M" else s for s in line) for line in v["lines"])


class Out:
    def __init__(self) -> None:
        self.lines: List[str] = []
        self.lit_ends: List[Tuple[int, int]] = []     # epytext: (index of the first line after a literal, block indent)

    def check_epytext_literals(self) -> None:
        """
        An epytext literal block extends to the first line indented no more than the paragraph that introduces it
        (for a one-line paragraph on a bullet / field line: than that bullet).  A document in which something that is
        meant to follow the block is indented deeper cannot be written down in epytext.
        """
        for start, block_indent in self.lit_ends:
            for ln in self.lines[start:]:
                if ln.strip():
                    if len(ln) - len(ln.lstrip()) > block_indent:
                        raise NotExpressible("block after a literal block would be part of it")
                    break

    def sep(self) -> None:
        if self.lines and self.lines[-1] != "":
            self.lines.append("")

    def put(self, indent: int, text: str) -> None:
        self.lines.append((" " * indent + text) if text else "")


def emit_blocks(out: Out, nodes: Sequence[Dict[str, Any]], base: int, rst: bool, templates: Dict[str, Any],
                glue: Optional[Tuple[int, str]] = None, cont: Optional[int] = None) -> None:
    """
    Blocks of one region.  base = indentation of the region's own content.  glue = (indent, prefix): the first node is
    a paragraph whose first line continues `prefix` (field tag / entry name), continuation lines at `cont`.
    """
    ind = {0: base}
    list_indent = 0 if rst else 2       # epytext: "Lists must be indented" relative to the enclosing paragraphs
    intro_indent = base                 # indentation epytext attributes to the most recent paragraph
    i = 0
    while i < len(nodes):
        n = nodes[i]
        nxt = nodes[i + 1] if i + 1 < len(nodes) else None
        t = n["t"]
        if t == "para":
            lit = bool(nxt and nxt["t"] == "lit")
            pl = para_lines(n, rst, lit)
            if i == 0 and glue is not None:
                out.put(glue[0], glue[1] + pl[0])
                for x in pl[1:]:
                    out.put(cont if cont is not None else base, x)
                intro_indent = glue[0] if len(pl) == 1 else (cont if cont is not None else base)
            else:
                out.sep()
                for x in pl:
                    out.put(ind[n["lv"]], x)
                intro_indent = ind[n["lv"]]
        elif t == "item":
            L = n["lv"]
            assert nxt is not None and nxt["t"] == "para"
            b = ind[L - 1] + list_indent
            bullet = "- " if n["lt"] == "u" else f"{n['n']}. "
            ind[L] = b + len(bullet)
            tight = (n["n"] > 1 and i >= 2 and nodes[i - 1]["t"] == "para" and nodes[i - 2]["t"] == "item"
                     and nodes[i - 2]["lv"] == L)
            if not tight:
                out.sep()
            lit = bool(i + 2 < len(nodes) and nodes[i + 2]["t"] == "lit")
            pl = para_lines(nxt, rst, lit)
            out.put(b, bullet + pl[0])
            for x in pl[1:]:
                out.put(ind[L], x)
            intro_indent = b if len(pl) == 1 else ind[L]
            i += 1
        elif t == "lit":
            out.sep()
            for x in verb_lines(n, templates):
                out.put(ind[n["lv"]] + 4, x)
            if not rst:
                out.lit_ends.append((len(out.lines), intro_indent))
        elif t == "doctest":
            out.sep()
            for x in verb_lines(n, templates):
                out.put(ind[n["lv"]], x)
        elif t == "code":
            if not rst:
                raise NotExpressible("epytext has no code block")
            out.sep()
            out.put(ind[n["lv"]], ".. code:: python" if n["var"] == 1 else ".. python::")
            out.put(0, "")
            for x in verb_lines(n, templates):
                out.put(ind[n["lv"]] + 3, x)
        elif t == "version":
            if not rst:
                raise NotExpressible("epytext has no version directives")
            w = [word(k) for k in n["w"]]
            out.sep()
            out.put(ind[n["lv"]], f".. {n['dir']}:: 1.2" + (f" {w[0]} {w[1]}" if n["var"] in (1, 2) else ""))
            if n["var"] == 2:
                out.put(0, "")
                out.put(ind[n["lv"]] + 3, f"{w[2]} {w[3]}")
                out.put(0, "")
                out.put(ind[n["lv"]] + 3, w[4])
            elif n["var"] == 3:
                out.put(0, "")
                out.put(ind[n["lv"]] + 3, f"{w[0]} {w[1]}")
        elif t == "poison":
            # parses, but cannot be turned into HTML: the docstring is then shown as plain text
            w = [word(k) for k in n["w"]]
            out.sep()
            if rst:
                out.put(ind[n["lv"]], ".. raw:: html")
                out.put(0, "")
                out.put(ind[n["lv"]] + 3, f"<br> {w[0]} {w[1]}")
            else:
                out.put(ind[n["lv"]], f"{w[0]}\x0c{w[1]}")
        elif t == "head":
            title = " ".join(word(k) for k in n["w"])
            out.sep()
            out.put(0, title)
            out.put(0, ("=" if n["level"] == 1 else "-") * len(title))
        else:
            raise AssertionError(t)
        i += 1


def regions(doc: Sequence[Dict[str, Any]]) -> List[List[Dict[str, Any]]]:
    regs: List[List[Dict[str, Any]]] = [[]]
    for n in doc:
        if n["t"] == "field":
            regs.append([n])
        else:
            regs[-1].append(n)
    return regs


def _single(nodes: Sequence[Dict[str, Any]]) -> bool:
    """region (without its field node) consists of one paragraph only"""
    return len(nodes) == 1


def ser_tagged(doc: Sequence[Dict[str, Any]], templates: Dict[str, Any], rst: bool, strict: bool = True) -> str:
    """epytext (@tag arg:) / reStructuredText (:tag arg:)"""
    regs = regions(doc)
    out = Out()
    emit_blocks(out, regs[0], 0, rst, templates)
    prev_single = False
    prev_group = None
    for k, reg in enumerate(regs[1:]):
        f, body = reg[0], reg[1:]
        form = f.get("form", "plain")
        if form != "plain":
            # reST consolidated field: consecutive fields of one kind and form are the entries of one ":Parameters:"
            if not rst or form == "nsee":
                raise NotExpressible("consolidated fields are a reStructuredText notation")
            group = (f["kind"], form)
            if group != prev_group:
                out.sep()
                out.put(0, f":{f['ctag']}:")
            elif not prev_single:
                out.sep()
            if form == "cbullet":
                emit_blocks(out, body, 6, True, templates, glue=(4, f"- `{f['arg']}`: "), cont=6)
            else:
                out.put(4, f["arg"])
                emit_blocks(out, body, 8, True, templates, glue=(8, ""), cont=8)
            prev_group, prev_single = group, _single(body)
            continue
        if not (k > 0 and prev_single and prev_group is None):
            out.sep()
        prev_group = None
        if rst and strict and len(body) > 1 and body[1]["t"] == "lit" and len(para_lines(body[0], True, True)) == 1:
            # docutils takes the indentation of a field body from the first line after the marker line: a literal
            # block straight after a one-line first paragraph would not be indented relative to it
            raise NotExpressible("literal block after a one-line field paragraph")
        tag = f["kind"] + (" " + f["arg"] if f["arg"] else "")
        prefix = (f":{tag}: " if rst else f"@{tag}: ")
        emit_blocks(out, body, 4, rst, templates, glue=(0, prefix), cont=4)
        prev_single = _single(body)
    if not rst:
        out.check_epytext_literals()
    return "\n".join(out.lines)


GOOGLE_SECTION = {"param": "Args", "arg": "Arguments", "keyword": "Keyword Args", "return": "Return",
                  "returns": "Returns", "yield": "Yield", "yields": "Yields", "raise": "Raise", "raises": "Raises",
                  "except": "Except", "warn": "Warn", "warns": "Warns", "ivar": "Attributes", "note": "Note",
                  "see": "See", "seealso": "See Also"}
NUMPY_SECTION = {"param": "Parameters", "arg": "Arguments", "keyword": "Keyword Arguments", "return": "Return",
                 "returns": "Returns", "yield": "Yield", "yields": "Yields", "raise": "Raise", "raises": "Raises",
                 "except": "Except", "warn": "Warn", "warns": "Warns", "ivar": "Attributes", "note": "Note"}
# (a numpy "See Also" section is a list of references, not free text: not a way to write a see field)
FREEFORM = {"return", "returns", "yield", "yields", "note", "see", "seealso"}


def numpy_free_form(body: Sequence[Dict[str, Any]]) -> bool:
    """numpy Returns / Yields written as free text (kinds returns / yields; return / yield use the typed form): the first
    line must not look like a type, i.e. be several plain words, and nothing indented may follow it directly"""
    return body[0]["style"] != "word" and all(n["t"] == "para" and n["lv"] == 0 for n in body)


def ser_napoleon(doc: Sequence[Dict[str, Any]], templates: Dict[str, Any], numpy: bool) -> str:
    regs = regions(doc)
    if any(n["t"] == "field" and n.get("form", "plain") not in (("plain", "nsee") if numpy else ("plain",)) for n in doc):
        raise NotExpressible("consolidated fields are a reStructuredText notation, See Also reference lists a numpy one")
    if any(n["t"] == "head" for n in regs[0]):
        raise NotExpressible("section headings collide with the section syntax of this style")
    table = NUMPY_SECTION if numpy else GOOGLE_SECTION
    # types are written with the entry they belong to:  google "pa (T): text", "Returns:  T: text";  numpy "pa : T", "T" line
    partner = {"type": ("param", "arg", "keyword"), "rtype": ("return", "returns"), "returntype": ("return", "returns"),
               "ytype": ("yield", "yields"), "yieldtype": ("yield", "yields")}
    types: Dict[Tuple[str, str], str] = {}
    for reg in regs[1:]:
        f, body = reg[0], reg[1:]
        if f["kind"] in partner:
            mates = [g[0] for g in regs[1:] if g[0]["kind"] in partner[f["kind"]] and g[0]["arg"] == f["arg"]]
            if len(mates) != 1 or len(body) != 1:
                raise NotExpressible("a type is written with the entry it belongs to")
            types[(mates[0]["kind"], mates[0]["arg"])] = para_lines(body[0], True, False)[0]
    out = Out()
    emit_blocks(out, regs[0], 0, True, templates)
    prev_section = None
    for reg in regs[1:]:
        f, body = reg[0], reg[1:]
        kind, arg = f["kind"], f["arg"]
        if kind in partner:
            continue
        ttext = types.get((kind, arg))
        if f.get("form") == "nsee":
            # numpy "See Also": a reference list, one item per field, consecutive items in one section
            if prev_section != "See Also/nsee":
                out.sep()
                out.put(0, "See Also")
                out.put(0, "--------")
            prev_section = "See Also/nsee"
            assert len(body) == 1 and body[0]["t"] == "para"
            w = [word(i) for i in body[0]["w"]]
            st = body[0]["style"]
            if st == "sabare":
                out.put(0, w[0]); out.put(4, f"{w[1]} {w[2]}"); out.put(4, w[3])
            elif st == "sacolon":
                out.put(0, f"{w[0]} : {w[1]} {w[2]}"); out.put(4, w[3])
            elif st == "sacomma":
                out.put(0, f"{w[0]}, {w[1]}")
            elif st == "saname":
                out.put(0, w[0])
            elif st == "sacommad":
                out.put(0, f"{w[0]}, {w[1]}"); out.put(4, f"{w[2]} {w[3]}")
            else:
                raise AssertionError(st)
            continue
        if kind not in table:
            raise NotExpressible(f"no {kind} section in this style")
        if kind in ("warn", "warns") and not arg:
            raise NotExpressible("warning entries are written with their category in this style")
        section = table[kind]
        if section != prev_section or kind in FREEFORM:
            out.sep()
            if numpy:
                out.put(0, section)
                out.put(0, "-" * len(section))
            else:
                out.put(0, section + ":")
        elif not _single(regs[regs.index(reg) - 1][1:]):
            out.sep()
        prev_section = section
        if numpy:
            if kind in ("note", "see", "seealso") or (kind in ("returns", "yields") and ttext is None and numpy_free_form(body)):
                # free text; for Returns / Yields pydoctor accepts it when the first line is not a type
                emit_blocks(out, body, 0, True, templates)
            else:
                # entry line: name (parameters ...), exception type (raises, warns), return type (returns, yields)
                out.put(0, (f"{arg} : {ttext}" if ttext else arg) if arg else (ttext or "str"))
                emit_blocks(out, body, 4, True, templates, glue=(4, ""), cont=4)
        else:
            if kind in FREEFORM and ttext is None:
                emit_blocks(out, body, 4, True, templates, glue=(4, ""), cont=4)
            elif kind in FREEFORM:
                if any(n["t"] == "lit" for n in body):
                    # "T: text::" puts the first paragraph left of the blocks that continue it: what follows a literal block
                    # there cannot be told from the block itself
                    raise NotExpressible("literal block in a typed google Returns entry")
                emit_blocks(out, body, 8, True, templates, glue=(4, f"{ttext}: "), cont=8)
            else:
                emit_blocks(out, body, 8, True, templates, glue=(4, f"{arg} ({ttext}): " if ttext else f"{arg}: "), cont=8)
    return "\n".join(out.lines)


def serialise(doc: Sequence[Dict[str, Any]], fmt: str, templates: Dict[str, Any], host: str = "function") -> Optional[str]:
    try:
        if host in ("property", "attribute") and fmt in ("google", "numpy") and any(n["t"] == "field" for n in doc):
            # napoleon reads the docstring of an attribute / property as "type: description" text, sections are not parsed
            raise NotExpressible("google / numpy attribute docstrings have no sections")
        if fmt == "epytext":
            ds = ser_tagged(doc, templates, rst=False)
        elif fmt == "restructuredtext":
            ds = ser_tagged(doc, templates, rst=True)
        elif fmt == "plaintext":                           # any text is a plaintext docstring
            ds = ser_tagged(doc, templates, rst=True, strict=False)
        elif fmt == "google":
            ds = ser_napoleon(doc, templates, numpy=False)
        elif fmt == "numpy":
            ds = ser_napoleon(doc, templates, numpy=True)
        else:
            raise AssertionError(fmt)
    except NotExpressible:
        return None
    # what a docstring written with this text IS (PEP 257: a margin common to all lines is not part of it)
    return inspect.cleandoc("\n" + ds)


# =============================================================================== visible text of the rendering
VOID = {"br", "hr", "img", "input", "meta", "link", "wbr", "col"}


class Node:
    __slots__ = ("tag", "cls", "kids", "text", "name")

    def __init__(self, tag: str, cls: str = "", text: str = "", name: str = "") -> None:
        self.tag, self.cls, self.kids, self.text, self.name = tag, cls, [], text, name

    def all_text(self) -> str:
        if self.tag == "#":
            return self.text
        if self.tag in ("script", "style"):
            return ""
        return "".join(k.all_text() for k in self.kids)

    def spaced_text(self) -> str:                      # text nodes separated, for word-level comparisons
        if self.tag == "#":
            return self.text
        return " ".join(k.spaced_text() for k in self.kids)

    def find_all(self, pred) -> List["Node"]:          # pre-order, does not descend into matches
        res: List[Node] = []
        for k in self.kids:
            if k.tag == "#":
                continue
            if pred(k):
                res.append(k)
            else:
                res.extend(k.find_all(pred))
        return res


class TreeBuilder(HTMLParser):
    def __init__(self) -> None:
        super().__init__(convert_charrefs=True)
        self.root = Node("root")
        self.stack = [self.root]

    def handle_starttag(self, tag: str, attrs: List[Tuple[str, Optional[str]]]) -> None:
        a = dict(attrs)
        n = Node(tag, a.get("class") or "", name=a.get("name") or "")
        self.stack[-1].kids.append(n)
        if tag not in VOID:
            self.stack.append(n)

    def handle_startendtag(self, tag: str, attrs: List[Tuple[str, Optional[str]]]) -> None:
        self.stack[-1].kids.append(Node(tag, dict(attrs).get("class") or ""))

    def handle_endtag(self, tag: str) -> None:
        if tag in VOID:
            return
        for i in range(len(self.stack) - 1, 0, -1):
            if self.stack[i].tag == tag:
                del self.stack[i:]
                return

    def handle_data(self, data: str) -> None:
        self.stack[-1].kids.append(Node("#", text=data))


def parse_html(html: Any) -> Node:
    if isinstance(html, Node):
        return html
    tb = TreeBuilder()
    tb.feed(html)
    tb.close()
    return tb.root


def has_cls(n: Node, c: str) -> bool:
    return c in n.cls.split()


def words_of(text: str) -> List[str]:
    return WORD_RE.findall(text)


def norm_block(s: str) -> str:
    """verbatim comparison: the block's own position in the source (common indentation, surrounding blank lines) is
    markup, everything else - inner indentation, spacing, every character - is content"""
    lines = s.split("\n")
    while lines and not lines[0].strip():
        lines.pop(0)
    while lines and not lines[-1].strip():
        lines.pop()
    return textwrap.dedent("\n".join(lines))


LABELS = {"param": ("Parameters",), "return": ("Returns",), "yield": ("Yields",), "raise": ("Raises",),
          "warn": ("Warns",), "see": ("See Also",), "note": ("Note", "Notes"), "author": ("Author", "Authors"),
          "since": ("Present Since",)}
ADMONITION = {"note": "note", "see": "seealso", "seealso": "seealso"}


def observe(html: str) -> Dict[str, Any]:
    """Project the rendered docstring: body stream / body pre blocks / table rows / admonitions."""
    root = parse_html(html)
    tables = root.find_all(lambda n: n.tag == "table" and has_cls(n, "fieldTable"))
    rows: List[Dict[str, Any]] = []
    for tb in tables:
        label = None
        for tr in tb.find_all(lambda n: n.tag == "tr"):
            if has_cls(tr, "fieldStart"):
                label = tr.all_text().strip()
                continue
            argc = tr.find_all(lambda n: n.tag == "td" and has_cls(n, "fieldArgContainer"))
            arg = ""
            if argc:
                named = argc[0].find_all(lambda n: n.tag == "span" and has_cls(n, "fieldArg"))
                arg = (named[0].all_text() if named else argc[0].all_text()).strip().lstrip("*").rstrip(":")
            rows.append({"label": label, "arg": arg, "words": words_of(tr.spaced_text()),
                         "argcell": "".join(argc[0].all_text().split()) if argc else "",
                         "pre": [norm_block(p.all_text()) for p in tr.find_all(lambda n: n.tag == "pre")]})
    adm_nodes = root.find_all(lambda n: n.tag == "div" and has_cls(n, "rst-admonition"))
    adms = [{"cls": a.cls, "words": words_of(a.spaced_text()),
             "pre": [norm_block(p.all_text()) for p in a.find_all(lambda n: n.tag == "pre")]} for a in adm_nodes]

    def body_text(n: Node) -> str:          # text nodes kept apart: only what is joined INSIDE a text node is a joined word
        if n.tag == "#":
            return n.text
        if (n.tag == "table" and has_cls(n, "fieldTable")) or (n.tag == "div" and has_cls(n, "rst-admonition")):
            return ""
        return " ".join(body_text(k) for k in n.kids)

    def body_pre(n: Node) -> List[str]:
        res: List[str] = []
        for k in n.kids:
            if k.tag == "#" or (k.tag == "table" and has_cls(k, "fieldTable")) or \
                    (k.tag == "div" and has_cls(k, "rst-admonition")):
                continue
            if k.tag == "pre":
                res.append(norm_block(k.all_text()))
            else:
                res.extend(body_pre(k))
        return res

    return {"body": words_of(body_text(root)), "pre": body_pre(root), "rows": rows, "adm": adms,
            "all": root.all_text(), "allwords": words_of(root.spaced_text())}


# =============================================================================== the real pipeline
TYPE_HEAD = "Bag"
PARAMS = "pa, pb, *va, **kw"
STALE = "wq900x wq901x"          # vocabulary-shaped words of a docstring that must NOT be shown


def make_source(cases: Sequence[Tuple[Any, ...]]) -> str:
    """cases: (name, host, docstring[, inlines]) with host in function|class|property|attribute; inlines = {variable:
    text of the docstring written below its assignment}.  Real docstrings in real source."""
    src: List[str] = []
    for case in cases:
        name, host, ds = case[:3]
        inlines = case[3] if len(case) > 3 else {}
        how = case[4] if len(case) > 4 else "direct"
        if how in ("inherited", "narrowed"):
            # the rendered method overrides the documented one and has no docstring of its own (narrowed: and fewer parameters)
            body8 = "\n".join(("        " + ln) if ln else "" for ln in ds.split("\n"))
            src.append(f"class {name}b:\n    def f(self, {PARAMS}):\n        r\"\"\"\n{body8}\n        \"\"\"\n\n"
                       f"class {name}({name}b):\n    def f(self, {PARAMS if how == 'inherited' else 'pa'}):\n        return 0\n")
            continue
        if how in ("twin", "moved"):
            # twin: two members of one class with the same docstring text, the rendered one (f / p) is the second
            # moved: a method of a class (the caller puts the class in a module that declares its own __docformat__)
            body8 = "\n".join(("        " + ln) if ln else "" for ln in ds.split("\n"))
            if '"""' in ds or "\\" in ds:
                raise MachineryError("generated docstring cannot be written as a raw triple-quoted string")
            deco = "    @property\n" if host == "property" else ""
            sig = "self" if host == "property" else f"self, {PARAMS}"
            members = (("q", "p") if host == "property" else ("g", "f")) if how == "twin" else ("f",)
            src.append(f"class {name}:\n" + "\n".join(f"{deco}    def {m}({sig}):\n        r\"\"\"\n{body8}\n        \"\"\"\n"
                                                      for m in members))
            continue
        final = ds
        if how == "assigned":
            # a stale docstring of its own first (parsed during the build for classes and properties), the final one
            # through an assignment to __doc__ (taken as it is: no margin to remove)
            ds = STALE
        if '"""' in ds or "\\" in ds:
            raise MachineryError("generated docstring cannot be written as a raw triple-quoted string")
        body = "\n".join(("    " + ln) if ln else "" for ln in ds.split("\n"))
        if host == "function":
            src.append(f"def {name}({PARAMS}):\n    r\"\"\"\n{body}\n    \"\"\"\n")
        elif host == "property":
            body8 = "\n".join(("        " + ln) if ln else "" for ln in ds.split("\n"))
            src.append(f"class {name}:\n    @property\n    def p(self):\n        r\"\"\"\n{body8}\n        \"\"\"\n")
        elif host == "attribute":
            src.append(f"class {name}:\n    a = 1\n    r\"\"\"\n{body}\n    \"\"\"\n")
        else:
            own = "".join(f"    {v} = 1\n    r\"\"\"{t}\"\"\"\n" for v, t in inlines.items())
            src.append(f"class {name}:\n    r\"\"\"\n{body}\n    \"\"\"\n{own}    def __init__(self, {PARAMS}):\n        pass\n")
        if how == "assigned":
            target = f"{name}.p" if host == "property" else name
            src.append(f"{target}.__doc__ = r\"\"\"{final}" + ("\n" if final.endswith('"') else "") + "\"\"\"\n")
    return "\n".join(src)


def make_system(docformat: str, processtypes: bool = False):
    from pydoctor import model

    class RecSystem(model.System):
        def __init__(self, *a: Any, **k: Any) -> None:
            super().__init__(*a, **k)
            self.log: List[Tuple[str, str]] = []

        def msg(self, section: str, msg: str, thresh: int = 0, topthresh: int = 100, nonl: bool = False,
                wantsnl: bool = True, once: bool = False) -> None:
            if thresh < 0:
                self.violations += 1
                self.log.append((section, msg))

    s = RecSystem()
    s.options.docformat = docformat
    s.options.processtypes = processtypes      # --process-types (google / numpy always process type fields)
    return s


def render_batch(fmt: str, cases: Sequence[Dict[str, Any]], processtypes: bool = False) -> List[Dict[str, Any]]:
    """
    cases: {id, host, docstring, attrs: [attribute names documented by var-like fields]}.
    Returns per case: {docstring (as pydoctor holds it), html, attr_html: {name: html}, log: [messages]}.
    """
    from pydoctor import epydoc2stan
    from pydoctor.stanutils import flatten

    afterprop = any(c.get("how") == "afterprop" for c in cases)
    moved = [c for c in cases if c.get("how") == "moved"]
    # "moved" documents are written in a module that declares their docformat; the system's default is another one
    system = make_system(fmt, processtypes)
    builder = system.systemBuilder(system)
    if moved:
        system.options.docformat = "restructuredtext" if fmt == "epytext" else "epytext"
        names = [f"o{c['id']}" for c in moved]
        builder.addModuleString("from ._impl import " + ", ".join(names) + "\n__all__ = " + repr(names) + "\n", "pk", is_package=True)
        builder.addModuleString(f'__docformat__ = "{fmt}"\n' + make_source([(f"o{c['id']}", "function", c["docstring"], {}, "moved")
                                                                               for c in moved]), "_impl", parent_name="pk")
        if len(moved) != len(cases):
            raise MachineryError("moved documents are rendered in batches of their own")
    if afterprop:
        # a module analysed before: its property docstring is the first docstring this system parses
        builder.addModuleString('class First:\n    @property\n    def value(self):\n        """int: wq902x wq903x."""\n        return 1\n', "a0")
    in_mod = [c for c in cases if c["host"] != "module" and c.get("how") != "moved"]
    builder.addModuleString(make_source([(f"o{c['id']}", c["host"], c["docstring"], c.get("inlines", {}), c.get("how", "direct"))
                                         for c in in_mod]), "m")
    for c in cases:
        if c["host"] == "module":
            body = c["docstring"]
            if '"""' in body or "\\" in body:
                raise MachineryError("generated docstring cannot be written as a raw triple-quoted string")
            own = "".join(f'{v} = 1\nr"""{t}"""\n' for v, t in c.get("inlines", {}).items())
            builder.addModuleString(f'r"""\n{body}\n"""\n{own}xc = 1\n', f"mm{c['id']}")
    builder.buildModules()
    # messages of the build phase (class / module docstrings are parsed there), attributed to the object whose source
    # lines they point into (messages carry "<module>:<line>:")
    starts = sorted((system.allobjects[f"m.o{c['id']}" + ("b" if c.get("how") in ("inherited", "narrowed") else "")].linenumber,
                     f"m.o{c['id']}") for c in in_mod)
    starts += sorted((system.allobjects[f"pk.o{c['id']}"].linenumber, f"m.o{c['id']}") for c in moved)
    by_obj: Dict[str, List[str]] = {}
    for (_, m) in system.log:
        mm = re.match(r"^([\w.]+):(\d+): ", m)
        if not mm:
            continue
        if mm.group(1) in ("m", "pk", "pk._impl"):
            k = bisect.bisect_right(starts, (int(mm.group(2)), "~")) - 1
            if k >= 0:
                by_obj.setdefault(starts[k][1], []).append(m)
        else:
            by_obj.setdefault(mm.group(1), []).append(m)
    res = []
    for c in cases:
        full = f"mm{c['id']}" if c["host"] == "module" else f"m.o{c['id']}"
        build_log = by_obj.get(full, [])
        if c["host"] == "property":
            full += ".p"
        elif c["host"] == "attribute":
            full += ".a"
        how = c.get("how", "direct")
        first = None
        if how in ("inherited", "narrowed"):
            # the documented method is rendered first, the overriding one after it: both use the linker of the source
            full, first = full + ".f", f"m.o{c['id']}b.f"
        elif how == "twin":
            first = f"m.o{c['id']}." + ("q" if c["host"] == "property" else "g")
            full += "" if c["host"] == "property" else ".f"
        elif how == "moved":
            full = f"pk.o{c['id']}.f"
        obj = system.allobjects[full]
        n0 = len(system.log)
        if first is not None:
            fo = system.allobjects[first]
            if c["host"] == "property":
                epydoc2stan.type2stan(fo)
            flatten(epydoc2stan.format_docstring(fo))
        # the type of an attribute / property is rendered in its header, before its docstring
        type_stan = epydoc2stan.type2stan(obj) if c["host"] in ("attribute", "property") else None
        type_html = flatten(type_stan) if type_stan is not None else ""
        html = flatten(epydoc2stan.format_docstring(obj))
        attr_html = {}
        for a in c.get("attrs", []):
            ao = system.allobjects.get(f"{full}.{a}")
            if ao is not None:
                attr_html[a] = flatten(epydoc2stan.format_docstring(ao))
        held = system.allobjects[first].docstring if how in ("inherited", "narrowed") else obj.docstring
        res.append({"docstring": held, "html": html, "attr_html": attr_html, "type_html": type_html,
                    "log": build_log + [m for (_, m) in system.log[n0:]]})
    return res


def whole_run(scratch: Any, fmt: str, cases: Sequence[Dict[str, Any]]) -> List[Optional[Dict[str, Any]]]:
    """
    The same docstrings through a complete pydoctor run (driver, templates, files on disk): a package is written,
    `python -m pydoctor` generates its HTML, and each function's docstring block is cut out of the module page.
    cases: {id, docstring} (functions only).  Returns per case {html: Node, attr_html: {}, log: [...]} or None.
    """
    import subprocess
    import sys
    import shutil
    root = scratch / f"whole_{fmt}"
    shutil.rmtree(root, ignore_errors=True)
    (root / "wr").mkdir(parents=True)
    src = make_source([(f"o{c['id']}", "function", c["docstring"]) for c in cases])
    (root / "wr" / "__init__.py").write_text(src)
    starts, line = [], 1
    for c, chunk in zip(cases, src.split("\ndef ")):
        starts.append((line, c["id"]))
        line += chunk.count("\n") + 1
    p = subprocess.run([sys.executable, "-m", "pydoctor", f"--docformat={fmt}", f"--html-output={root / 'out'}", "--project-name=wr",
                        "-q", "wr"], cwd=str(root), capture_output=True, text=True, timeout=900)
    page = root / "out" / "wr.html"
    if not page.exists():
        raise MachineryError(f"whole run produced no page (rc={p.returncode}): {p.stdout[-500:]} {p.stderr[-500:]}")
    logs: Dict[int, List[str]] = {}
    for m in p.stdout.splitlines():
        mm = re.match(r"^\S*(?:wr|__init__\.py):(\d+): ", m)      # "<path>/wr/__init__.py:<line>: message"
        if mm:
            k = bisect.bisect_right(starts, (int(mm.group(1)), 10 ** 9)) - 1
            if k >= 0:
                logs.setdefault(starts[k][1], []).append(m)
    tree = parse_html(page.read_text())
    blocks: Dict[str, Node] = {}
    for fn in tree.find_all(lambda n: n.tag == "div" and has_cls(n, "basefunction")):
        names = [a.name for a in fn.find_all(lambda n: n.tag == "a" and n.name.startswith("wr."))]
        body = fn.find_all(lambda n: n.tag == "div" and has_cls(n, "docstring"))
        if names and body:
            blocks[names[0]] = body[0]
    shutil.rmtree(root, ignore_errors=True)
    res: List[Optional[Dict[str, Any]]] = []
    for c in cases:
        b = blocks.get(f"wr.o{c['id']}")
        res.append(None if b is None else {"html": b, "attr_html": {}, "log": logs.get(c["id"], [])})
    return res


# =============================================================================== the verdict (property C09)
def subsequence(needle: Sequence[str], hay: Sequence[str]) -> bool:
    it = iter(hay)
    return all(any(x == y for y in it) for x in needle)


def contiguous(needle: Sequence[str], hay: Sequence[str]) -> bool:
    n = len(needle)
    return n == 0 or any(list(hay[i:i + n]) == list(needle) for i in range(len(hay) - n + 1))


def bad_field(bad: List[Dict[str, Any]]) -> bool:
    return any(b["invariant"] == "FieldShownOrReported" for b in bad)


def judge(rec: Dict[str, Any], fmt: str, docstring: str, r: Dict[str, Any],
          reported: Optional[List[Dict[str, Any]]] = None) -> List[Dict[str, Any]]:
    """
    rec: the record TLC printed (doc + expected streams).  r: what the real pipeline produced.
    Returns the failed clauses of the property with what was expected / observed; fields that are not shown
    faithfully but were reported in a warning are appended to `reported`.
    """
    bad: List[Dict[str, Any]] = []
    if reported is None:
        reported = []
    if fmt == "plaintext":
        root = parse_html(r["html"])
        pre = root.find_all(lambda n: n.tag == "p" and has_cls(n, "pre"))
        shown = pre[0].all_text() if len(pre) == 1 else root.all_text()
        if shown != docstring or words_of(root.spaced_text()) != words_of(docstring):
            bad.append({"invariant": "PlaintextExact", "expected": docstring, "observed": root.all_text()})
        return bad
    ob = observe(r["html"])
    log = r["log"]
    fault = rec.get("fault", -1)
    if fault == 0:
        # the description cannot be turned into HTML: the fallback shows the docstring as plain text - every word of it,
        # in order (what could be extracted as fields may be shown once more)
        want = [word(i) for i in rec["all"]]
        if not subsequence(want, ob["allwords"]):
            bad.append({"invariant": "FallbackShowsText", "expected": want, "observed": ob["allwords"], "warnings": log})
        return bad
    exp_body = [word(i) for i in rec["text"]]
    exp_pre = [norm_block(verb_text(v)) for v in rec["verbatim"]]
    # a property's return field whose docstring has no description of its own is presented AS the description
    # (epytext / reST; google / numpy produce a "returns" field, which stays a row)
    as_desc = None
    for f in rec["fields"]:
        if f["where"] == "description" and not exp_body and ob["body"] == [word(i) for i in f["words"]]:
            as_desc = f
            exp_body = [word(i) for i in f["words"]]
            exp_pre = [norm_block(verb_text(v)) for v in f["verb"]]
    if ob["body"] != exp_body:
        bad.append({"invariant": "BodyText", "expected": exp_body, "observed": ob["body"]})
    if ob["pre"] != exp_pre:
        bad.append({"invariant": "BodyVerbatim", "expected": exp_pre, "observed": ob["pre"]})
    shown: List[str] = []           # every vocabulary word shown outside the description
    for row in ob["rows"]:
        shown += row["words"]
    for a in ob["adm"]:
        shown += a["words"]
    attr_obs = {a: observe(h) for a, h in r["attr_html"].items()}
    fault_attr = rec["fields"][fault - 1]["arg"] if fault > 0 else None
    for a, o in attr_obs.items():
        if a == fault_attr:
            continue
        shown += o["body"]
        for row in o["rows"]:
            shown += row["words"]
    expected_shown: List[str] = []
    for fidx, f in enumerate(rec["fields"]):
        fw = [word(i) for i in f["words"]]
        fpre = [norm_block(verb_text(v)) for v in f["verb"]]
        kind, arg, entry = f["kind"], f["arg"], f["entry"]
        ok = False
        words_ok = False
        if f is as_desc:
            continue
        body0 = regions(rec["doc"])[fidx + 1][1]
        if body0.get("style") in ("tparam", "tbare") and f["where"] == "row":
            # a structured type: the cell of its entry shows exactly the expression (name: type for parameters)
            ttext = para_lines(body0, True, False)[0]
            want_cell = (f"{arg}:" if arg else "") + ttext
            labels = LABELS.get(entry, ())
            cells = [row["argcell"] for row in ob["rows"] if row["label"] in labels and (not arg or row["arg"] == arg)]
            if want_cell not in cells:
                bad.append({"invariant": "TypeTextExact", "field": {"index": fidx, "kind": kind, "arg": arg},
                            "expected": want_cell, "observed": cells, "warnings": log})
        if fidx == fault - 1:
            # the field's body is the description of the variable it documents and cannot be turned into HTML: the
            # variable's entry falls back on the plain text of the docstring the field stands in
            o = attr_obs.get(arg)
            named_here = [m for m in log if arg and re.search(rf"\b{re.escape(arg)}\b", m)]
            if (o is None or not subsequence(fw, o["allwords"])) and not named_here:
                bad.append({"invariant": "FallbackShowsText", "field": {"index": fidx, "kind": kind, "arg": arg},
                            "expected": fw, "observed": o["allwords"] if o else None, "warnings": log})
            continue
        if f.get("inline"):
            # the variable's own docstring: shown with the variable, or reported as ignored
            iw = word(f["inline"])
            o = attr_obs.get(arg)
            if not ((o is not None and iw in o["body"]) or any("Docstring ignored" in m for m in log)):
                bad.append({"invariant": "InlineDocstringShownOrReported", "field": {"index": fidx, "kind": kind, "arg": arg},
                            "expected": [iw], "observed": o["body"] if o else None, "warnings": log})
        typeline_ok = False
        if f["where"] == "typeline":
            tw = words_of(parse_html(r.get("type_html", "")).spaced_text())
            shown += tw
            typeline_ok = tw == fw
            ok = words_ok = typeline_ok
        # (a property's rtype that arrives through a __doc__ assignment is an ordinary field of the Returns row)
        if f["where"] == "typeline" and (typeline_ok or rec["host"] != "property"):
            pass
        elif f["where"] == "attribute":
            o = attr_obs.get(arg)
            ok = o is not None and o["body"] == fw and o["pre"] == fpre
            words_ok = o is not None and o["body"] == fw
        else:
            labels = LABELS.get(entry, (f"Unknown Field: {kind}",))
            for row in ob["rows"]:
                # a field without argument has no name cell of its own (a type may be shown there)
                if row["label"] in labels and (not arg or row["arg"] == arg) and contiguous(fw, row["words"]):
                    words_ok = True
                    if contiguous(fpre, row["pre"]):
                        ok = True
            if fmt in ("google", "numpy") and kind in ADMONITION:      # these styles present notes as admonitions
                for a in ob["adm"]:                                     # (one admonition may hold several See Also items)
                    if ADMONITION[kind] in a["cls"].split() and contiguous(fw, a["words"]):
                        words_ok = True
                        if contiguous(fpre, a["pre"]):
                            ok = True
        if ok:
            expected_shown += fw
            continue
        # not (or not faithfully) under its entry: then it must have been reported.  A warning that names the field
        # (its tag or argument) reports it; if every word of the field is still shown under its entry and only the
        # presentation of a block differs, a reported parse problem of this docstring counts as the report.
        named = [m for m in log if re.search(rf"\b{re.escape(kind)}\b", m) or (arg and re.search(rf"\b{re.escape(arg)}\b", m))]
        if named or (words_ok and any("bad docstring" in m for m in log)):
            if words_ok:
                expected_shown += fw
            reported.append({"kind": kind, "arg": arg, "by": (named or log)[0]})
            continue
        bad.append({"invariant": "FieldShownOrReported", "field": {"index": fidx, "kind": kind, "arg": arg,
                                                                  "entry": entry, "where": f["where"]},
                    "expected": fw, "observed_rows": [x for x in ob["rows"] if set(x["words"]) & set(fw)],
                    "warnings": log})
    # nothing of the fields may be duplicated or invented: a field found under its entry is shown exactly as often as
    # expected; no word is shown more often than the source has it
    cs, ce = Counter(shown), Counter(expected_shown)
    total = Counter(word(i) for f in rec["fields"] for i in f["words"])
    if fault <= 0 and not bad_field(bad) and (any(cs[x] != ce[x] for x in ce) or any(cs[x] > total[x] for x in cs)):
        bad.append({"invariant": "FieldTextExact", "expected": sorted(ce.elements()), "observed": sorted(cs.elements())})
    return bad


# =============================================================================== TLC configurations
CFG = """SPECIFICATION Spec
CONSTANTS MaxActions = {actions}
          MaxDepth = {depth}
          MaxFields = {fields}
          Kinds = {kinds}
          Blocks = {blocks}
          Hows = {hows}
          Forms = {forms}
          FreeChoice = {free}
CONSTRAINT Emit
INVARIANT OracleSane
"""
ALL_BLOCKS = ["para", "list", "lit", "doctest", "code", "section"]
ALL_KINDS = ["param", "arg", "keyword", "type", "return", "returns", "rtype", "returntype", "yield", "yields", "ytype",
             "yieldtype", "raise", "raises", "except", "warn", "warns", "see", "seealso", "note", "author", "since",
             "custom", "ivar", "cvar", "var"]


CONS_KINDS = ["param", "arg", "keyword", "type", "except", "var", "ivar", "cvar"]      # kinds with a consolidated form


def tla_set(xs: Sequence[str]) -> str:
    return "{" + ", ".join(json.dumps(x) for x in xs) + "}"


def tlc_documents(ctx: Ctx, cfg: str, timeout: int = 1500) -> Tuple[List[Dict[str, Any]], Dict[str, Any], Any]:
    r = ctx.tlc("DocModel", cfg, workers=(4 if ctx.quick else 8), check=True, timeout=timeout,
                java_opts=["-Xmx2g" if ctx.quick else "-Xmx6g"])       # (several run at a time: modest heaps)
    if r.violated:
        raise MachineryError(f"DocModel: the generator's own sanity invariant failed: {r.violated}")
    templates = None
    docs: Dict[str, Dict[str, Any]] = {}
    for rec in r.printed:
        if "templates" in rec:
            templates = rec["templates"]
        elif "doc" in rec:
            docs.setdefault(json.dumps(rec["doc"], sort_keys=True) + rec["host"] + rec.get("how", "direct"), rec)
    if templates is None or not docs:
        raise MachineryError("DocModel emitted nothing")
    r.printed, r.out = [], ""            # (hundreds of thousands of records in thorough: keep only the documents)
    return list(docs.values()), templates, r


def case_extras(rec: Dict[str, Any]) -> Dict[str, Any]:
    """attributes documented by var-like fields of a class / module docstring, and their own (inline) docstrings"""
    return {"attrs": [f["arg"] for f in rec["fields"] if f["where"] == "attribute"],
            "inlines": {f["arg"]: word(f["inline"]) for f in rec["fields"] if f.get("inline")}}


def work(args: Tuple[Any, ...]) -> Dict[str, Any]:
    """One batch: serialise, render with the real pipeline, judge.  Runs in a worker process."""
    fmt, recs, templates = args[:3]
    opts = args[3] if len(args) > 3 else {}
    cases, kept = [], []
    skipped = 0
    for i, rec in enumerate(recs):
        ds = serialise(rec["doc"], fmt, templates, rec["host"])
        if ds is None:
            skipped += 1
            continue
        cases.append({"id": i, "host": rec["host"], "how": rec.get("how", "direct"), "docstring": ds, **case_extras(rec)})
        kept.append(rec)
    out: Dict[str, Any] = {"fmt": fmt, "rendered": 0, "skipped": skipped, "bad": [], "parse_errors": [], "sample": None,
                           "reported": [], "nreported": 0, "nparse": 0}
    if not cases:
        return out
    results = render_batch(fmt, cases, processtypes=bool(opts.get("processtypes")))
    for c, rec, r in zip(cases, kept, results):
        if (r["docstring"] or "").rstrip("\n") != c["docstring"] and not (rec["host"] == "property" and r["docstring"] == ""):
            # (a property whose return field became its description has its docstring blanked by the builder)
            raise MachineryError(f"docstring did not reach pydoctor unchanged: {c['docstring']!r} vs {r['docstring']!r}")
        out["rendered"] += 1
        perr = [m for m in r["log"] if "bad docstring" in m]
        if perr:
            out["nparse"] += 1
            if len(out["parse_errors"]) < 2:
                out["parse_errors"].append({"format": fmt, "input": c["docstring"], "log": perr})
        rep: List[Dict[str, Any]] = []
        bad = judge(rec, fmt, r["docstring"] or c["docstring"], r, rep)      # (plaintext: exact w.r.t. the docstring pydoctor holds)
        if rep:
            out["nreported"] += len(rep)
            if len(out["reported"]) < 2:
                out["reported"].append({"format": fmt, "input": c["docstring"], "reported": rep})
        if bad:
            out["bad"].append({"format": fmt, "rec": rec, "input": c["docstring"], "failed": bad, "html": r["html"],
                               "log": r["log"], "processtypes": bool(opts.get("processtypes"))})
        if out["sample"] is None and len(rec["doc"]) >= 4:
            out["sample"] = {"format": fmt, "input": c["docstring"], "expected_text": rec["text"],
                             "visible": observe(r["html"])["body"] if fmt != "plaintext" else "(exact)"}
    return out


def shape_of(rec: Dict[str, Any]) -> str:
    first = rec["doc"][0]
    return rec["host"] + "/" + rec.get("how", "direct") + "/" + str(first.get("style", "")) + "/" + ",".join(
        n["t"] + ":" + str(n.get("kind", n.get("lt", ""))) + ":" + str(n.get("form", "")) + ":" + str(n.get("lv", 0)) for n in rec["doc"])


def stratified_sample(recs: List[Dict[str, Any]], n: int, rng: Any) -> List[Dict[str, Any]]:
    """n documents, one from every shape class in turn (classes and members in a seed-determined order)"""
    groups: Dict[str, List[Dict[str, Any]]] = {}
    for x in sorted(recs, key=lambda x: json.dumps(x["doc"], sort_keys=True) + x["host"] + x.get("how", "")):
        groups.setdefault(shape_of(x), []).append(x)
    order = sorted(groups)
    rng.shuffle(order)
    for k in order:
        rng.shuffle(groups[k])
    out: List[Dict[str, Any]] = []
    while len(out) < n and order:
        for k in list(order):
            out.append(groups[k].pop())
            if not groups[k]:
                order.remove(k)
            if len(out) >= n:
                break
    return out


def run_documents_multi(ctx: Ctx, jobs: Sequence[Tuple[List[Dict[str, Any]], Dict[str, Any], Sequence[str], Dict[str, Any]]],
                        batch: int = 200) -> List[List[Dict[str, Any]]]:
    """run_documents for several configurations with ONE pool of workers; returns the outputs per job"""
    import multiprocessing as mp
    from pydoctor import epydoc2stan, model, stanutils                                   # noqa: F401
    from pydoctor.epydoc.markup import epytext, restructuredtext, google, numpy, plaintext  # noqa: F401
    tasks: List[Tuple[Any, ...]] = []
    owner: List[int] = []
    for j, (recs, templates, formats, opts) in enumerate(jobs):
        moved = [x for x in recs if x.get("how") == "moved"]             # rendered in batches (systems) of their own
        after = [x for x in recs if x.get("how") == "afterprop"]
        rest = [x for x in recs if x.get("how") not in ("moved", "afterprop")]
        for part in (rest, moved, after):
            for fmt in formats:
                for ch in chunks(part, batch):
                    tasks.append((fmt, list(ch), templates, opts))
                    owner.append(j)
    res: List[List[Dict[str, Any]]] = [[] for _ in jobs]
    if tasks:
        with mp.get_context("fork").Pool(max(1, min(os.cpu_count() or 4, 16, len(tasks)))) as pool:
            for j, o in zip(owner, pool.map(work, tasks, chunksize=1)):
                res[j].append(o)
    return res


def run_documents(ctx: Ctx, recs: List[Dict[str, Any]], templates: Dict[str, Any], formats: Sequence[str],
                  batch: int = 250, opts: Optional[Dict[str, Any]] = None) -> List[Dict[str, Any]]:
    import multiprocessing as mp
    # import the implementation once, in the parent: the forked workers inherit it instead of importing it 16 times per pool
    from pydoctor import epydoc2stan, model, stanutils                                   # noqa: F401
    from pydoctor.epydoc.markup import epytext, restructuredtext, google, numpy, plaintext  # noqa: F401
    moved = [x for x in recs if x.get("how") == "moved"]
    after = [x for x in recs if x.get("how") == "afterprop"]
    rest = [x for x in recs if x.get("how") not in ("moved", "afterprop")]
    tasks = [(fmt, list(ch), templates, opts or {}) for part in (rest, moved, after) for fmt in formats for ch in chunks(part, batch)]
    nproc = max(1, min(os.cpu_count() or 4, 16, len(tasks)))
    with mp.get_context("fork").Pool(nproc) as pool:
        return pool.map(work, tasks, chunksize=1)


# =============================================================================== Epytext.tla <-> epytext.parse
EP_CFG = """SPECIFICATION Spec
CONSTANTS MaxTokens = {n}
          Indents = {indents}
          Bullets = {bullets}
          Levels = {levels}
CONSTRAINT Emit
INVARIANT Conserved
INVARIANT NoCrash
INVARIANT NoTwoNone
"""
UNDERLINE = "=-~"
BULLET_TEXT = {"u": "-", "o1": "1.", "o2": "2."}


def ep_render(toks: Sequence[Dict[str, Any]]) -> str:
    """Epytext source whose token stream is `toks` (token k carries the content number k)."""
    lines = ["", ""]                       # no token starts on line 1 (see Epytext.tla header)
    k = 0
    while k < len(toks):
        t = toks[k]
        nxt = toks[k + 1] if k + 1 < len(toks) else None
        n = k + 1
        lit_after = lambda j: "::" if j + 1 < len(toks) and toks[j + 1]["tag"] == "lit" else ""
        pad = " " * max(t["ind"], 0)
        if t["tag"] == "bullet":
            b = BULLET_TEXT.get(t["kind"]) or f"@f{n}:"
            if nxt is not None and nxt["tag"] == "para":
                if nxt["ind"] < 0:
                    lines.append(f"{pad}{b} p{n + 1}{lit_after(k + 1)}")
                else:
                    lines.append(f"{pad}{b} p{n + 1}")
                    lines.append(" " * nxt["ind"] + f"q{n + 1}{lit_after(k + 1)}")
                k += 1
            else:
                lines.append(f"{pad}{b}")
        elif t["tag"] == "para":
            lines.append(f"{pad}p{n}{lit_after(k)}")
        elif t["tag"] == "heading":
            lines.append(f"{pad}h{n}")
            lines.append(pad + UNDERLINE[t["level"]] * len(f"h{n}"))
        elif t["tag"] == "lit":
            lines.append(f"{pad}  l{n}")
        elif t["tag"] == "doctest":
            lines.append(f"{pad}>>> d{n}")
        else:
            raise AssertionError(t)
        lines.append("")
        k += 1
    return "\n".join(lines)


REAL_TAG = {"para": "para", "heading": "heading", "literalblock": "lit", "doctestblock": "doctest", "bullet": "bullet"}


def ep_real(text: str) -> Dict[str, Any]:
    """What the real tokenizer and the real parse() make of `text`."""
    from pydoctor.epydoc.markup import epytext, ParseError
    terrs: List[Any] = []
    rtoks = [[REAL_TAG[t.tag], -1 if t.indent is None else t.indent] for t in epytext._tokenize(text.expandtabs(), terrs)]
    errs: List[Any] = []
    crash = None
    tree = None
    try:
        tree = epytext.parse(text, errs)
    except ParseError:
        pass
    except Exception as e:                # noqa: BLE001 - what escapes parse() is the observation
        crash = f"{type(e).__name__}: {e}"
    flat: List[List[Any]] = []

    def num(s: str) -> int:
        m = re.search(r"\d+", s)
        return int(m.group()) if m else 0

    def walk(e: Any, d: int) -> None:
        tag = e.tag
        if tag in ("para", "heading", "literalblock", "doctestblock"):
            flat.append([d, tag, num(" ".join(epytext.gettext(e)))])
            return
        if tag == "field":
            flat.append([d, tag, num(" ".join(epytext.gettext(e.children[0])))])
        else:
            flat.append([d, tag, 0])
        for c in e.children:
            if not isinstance(c, str) and c.tag not in ("tag", "arg"):
                walk(c, d + 1)

    if tree is not None:
        walk(tree, 0)
    return {"tokens": rtoks, "tree": flat if tree is not None else None, "crash": crash,
            "errs": [e._descr if hasattr(e, "_descr") else str(e) for e in errs],
            "tokenizer_errs": [str(e) for e in terrs]}


def pipeline_conserves(want: Sequence[str], got: Sequence[str], log: Sequence[str]) -> bool:
    """every content word is visible, in source order; anything beyond that (the fallback shows the raw docstring and
    the fields that could still be extracted) only together with a reported parse problem"""
    it = iter(got)
    in_order = all(any(x == y for y in it) for x in want)
    return in_order and (list(got) == list(want) or any("bad docstring" in m for m in log))


def ep_check(args: List[Dict[str, Any]]) -> Dict[str, Any]:
    """One batch of Epytext.tla terminal records against the real code.  Runs in a worker process."""
    out: Dict[str, Any] = {"n": 0, "unrealisable": 0, "bad": [], "drift": [], "with_errors": 0, "crash": 0,
                           "fields_not_last": [], "sample": None}
    for rec in args:
        toks = rec["toks"]
        text = ep_render(toks)
        real = ep_real(text)
        if real["tokens"] != [[t["tag"], t["ind"]] for t in toks] or real["tokenizer_errs"]:
            out["unrealisable"] += 1          # the rendering does not tokenize to this stream: not an input of the model
            if len(out["drift"]) < 3 and out["unrealisable"] <= 3:
                out.setdefault("unrealisable_examples", []).append({"toks": toks, "text": text, "real": real["tokens"]})
            continue
        out["n"] += 1
        content = [k + 1 for k, t in enumerate(toks) if not (t["tag"] == "bullet" and t["kind"] != "f")]
        # ---- verdict (property): parse() returned a tree (no fatal error was raised) => every content-bearing token is
        #      in the tree, once, in order
        if real["tree"] is not None:
            got = [x[2] for x in real["tree"] if x[1] in ("para", "heading", "literalblock", "doctestblock", "field")]
            if got != content:
                out["bad"].append({"invariant": "StructurerConserves", "toks": toks, "input": text, "expected": content,
                                   "observed": got, "tree": real["tree"]})
        else:
            out["with_errors"] += 1
        if real["crash"]:
            out["crash"] += 1
        # ---- conformance (model vs code)
        mtree = [[n["d"], n["tag"], 0 if n["tag"] == "li" else n["id"]] for n in rec["tree"]]
        fatal = bool(rec["errs"])
        same = (bool(real["crash"]) == rec["crash"]) and (rec["crash"] or real["errs"] == rec["errs"]) and \
               (fatal or rec["crash"] or real["tree"] == mtree)
        if not same:
            out["drift"].append({"toks": toks, "input": text, "model": {"tree": mtree, "errs": rec["errs"], "crash": rec["crash"]},
                                 "real": {"tree": real["tree"], "errs": real["errs"], "crash": real["crash"]}})
        if not rec["fieldsLast"] and len(out["fields_not_last"]) < 50:
            out["fields_not_last"].append(text)
        if out["sample"] is None and len(toks) >= 3 and not fatal:
            out["sample"] = {"tokens": toks, "epytext": text, "tree": real["tree"]}
    return out


# =============================================================================== known findings (Python twins)
# All C09 findings are fixed in /repo (findings.d/C09.json keeps their history); no open finding, no matcher.
MATCHERS: Dict[str, Any] = {}


# =============================================================================== check
def plan(ctx: Ctx) -> List[Dict[str, Any]]:
    """TLC configurations of DocModel per tier; `sample` = number of documents replayed (None = all)."""
    rep = ["param", "return", "note", "custom", "ivar"]
    if ctx.quick:
        return [
            dict(name="structure<=3", actions=3, depth=3, fields=2, kinds=rep, blocks=ALL_BLOCKS, free=False, sample=1600),
            dict(name="fields", actions=2, depth=1, fields=2, kinds=ALL_KINDS, blocks=["para"], free=False, sample=None),
            dict(name="structure=4", actions=4, depth=3, fields=1, kinds=["param", "note"], blocks=ALL_BLOCKS, free=False,
                 sample=400),
            dict(name="styles-free<=2", actions=2, depth=1, fields=2, kinds=["param", "returns", "note"], blocks=["para"], free=True,
                 sample=1000, hows=["direct", "afterprop"]),
            dict(name="history-fault<=3", actions=3, depth=1, fields=2, kinds=["param", "return", "note", "ivar"],
                 blocks=["para", "list", "doctest", "poison"], free=False, sample=900, hows=["assigned", "inherited", "direct"],
                 need="history-or-fault"),
            dict(name="histories<=3", actions=3, depth=1, fields=2, kinds=["param", "return", "rtype", "note"], blocks=["para", "list"],
                 free=False, sample=900, hows=["twin", "narrowed", "moved"], need="history"),
            dict(name="version-directive<=3", actions=3, depth=1, fields=1, kinds=["param", "note"], blocks=["para", "list", "version"],
                 free=False, sample=400, formats=["restructuredtext", "google", "numpy", "plaintext"], need="version"),
            dict(name="typed-fields<=4", actions=4, depth=1, fields=4, kinds=["param", "type", "return", "rtype"], blocks=["typed"],
                 free=False, sample=600, hows=["direct", "inherited"], processtypes=True,
                 formats=["epytext", "restructuredtext", "google", "numpy"], need="typed"),
            dict(name="numpy-see-also<=3", actions=4, depth=1, fields=3, kinds=["seealso", "param"], blocks=["para"], free=False,
                 sample=900, forms=["plain", "nsee"], formats=["numpy"], need_form="nsee"),
            dict(name="rst-consolidated<=3", actions=3, depth=2, fields=2, kinds=["param", "keyword", "except", "ivar", "type"],
                 blocks=["para", "list", "lit"],
                 free=False, sample=800, forms=["plain", "cbullet", "cdef"], formats=["restructuredtext"]),
        ]
    return [
        dict(name="structure<=4", actions=4, depth=3, fields=2, kinds=rep, blocks=ALL_BLOCKS, free=False, sample=None),
        dict(name="fields<=3", actions=3, depth=2, fields=3, kinds=ALL_KINDS, blocks=["para", "list", "lit"], free=False,
             sample=25000),
        dict(name="free-choice", actions=3, depth=3, fields=1, kinds=["param", "raises"], blocks=ALL_BLOCKS, free=True,
             sample=20000),
        dict(name="styles-free<=2", actions=2, depth=1, fields=2, kinds=["param", "returns", "note"], blocks=["para"], free=True,
             sample=None, hows=["direct", "afterprop"]),
        dict(name="structure=5", actions=5, depth=3, fields=1, kinds=["param", "note"], blocks=ALL_BLOCKS, free=False,
             sample=25000),
        dict(name="nesting<=6", actions=6, depth=3, fields=0, kinds=[], blocks=["para", "list", "lit", "doctest"], free=False,
             sample=20000),
        dict(name="histories<=4", actions=4, depth=2, fields=3, kinds=["param", "return", "rtype", "note", "keyword"],
             blocks=["para", "list", "lit"], free=False, sample=20000, hows=["twin", "narrowed", "moved"], need="history"),
        dict(name="history-fault<=4", actions=4, depth=2, fields=2, kinds=["param", "return", "note", "ivar", "raises"],
             blocks=["para", "list", "lit", "doctest", "poison"], free=False, sample=12000, hows=["assigned", "inherited", "direct"],
             need="history-or-fault"),
        dict(name="version-directive<=4", actions=4, depth=2, fields=1, kinds=["param", "note"], blocks=["para", "list", "lit", "version"],
             free=False, sample=8000, formats=["restructuredtext", "google", "numpy", "plaintext"], need="version"),
        dict(name="typed-fields<=4", actions=4, depth=1, fields=4, kinds=["param", "type", "return", "rtype"], blocks=["typed"],
             free=False, sample=None, hows=["direct", "inherited"], processtypes=True,
             formats=["epytext", "restructuredtext", "google", "numpy"], need="typed"),
        dict(name="numpy-see-also<=4", actions=5, depth=1, fields=4, kinds=["seealso", "param"], blocks=["para"],
             free=False, sample=None, forms=["plain", "nsee"], formats=["numpy"], need_form="nsee"),
        dict(name="rst-consolidated<=4", actions=4, depth=2, fields=2, kinds=CONS_KINDS + ["note"], blocks=["para", "list", "lit", "doctest", "code"],
             free=False, sample=30000, forms=["plain", "cbullet", "cdef"], formats=["restructuredtext"]),
    ]


def witness_key(fmt: str, f: Dict[str, Any], rec: Dict[str, Any]) -> str:
    shape = ",".join(n["t"] + (":" + n["kind"] if n["t"] == "field" else "") for n in rec["doc"])[:80]
    return f"{f['invariant']}:{fmt}:{(f.get('field') or {}).get('kind')}:{shape}"


def run(ctx: Ctx) -> int:
    import random
    rng = random.Random(ctx.seed)
    for fid, fn in MATCHERS.items():
        ctx.register_matcher(fid, fn)

    # ------------------------------------------------------------------ DocModel -> real pipeline
    stats: Dict[str, Dict[str, int]] = {f: {"rendered": 0, "not_expressible": 0, "violating_documents": 0,
                                            "with_parse_warnings": 0, "fields_reported_not_shown": 0} for f in FORMATS}
    cfg_stats = []
    nontrivial = 0
    examples_parse: List[Any] = []
    examples_reported: List[Any] = []
    usage = {a: 0 for a in ("AddPara", "OpenList", "AddItem", "CloseList(fused)", "AddLiteral", "AddDoctest", "AddCode",
                            "OpenSection", "AddField")}
    all_exhaustive = True
    whole_pool: List[Dict[str, Any]] = []
    whole_templates: Dict[str, Any] = {}
    plans = plan(ctx)
    ctx.spec_dir()                        # stage the specs once, the enumerations below run concurrently

    def enumerate_cfg(job: Tuple[int, Dict[str, Any]]) -> Tuple[List[Dict[str, Any]], Dict[str, Any], Any, int]:
        """TLC enumeration of one configuration, filtered to what the configuration is about and (quick / large spaces)
        sampled at once - deterministic for a seed, stratified by shape - so that only the sample stays in memory"""
        idx, pl = job
        cfg = CFG.format(actions=pl["actions"], depth=pl["depth"], fields=pl["fields"], kinds=tla_set(pl["kinds"]),
                         blocks=tla_set(pl["blocks"]), forms=tla_set(pl.get("forms", ["plain"])),
                         hows=tla_set(pl.get("hows", ["direct"])), free="TRUE" if pl["free"] else "FALSE")
        recs, templates, r = tlc_documents(ctx, cfg)
        if pl.get("need") == "typed":
            recs = [x for x in recs if sum(1 for n in x["doc"] if n.get("style") in ("tparam", "tbare")) >= 2]
        elif pl.get("need") == "version":
            recs = [x for x in recs if any(n["t"] == "version" for n in x["doc"])]
        elif pl.get("need") == "history-or-fault":
            recs = [x for x in recs if x["how"] != "direct" or x["fault"] >= 0]
        elif pl.get("need") == "history":
            recs = [x for x in recs if x["how"] != "direct"]
        if pl.get("forms"):
            # documents without a consolidated field are the business of the other configurations
            recs = [x for x in recs if any(n["t"] == "field" and (n["form"] == pl["need_form"] if pl.get("need_form")
                                                                  else n["form"] != "plain") for n in x["doc"])]
        enumerated = len(recs)
        if pl["sample"] is not None and len(recs) > pl["sample"]:
            recs = stratified_sample(recs, pl["sample"], random.Random(ctx.seed * 1000 + idx))
        return recs, templates, r, enumerated

    if ctx.quick:
        ep_cfgs = [dict(n=3, indents="{0, 2, 4}", bullets='{"u", "o1", "o2", "f"}', levels="{0, 1}"),
                   dict(n=4, indents="{0, 2}", bullets='{"u", "o1", "f"}', levels="{1}")]
    else:
        ep_cfgs = [dict(n=4, indents="{0, 2, 4}", bullets='{"u", "o1", "o2", "f"}', levels="{0, 1}"),
                   dict(n=5, indents="{0, 2}", bullets='{"u", "o1", "f"}', levels="{0, 1}")]
    from concurrent.futures import ThreadPoolExecutor
    with ThreadPoolExecutor(max_workers=4 if ctx.quick else 2) as ex:
        enumerated_cfgs = list(ex.map(enumerate_cfg, list(enumerate(plans))))
        # (the Epytext enumerations of the second half of the check)
        ep_results = list(ex.map(lambda ec: ctx.tlc("Epytext", EP_CFG.format(**ec), workers=(6 if ctx.quick else 8), check=True,
                                                    coverage=ctx.quick, timeout=3000,
                                                    java_opts=["-Xmx2g" if ctx.quick else "-Xmx8g"]), ep_cfgs))

    per_cfg: List[Tuple[Dict[str, Any], List[Dict[str, Any]], Dict[str, Any], Any, int]] = []
    for pl, (recs, templates, r, enumerated) in zip(plans, enumerated_cfgs):
        if len(recs) < enumerated:
            all_exhaustive = False
        if not whole_pool:
            whole_pool, whole_templates = list(recs), templates
        per_cfg.append((pl, recs, templates, r, enumerated))
    all_outs = run_documents_multi(ctx, [(recs, templates, pl.get("formats", FORMATS), {"processtypes": bool(pl.get("processtypes"))})
                                         for (pl, recs, templates, r, enumerated) in per_cfg])
    for (pl, recs, templates, r, enumerated), outs in zip(per_cfg, all_outs):
        for o in outs:
            st = stats[o["fmt"]]
            st["rendered"] += o["rendered"]
            st["not_expressible"] += o["skipped"]
            st["violating_documents"] += len(o["bad"])
            st["with_parse_warnings"] += o["nparse"]
            st["fields_reported_not_shown"] += o["nreported"]
            ctx.traces += o["rendered"]
            if o["sample"] is not None:
                ctx.sample(o["sample"], limit=4)
            if len(examples_parse) < 4:
                examples_parse += o["parse_errors"][:1]
            if len(examples_reported) < 4:
                examples_reported += o["reported"][:1]
            for b in o["bad"]:
                for f in b["failed"]:
                    ctx.violation({"invariant": f["invariant"], "origin": "DocModel", "format": b["format"], "input": b["input"],
                                   "rec": b["rec"], "failed": f, "observed_html": b["html"][:3000], "warnings": b["log"],
                                   "processtypes": b.get("processtypes", False),
                                   "key": witness_key(b["format"], f, b["rec"])})
        nontrivial += sum(1 for x in recs if len(x["doc"]) >= 3)
        for x in recs:
            d = x["doc"]
            for i, n in enumerate(d):
                prev = d[i - 1] if i else None
                if n["t"] == "para" and not (prev and prev["t"] in ("item", "field")):
                    usage["AddPara"] += 1
                elif n["t"] == "item":
                    usage["OpenList" if n["n"] == 1 else "AddItem"] += 1
                elif n["t"] in ("lit", "doctest", "code"):
                    usage[{"lit": "AddLiteral", "doctest": "AddDoctest", "code": "AddCode"}[n["t"]]] += 1
                elif n["t"] == "head":
                    usage["OpenSection"] += 1
                elif n["t"] == "field":
                    usage["AddField"] += 1
                if prev and n["t"] not in ("field", "head") and prev["reg"] == n["reg"] and \
                        (n["lv"] - (1 if n["t"] == "item" else 0)) < prev["lv"]:
                    usage["CloseList(fused)"] += 1
        cfg_stats.append({"cfg": pl["name"], "constants": {k: pl[k] for k in ("actions", "depth", "fields", "kinds", "blocks", "free")},
                          "forms": pl.get("forms", ["plain"]), "formats": pl.get("formats", FORMATS),
                          "documents_enumerated": enumerated, "documents_replayed": len(recs),
                          "tlc_distinct_states": r.distinct})
    # ------------------------------------------------------------------ a sample through a complete pydoctor run
    wr_n = 100 if ctx.quick else 1200
    pool_recs = [x for x in whole_pool if x["host"] == "function"]
    pool_recs.sort(key=lambda x: json.dumps(x["doc"], sort_keys=True))
    pool_recs = rng.sample(pool_recs, min(len(pool_recs), wr_n))
    wr_stats = {"documents": 0, "missing_block": 0, "violating_documents": 0}
    for fmt in FORMATS:
        cases, kept = [], []
        for i, rec in enumerate(pool_recs):
            ds = serialise(rec["doc"], fmt, whole_templates)
            if ds is not None:
                cases.append({"id": i, "docstring": ds})
                kept.append(rec)
        if not cases:
            continue
        for c, rec, res in zip(cases, kept, whole_run(ctx.scratch, fmt, cases)):
            if res is None:
                wr_stats["missing_block"] += 1
                continue
            wr_stats["documents"] += 1
            ctx.traces += 1
            failed = judge(rec, fmt, c["docstring"], res)
            if failed:
                wr_stats["violating_documents"] += 1
            for f in failed:
                ctx.violation({"invariant": f["invariant"], "origin": "whole-run", "format": fmt, "input": c["docstring"], "rec": rec,
                               "failed": f, "warnings": res["log"], "key": "wr:" + witness_key(fmt, f, rec)})
    if wr_stats["missing_block"] > 0.1 * max(1, wr_stats["documents"]):
        raise MachineryError(f"whole run: docstring blocks not found in the generated page: {wr_stats}")
    ctx.extra["whole_run"] = wr_stats
    ctx.extra["docmodel_configurations"] = cfg_stats
    ctx.extra["per_format"] = stats
    ctx.extra["parse_warning_examples"] = examples_parse
    ctx.extra["reported_not_shown_examples"] = examples_reported

    # which builder actions the replayed documents exercise (vacuity check)
    ctx.extra["docmodel_action_usage"] = usage
    ctx.extra["docmodel_actions_never_taken"] = [a for a, n in usage.items() if n == 0]

    # ------------------------------------------------------------------ Epytext.tla <-> epytext.parse
    import multiprocessing as mp
    ep_tot = {"sequences": 0, "unrealisable": 0, "with_fatal_error": 0, "escaping_exception": 0, "drift": 0,
              "fields_not_last_without_error": 0}
    fnl_texts: List[str] = []
    seen_seq = set()
    ep_records: List[Dict[str, Any]] = []
    for i, r in enumerate(ep_results):
        if r.violated:
            ctx.extra.setdefault("epytext_design_level_violations", []).extend(r.violated)
        if r.coverage:
            cov = ctx.extra.setdefault("epytext_action_coverage", {})
            for k, v in r.coverage.items():
                if k[0].isupper() and k not in ("Init", "Emit"):
                    cov[k] = cov.get(k, 0) + v
            ctx.extra["epytext_actions_never_taken"] = [k for k, v in cov.items() if v == 0]
        new = []
        for rec in r.printed:
            k = json.dumps(rec["toks"], sort_keys=True)
            if k not in seen_seq:
                seen_seq.add(k)
                new.append(rec)
        if not ep_records:
            ep_records = new[:50]
        with mp.get_context("fork").Pool(max(1, min(os.cpu_count() or 4, 16))) as pool:
            outs = pool.map(ep_check, [list(c) for c in chunks(new, 4000)])
        for o in outs:
            ep_tot["sequences"] += o["n"]
            ep_tot["unrealisable"] += o["unrealisable"]
            ep_tot["with_fatal_error"] += o["with_errors"]
            ep_tot["escaping_exception"] += o["crash"]
            ep_tot["drift"] += len(o["drift"])
            ctx.traces += o["n"]
            for dft in o["drift"]:
                ctx.drift_note({"origin": "Epytext", **dft})
            for b in o["bad"]:
                ctx.violation({"invariant": b["invariant"], "origin": "Epytext", "format": "epytext", "input": b["input"],
                               "toks": b["toks"], "expected": b["expected"], "observed": b["observed"],
                               "key": "ep:" + json.dumps([[t["tag"], t["ind"], t["kind"]] for t in b["toks"]])})
            fnl_texts += o["fields_not_last"]
            ep_tot["fields_not_last_without_error"] += len(o["fields_not_last"])
            if o["sample"] is not None:
                ctx.sample({"origin": "Epytext", **o["sample"]}, limit=6)
    if ep_tot["unrealisable"] > 0.1 * max(1, ep_tot["sequences"]):
        raise MachineryError(f"more than 10% of the Epytext token streams could not be realised as source: {ep_tot}")
    # the design-level observation "a field list that is not the last child, yet no error" through the whole pipeline:
    # parse_docstring only extracts a trailing field list - the text must still come out (or be reported)
    rng.shuffle(fnl_texts)
    fnl_texts = fnl_texts[:300]
    pipeline_bad = 0
    for batch in chunks(fnl_texts, 150):
        cases = [{"id": i, "host": "function", "docstring": inspect.cleandoc("\n" + t), "attrs": []} for i, t in enumerate(batch)]
        for c, res in zip(cases, render_batch("epytext", cases)):
            ctx.traces += 1
            want = re.findall(r"\b[pqhldf]\d+\b", c["docstring"])
            got = re.findall(r"\b[pqhldf]\d+\b", parse_html(res["html"]).spaced_text())
            if not pipeline_conserves(want, got, res["log"]):
                pipeline_bad += 1
                ctx.violation({"invariant": "PipelineConserves", "origin": "Epytext", "format": "epytext", "input": c["docstring"],
                               "expected": want, "observed": got, "warnings": res["log"], "key": "epp:" + c["docstring"][:60]})
    ep_tot["fields_not_last_through_pipeline"] = len(fnl_texts)
    ctx.extra["epytext_structurer"] = ep_tot

    # ------------------------------------------------------------------ negative controls
    nc = {"dropped_word_detected": False, "altered_verbatim_detected": False, "silent_field_detected": False,
          "epytext_tree_corruption_detected": False}
    ctl_doc = [{"t": "para", "reg": 0, "lv": 0, "style": "bold", "w": [1, 2, 3]},
               {"t": "doctest", "reg": 0, "lv": 0, "var": 1, "m": 4},
               {"t": "field", "reg": 1, "lv": 0, "kind": "note", "arg": ""},
               {"t": "para", "reg": 1, "lv": 0, "style": "code", "w": [5, 6]}]
    ctl_rec = {"doc": ctl_doc, "host": "function", "nw": 6, "text": [1, 2, 3, 4, 4],
               "verbatim": [{"kind": "doctest", "m": 4, "lines": templates["doctest"][0]}],
               "fields": [{"kind": "note", "arg": "", "entry": "note", "where": "row", "words": [5, 6], "verb": []}]}
    ds = serialise(ctl_doc, "epytext", templates)
    assert ds is not None
    res = render_batch("epytext", [{"id": 0, "host": "function", "docstring": ds, "attrs": []}])[0]
    if judge(ctl_rec, "epytext", ds, res):
        raise MachineryError(f"negative control baseline does not pass: {judge(ctl_rec, 'epytext', ds, res)}")
    nc["dropped_word_detected"] = any(b["invariant"] == "BodyText" for b in
                                      judge(ctl_rec, "epytext", ds, {**res, "html": res["html"].replace(word(2), "", 1)}))
    nc["altered_verbatim_detected"] = any(b["invariant"] == "BodyVerbatim" for b in
                                          judge(ctl_rec, "epytext", ds, {**res, "html": res["html"].replace(" = 1", " =  1", 1)}))
    nc["silent_field_detected"] = any(b["invariant"] == "FieldShownOrReported" for b in
                                      judge(ctl_rec, "epytext", ds, {**res, "html": re.sub(r"<table.*</table>", "", res["html"], flags=re.S)}))
    if ep_records:
        good = next((x for x in ep_records if not x["errs"] and len(x["tree"]) > 2), ep_records[0])
        broken = dict(good, tree=good["tree"][:-1])
        o = ep_check([broken])
        nc["epytext_tree_corruption_detected"] = len(o["drift"]) == 1 and len(ep_check([good])["drift"]) == 0
    ctx.extra["negative_control"] = nc
    if not all(nc.values()):
        raise MachineryError(f"negative control failed: {nc}")

    ctx.exhaustive = all_exhaustive
    ctx.assumptions += [
        "the serialisers (document -> epytext / reST / google / numpy / plain text) are trusted; a document a format cannot "
        "express unambiguously is skipped for that format and counted (not_expressible)",
        "verbatim blocks are compared after removing the block's common indentation and surrounding blank lines "
        "(the position of the block is markup, its inner layout is content)",
        "a field that is not shown faithfully under its entry counts as reported if a warning names its tag or argument, or - when all "
        "of its words are still shown under its entry - if a parse problem of that docstring was reported",
        "a second @return/@rtype/@yield/@ytype in one docstring is outside the generator (it redefines the first)",
        "Epytext.tla: sources start with two blank lines (the 'startline != 1' exemption of _add_list is not modelled); inline markup "
        "(_colorize) is exercised by DocModel only",
    ]
    return ctx.finish(
        rule="documents = behaviours of the DocModel builder machine (<= MaxActions builder actions, list nesting <= 3, fields of the "
             "enabled kinds), each serialised to every docformat that can express it and rendered by the real pipeline; token "
             "streams = behaviours of Epytext.tla replayed through epytext._tokenize/parse; distinct = distinct documents x formats "
             "+ distinct token streams; non-trivial = documents with at least 3 nodes",
        distinct_nontrivial=nontrivial + ep_tot["sequences"])


def replay(ctx: Ctx, path: str) -> int:
    w = json.load(open(path))
    bad: List[str] = []
    if w.get("origin") == "Epytext" and w["invariant"] == "StructurerConserves":
        real = ep_real(w["input"])
        got = [x[2] for x in (real["tree"] or []) if x[1] in ("para", "heading", "literalblock", "doctestblock", "field")]
        if real["tree"] is not None and got != w["expected"]:
            bad.append("StructurerConserves")
    elif w.get("origin") == "Epytext":
        res = render_batch("epytext", [{"id": 0, "host": "function", "docstring": w["input"], "attrs": []}])[0]
        if not pipeline_conserves(w["expected"], re.findall(r"\b[pqhldf]\d+\b", parse_html(res["html"]).spaced_text()), res["log"]):
            bad.append("PipelineConserves")
    else:
        rec = w["rec"]
        res = render_batch(w["format"], [{"id": 0, "host": rec["host"], "how": rec.get("how", "direct"), "docstring": w["input"],
                                          **case_extras(rec)}], processtypes=bool(w.get("processtypes")))[0]
        failed = judge(rec, w["format"], res["docstring"] or w["input"], res)
        bad = sorted({f["invariant"] for f in failed})
        for f in failed:
            print("  ", json.dumps({k: v for k, v in f.items() if k != "warnings"})[:600])
    print("replay:", "still violated: " + ",".join(bad) if bad else "holds now")
    if bad:
        print(f"VIOLATION property=C09 replay={path}")
    ctx.cleanup()
    return 1 if bad else 0
