"""
C14 - a displayed signature is the signature that was written.

spec -> code : TLC enumerates from spec/Signature.tla every valid parameter layout of <= 4 parameters (5 kinds x default x
               annotation {none, plain, string}) x return annotation {none, None, plain, string}, checks at design level
               that pydoctor's default alignment + separator placement reads back as the layout, and exports for each
               layout: Python's ast.arguments view (Ast), the expected read-back (Expected) and the model of what
               pydoctor prints (Items).  Every layout is written as a `def`, built by the real pydoctor (many per module),
               the text of pages.format_signature is read back with ast.parse and compared with Expected (verdict),
               and compared character by character with the model's text (conformance).  A quarter of the layouts are
               also built as @overload definitions (three per function): each overload must show its own layout.
machinery    : the written `def` parsed by CPython must give exactly the spec's Ast(layout).
thorough     : + layouts of up to 7 parameters sampled by TLC -simulate, + default / annotation expressions drawn from a
               pool (nested string annotations, Literal, tuples, lambdas ...).
"""
from __future__ import annotations

import ast
import functools
import itertools
import json
import multiprocessing as mp
import os
import random
import re
from typing import Any, Dict, List, Optional, Tuple

from ..core import Ctx, MachineryError

KIND_OF_AST = {"PO": "posonlyargs", "PK": "args", "VP": "vararg", "KO": "kwonlyargs", "VK": "kwarg"}

# expression a<i> / d<i> of parameter i in the exhaustive tier: distinct per position, trivially printable
PLAIN = ["int", "float", "bytes", "bool", "complex", "object", "list", "dict"]
STRG = ["str", "set", "tuple", "frozenset", "type", "range", "slice", "bytearray"]
# thorough tier: (written, shown) pairs; shown = the written expression with string annotations unquoted
ANN_POOL = [("int", "int"), ("List[int]", "List[int]"), ("Optional[str]", "Optional[str]"), ("Dict[str, int]", "Dict[str, int]"),
            ("Callable[[int], str]", "Callable[[int], str]"), ("int | None", "int | None"), ("typing.Any", "typing.Any"),
            ("Tuple[int, ...]", "Tuple[int, ...]"), ("Literal['a']", "Literal['a']"), ("Literal['a', 1]", "Literal['a', 1]"),
            ('"str"', "str"), ('"List[int]"', "List[int]"), ("'typing.Sequence[str]'", "typing.Sequence[str]"),
            ('Optional["Foo"]', "Optional[Foo]"), ('List["int"]', "List[int]"), ('Dict[str, "Foo.Bar"]', "Dict[str, Foo.Bar]"),
            ('"Optional[\'Foo\']"', "Optional[Foo]"), ('"int | None"', "int | None"), ('typing.Literal["x"]', "typing.Literal['x']"),
            # a quoted piece nested INSIDE a subscript whose expression needs its parentheses when shown unquoted
            ('Array["(n + 1) * m"]', "Array[(n + 1) * m]"), ('List["(Read | Write) & Mask"]', "List[(Read | Write) & Mask]"),
            ('Tuple["(a or b) and c", int]', "Tuple[(a or b) and c, int]"), ('Dict[str, "-(a + b)"]', "Dict[str, -(a + b)]"),
            ('Optional["(a, b)[0]"]', "Optional[(a, b)[0]]"), ('"List[(A | B) & C]"', "List[(A | B) & C]"),
            ('Callable[["(a | b) & c"], "x ** (y ** z)"]', "Callable[[(a | b) & c], x ** (y ** z)]"),
            # Literal[...]: the arguments are values, never forward references - however the name Literal got here
            # ({L} = the spelling of Literal in the module, see LITERAL_CONTEXTS)
            ("{L}['r', 'w']", "{L}['r', 'w']"), ("{L}['x-y']", "{L}['x-y']"), ("List[{L}['x-y', 'a.b']]", "List[{L}['x-y', 'a.b']]"),
            ('Optional[{L}["left", "right"]]', "Optional[{L}['left', 'right']]"),
            ('"Optional[{L}[\'left\', \'right\']]"', "Optional[{L}['left', 'right']]")]
# (import line of the generated module, spelling of Literal, extra modules of the system): Literal from typing, from
# typing_extensions, through an alias of typing, re-exported by a compat module of the documented system, by a module
# outside the system (by name / as an attribute of the module), not imported at all
LITERAL_CONTEXTS = [("from typing import Literal", "Literal", {}),
                    ("from typing_extensions import Literal", "Literal", {}),
                    ("import typing as t", "t.Literal", {}),
                    ("from c14compat import Literal", "Literal", {"c14compat": "try:\n    from typing import Literal\nexcept ImportError:\n    from typing_extensions import Literal\n"}),
                    ("from thirdparty.compat import Literal", "Literal", {}),
                    ("from thirdparty import compat", "compat.Literal", {}),
                    ("import c14compat as cp", "cp.Literal", {"c14compat": "from typing import Literal\n__all__ = ['Literal']\n"}),
                    ("", "Literal", {})]
DEF_POOL = ["None", "True", "-1", "1.5", "'s'", "\"it's\"", "b'x'", "()", "(1, 2)", "[1, 2]", "{'a': 1}", "x.y",
            "f(1, k=2)", "lambda a: a", "...", "a + b", "not a", "a if b else c", "x[1]", "-x", "[]", "{}", "1j", "x.y.z()",
            "'a' 'b'", "0x10", "a and b", "a < b", "f(*a, **k)", "x[1:2]", "(yield_)", "a * b + c", "f'{x}'"]

# constants of equal value and different type (bool / int / float / complex): each must be displayed as written,
# whatever was displayed before in the same process
CONST_POOL = ["True", "1.0", "1", "False", "0.0", "0", "0j", "-0.0", "1j", "-1.0", "-1"]
# lambda defaults whose own parameters are named like a parameter of the function ({n} = that name): the lambda's
# parameters are not parameters of the function
LAMBDA_POOL = ["lambda {n}: {n}", "lambda {n}=0: {n}", "lambda q, {n}: q", "lambda *{n}: {n}", "lambda *, {n}: {n}", "lambda **{n}: {n}",
               "f(lambda {n}: 0)", "{{'k': lambda {n}, q: q}}", "[lambda {n}: {n}, 1]", "lambda {n}: lambda {m}: {n}",
               "(lambda {n}: {n})(1)", "g(key=lambda {n}, {m}=1: {m})"]

# ---- expressions behind OPEN known findings (findings.d/C14.json), drawn rarely so that they do not mask anything else
LONG_LAMBDA = ("lambda aaaaaaaaaaaaaaaaaaaa, bbbbbbbbbbbbbbbbbbbbbbbbbbbbb, cccccccccccccccccccccccccc, dddddddddddddddddddddddd: "
               "aaaaaaaaaaaaaaaaaaaa + bbbbbbbbbbbbbbbbbbbbbbbbbbbbb + cccccccccccccccccccccccccc")
LONG_COMP = ("[xxxxxxxxxxxxxxxxxxxxxxxxx for xxxxxxxxxxxxxxxxxxxxxxxxx in yyyyyyyyyyyyyyyyyyyyyyyyyyyyyyyyyyyyyyyyy "
             "if zzzzzzzzzzzzzzzzzzzzzzzzzzzzzzzzzzzzzzzz]")
KF_DEFAULTS = ['"x\\u00a0y"', '"x\\ufffey"']
# open findings whose deviation is a specific wrong text: finding -> [(kind, written, shown, what is displayed meanwhile)]
KF_TABLE: Dict[str, List[Tuple[str, str, str, str]]] = {
    "regex-verbose-space-unescaped": [("default", "re.compile(r'[ ]x', re.X)", "re.compile(r'[ ]x', re.X)", "re.compile(r' x', re.X)")],
    "literal-alias-unstringed": [("ann", 'Lit["a"]', "Lit['a']", "Lit[a]")],
}
# since /repo 5ae424f, f58c8a9, f1922c5: overflowing floats, values longer than astor's line width and string OPERANDS of
# annotations are ordinary pool entries
DEF_POOL += ["1e999", "-1e999", LONG_LAMBDA, LONG_COMP]
# since /repo 373edf3, f8c859c, fdce633: an escaped '-' in a set, flags scoped to a group and string metadata of Annotated
# are ordinary pool entries
DEF_POOL += ["re.compile(r'[a\\-z]')", "re.compile(r'[+\\-*/]+')", "re.compile(r'(?i:a)b')", "re.compile(r'(?i-s:a.)b')"]
ANN_POOL += [('typing.Annotated[int, "doc"]', "typing.Annotated[int, 'doc']"), ('typing.Annotated["Foo", "doc"]', "typing.Annotated[Foo, 'doc']")]
# patterns the bundled regex parser rejects (possessive quantifiers, atomic groups) keep the other arguments of the call;
# a right operand of the same precedence level keeps its parentheses
DEF_POOL += ["re.compile(r'(?>\\s+),', re.M)", "re.compile(r'\\w++', re.I)", "re.compile(r'a*+b', flags=re.S)",
             "4 * (KB // 3)", "base + (span - 1)", "a * (b % c)", "a - (b + c)", "x | (y ^ z)", "n + (m + k)"]
# commas inside string / bytes bodies, regexes and values printed by astor are not parameter separators
DEF_POOL += ["', '", "b', '", "'a, b; c, d'", "re.compile(r'a, b')", "f('x, y', z)", "{'k, l': ', '}", "lambda a, b: (a, b)", "f', {x}, '"]
ANN_POOL += [("{L}['a, b', 'c']", "{L}['a, b', 'c']"), ('Dict[str, {L}[", "]]', "Dict[str, {L}[', ']]")]
# a string annotation that is not an expression stays the string that was written - and does not keep the valid string
# annotations of the same function from being shown unquoted
ANN_POOL += [('"seconds, or forever"', "'seconds, or forever'"), ('"not an expression!"', "'not an expression!'"),
             ('List["a b"]', "List['a b']")]
# starred operands in displays and calls keep their parentheses; regular expressions are shown as the same expression
DEF_POOL += ["[*(EXTRA or ()), 'x']", "(*(a if b else c), 1)", "[*(not a), b]", "f(*(a or b))", "[*a, *b]",
             "{**(a or b), 'k': 1}", "f(**(a or b))",
             "re.compile(r'[\\^~!]+')", "re.compile(r'\\d+(?:\\.\\d+)?')", "re.compile(r'[\\]\\\\]x')", "re.compile('a|b*')",
             "re.compile(r'[.*]')", "re.compile(r\"it's\")", "re.compile(r'[\\^]', re.I)", "re.compile(r'[~\\^]x|\\^y')"]
# a PARAMETER annotated with the literal None keeps its annotation (only `-> None` is omitted)
ANN_POOL += [("None", "None"), ("None", "None"), ('"None"', "None"), ("Optional[None]", "Optional[None]"), ('Tuple["None", int]', "Tuple[None, int]")]
ANN_POOL += [('"A | B" & C', "(A | B) & C"), ('C & "A | B"', "C & (A | B)"), ('-"a + b"', "-(a + b)")]

SEEN_CONSTS: List[str] = []               # per worker process: constant defaults in the order pydoctor first met them
CASES: List[Dict[str, Any]] = []          # set before forking the pool: workers receive index ranges only
RICH = False


def cfg_text(maxp: int, anns: Tuple[str, ...] = ("none", "plain", "string"), minp: int = 0) -> str:
    return (f"SPECIFICATION Spec\nCONSTANTS MaxP = {maxp}\n          MinP = {minp}\n          AnnStates = {{{', '.join(json.dumps(a) for a in anns)}}}\n"
            "          RetStates = {\"none\", \"None\", \"plain\", \"string\"}\nCONSTRAINT Emit\n"
            "INVARIANT SameParameters\nINVARIANT SameReturn\nINVARIANT ShownIsValid\n")


# --------------------------------------------------------------------------------- expressions of a case
def exprs_for(rec: Dict[str, Any], rng: Optional[random.Random], lit: str = "Literal") -> Dict[str, Any]:
    """
    Concrete expressions of the layout: ann[i] = (written, shown) or None, default[i] = text or None, ret = (written, shown).
    Exhaustive tier: fixed by position.  Thorough (rng given): drawn from the pools.
    """
    ann: Dict[int, Tuple[str, str]] = {}
    dflt: Dict[int, str] = {}
    for i, (kind, has_def, a) in enumerate(rec["params"], 1):
        if rng is None:
            if a == "plain":
                ann[i] = (PLAIN[i - 1], PLAIN[i - 1])
            elif a == "string":
                ann[i] = (f'"{STRG[i - 1]}"', STRG[i - 1])
            if has_def:
                dflt[i] = str(10 + i)
        else:
            if a == "plain":
                ann[i] = rng.choice([x for x in ANN_POOL if '"' not in x[0] and not x[0].startswith("'")])
            elif a == "string":
                ann[i] = rng.choice([x for x in ANN_POOL if x[0] != x[1]])
                kfa = [e for t in KF_TABLE.values() for e in t if e[0] == "ann"]
                if kfa and rng.random() < 0.04:
                    ann[i] = rng.choice(kfa)[1:3]
            if has_def:
                u = rng.random()
                if u < 0.02:
                    dflt[i] = rng.choice(KF_DEFAULTS)
                elif u < 0.05 and [e for t in KF_TABLE.values() for e in t if e[0] == "default"]:
                    dflt[i] = rng.choice([e for t in KF_TABLE.values() for e in t if e[0] == "default"])[1]
                elif u < 0.3:
                    # a name that collides: preferably an annotated parameter of this very function
                    annotated = [j for j, p in enumerate(rec["params"], 1) if p[2] != "none"] or list(range(1, len(rec["params"]) + 1))
                    dflt[i] = rng.choice(LAMBDA_POOL).format(n=f"p{rng.choice(annotated)}", m=f"p{rng.choice(annotated)}x")
                elif u < 0.6:
                    dflt[i] = rng.choice(CONST_POOL)
                else:
                    dflt[i] = rng.choice(DEF_POOL)
    ann = {i: (w.replace("{L}", lit), sh.replace("{L}", lit)) for i, (w, sh) in ann.items()}
    r = rec["ret"]
    if r == "None":
        ret: Optional[Tuple[str, Optional[str]]] = ("None", None)
    elif r == "plain":
        ret = ("int", "int") if rng is None else rng.choice([x for x in ANN_POOL if x[0] == x[1] and x[1] != "None"])
    elif r == "string":
        ret = ('"str"', "str") if rng is None else rng.choice([x for x in ANN_POOL if x[0] != x[1] and x[1] != "None"])
    else:
        ret = None
    if ret and ret[1]:
        ret = (ret[0].replace("{L}", lit), ret[1].replace("{L}", lit))
    return {"ann": ann, "default": dflt, "ret": ret}


def write_def(name: str, rec: Dict[str, Any], ex: Dict[str, Any], deco: str = "", body: str = "pass") -> str:
    """The definition as an author writes it (this is the INPUT; its reading by CPython is checked against the spec's Ast)."""
    parts: List[str] = []
    kinds = [p[0] for p in rec["params"]]
    for i, (kind, has_def, a) in enumerate(rec["params"], 1):
        if kind == "KO" and "VP" not in kinds and (i == 1 or kinds[i - 2] != "KO"):
            parts.append("*")
        s = {"VP": "*", "VK": "**"}.get(kind, "") + f"p{i}"
        if i in ex["ann"]:
            s += f": {ex['ann'][i][0]}"
        if i in ex["default"]:
            s += (" = " if i in ex["ann"] else "=") + ex["default"][i]
        parts.append(s)
        if kind == "PO" and (i == len(kinds) or kinds[i] != "PO"):
            parts.append("/")
    r = f" -> {ex['ret'][0]}" if ex["ret"] else ""
    return f"{deco}def {name}({', '.join(parts)}){r}: {body}"


class _RegexNorm(ast.NodeTransformer):
    """`re.compile(<string>, ...)`: two pattern strings are the same default when they are the same regular expression
    (the pattern is shown re-written from its parse tree): the string is replaced by its parse tree."""
    def visit_Call(self, node: ast.Call) -> ast.AST:
        self.generic_visit(node)
        f = node.func
        if (isinstance(f, ast.Attribute) and f.attr == "compile" and isinstance(f.value, ast.Name) and f.value.id == "re"
                and node.args and isinstance(node.args[0], ast.Constant) and isinstance(node.args[0].value, str)):
            verbose = any("X" in ast.dump(a) or "VERBOSE" in ast.dump(a) for a in node.args[1:])
            try:
                import re._parser as sre_parse          # Python >= 3.11
                tree = str(sre_parse.parse(node.args[0].value, re.VERBOSE if verbose else 0))
            except Exception:
                return node
            node.args[0] = ast.Constant(value="<regex> " + tree)
        return node


def adump(node: ast.AST) -> str:
    return ast.dump(_RegexNorm().visit(node))


@functools.lru_cache(maxsize=None)
def dump(expr_text: Optional[str]) -> Optional[str]:
    if expr_text is None:
        return None
    return adump(ast.parse(expr_text, mode="eval").body)


def check_ast_view(rec: Dict[str, Any], ex: Dict[str, Any], src: str) -> None:
    """machinery: CPython's ast.arguments of the written def == the spec's Ast(layout)"""
    try:
        fn = ast.parse(src).body[-1]
    except SyntaxError as e:
        raise MachineryError(f"spec Valid accepts a layout CPython rejects: {src!r}: {e}")
    a = fn.args  # type: ignore[attr-defined]
    spec = rec["ast"]
    name = lambda i: f"p{i}"
    got = {"posonlyargs": [x.arg for x in a.posonlyargs], "args": [x.arg for x in a.args],
           "vararg": [a.vararg.arg] if a.vararg else [], "kwonlyargs": [x.arg for x in a.kwonlyargs],
           "kwarg": [a.kwarg.arg] if a.kwarg else [],
           "defaults": [adump(d) for d in a.defaults],
           "kw_defaults": [adump(d) if d is not None else None for d in a.kw_defaults]}
    want = {"posonlyargs": [name(i) for i in spec["posonlyargs"]], "args": [name(i) for i in spec["args"]],
            "vararg": [name(i) for i in spec["vararg"]], "kwonlyargs": [name(i) for i in spec["kwonlyargs"]],
            "kwarg": [name(i) for i in spec["kwarg"]],
            "defaults": [dump(ex["default"][i]) for i in spec["defaults"]],
            "kw_defaults": [dump(ex["default"][i]) if i else None for i in spec["kw_defaults"]]}
    if got != want:
        raise MachineryError(f"spec Ast disagrees with CPython on {src!r}: {want} vs {got}")


def read_back(text: str) -> Optional[Dict[str, Any]]:
    """The displayed text read as Python: parameters [name, kind, default, annotation] and the return annotation."""
    try:
        fn = ast.parse("def f" + text + ": pass").body[0]
    except SyntaxError:
        return None
    a = fn.args  # type: ignore[attr-defined]
    out: List[List[Any]] = []
    pos = list(a.posonlyargs) + list(a.args)
    dflt = [None] * (len(pos) - len(a.defaults)) + list(a.defaults)
    for x, d in zip(pos, dflt):
        out.append([x.arg, "PO" if x in a.posonlyargs else "PK", adump(d) if d is not None else None,
                    adump(x.annotation) if x.annotation else None])
    if a.vararg:
        out.append([a.vararg.arg, "VP", None, adump(a.vararg.annotation) if a.vararg.annotation else None])
    for x, d in zip(a.kwonlyargs, a.kw_defaults):
        out.append([x.arg, "KO", adump(d) if d is not None else None, adump(x.annotation) if x.annotation else None])
    if a.kwarg:
        out.append([a.kwarg.arg, "VK", None, adump(a.kwarg.annotation) if a.kwarg.annotation else None])
    return {"params": out, "ret": adump(fn.returns) if fn.returns else None}  # type: ignore[attr-defined]


def expected_of(rec: Dict[str, Any], ex: Dict[str, Any]) -> Dict[str, Any]:
    ps = []
    for name, kind, d, a in rec["expected"]:
        ps.append([f"p{name}", kind, dump(ex["default"][d]) if d else None, dump(ex["ann"][a][1]) if a else None])
    ret = dump(ex["ret"][1]) if (rec["expected_ret"] == "expr" and ex["ret"]) else None
    if (rec["expected_ret"] == "expr") != bool(ex["ret"] and ex["ret"][1]):
        raise MachineryError(f"spec ExpectedRet inconsistent with the written return annotation: {rec['ret']}")
    return {"params": ps, "ret": ret}


def model_text(rec: Dict[str, Any], ex: Dict[str, Any]) -> str:
    """What the MODEL says pydoctor prints: Items (order + separators, from the spec) formatted like inspect.Parameter.__str__"""
    parts = []
    for it in rec["items"]:
        if len(it) == 1:
            parts.append(it[0])
            continue
        name, kind, d, a = it
        s = {"VP": "*", "VK": "**"}.get(kind, "") + f"p{name}"
        if a:
            s += f": {ex['ann'][a][1]}"
        if d:
            s += (" = " if a else "=") + ex["default"][d]
        parts.append(s)
    r = f" -> {ex['ret'][1]}" if (rec["pd_ret"] == "expr" and ex["ret"]) else ""
    return f"({', '.join(parts)}){r}"


# ------------------------------------------------------------------------------------------ known findings
def _diff_params(w: Dict[str, Any], col: int) -> List[Tuple[Any, Any]]:
    exp, got = w["expected"]["params"], (w["observed"].get("read_back") or {}).get("params") or []
    return [(e[col], g[col]) for e, g in zip(exp, got) if e[col] != g[col]]


def kf_signature_xml(w: Dict[str, Any]) -> bool:
    """the whole signature is replaced by (...) and a string default contains a no-break space / U+FFFE"""
    return (w.get("failed") == ["ReadsBackAsPython"] and (w["observed"].get("text") or "") == "(...)"
            and any(x in w["input"] for x in ('"x\\u00a0y"', '"x\\ufffey"')))


def _diffs(w: Dict[str, Any]) -> List[Tuple[Any, Any]]:
    exp, got = w["expected"], w["observed"].get("read_back") or {}
    out = []
    for e, g in zip(exp["params"], got.get("params") or []):
        out += [(e[c], g[c]) for c in (2, 3) if e[c] != g[c]]
    if exp["ret"] != got.get("ret"):
        out.append((exp["ret"], got.get("ret")))
    return out


def kf_table_matcher(fid: str):  # type: ignore[no-untyped-def]
    """every difference is one of the tabulated (shown -> displayed meanwhile) pairs of an OPEN finding, at least one of
    them of this finding; names, kinds and order of the parameters are as written"""
    def match(w: Dict[str, Any]) -> bool:
        if not w.get("failed") or any(f not in ("DefaultsWhereWritten", "SameAnnotations", "SameReturn") for f in w["failed"]):
            return False
        allp = {(dump(sh), dump(bad)): k for k, t in KF_TABLE.items() for _, _, sh, bad in t}
        d = _diffs(w)
        return bool(d) and all((e, g) in allp for e, g in d) and any(allp[(e, g)] == fid for e, g in d)
    return match


MATCHERS = {"string-default-breaks-signature-xml": kf_signature_xml, **{fid: kf_table_matcher(fid) for fid in KF_TABLE}}


# ----------------------------------------------------------------------------------- worker: build + judge
def work(span: Tuple[int, int, int]) -> Dict[str, Any]:
    lo, hi, seed = span
    from pydoctor import model
    from pydoctor.stanutils import flatten_text
    from pydoctor.templatewriter.pages import format_signature, format_overloads

    cases = CASES[lo:hi]
    imp, lit, extra = LITERAL_CONTEXTS[(lo // max(1, hi - lo) + seed) % len(LITERAL_CONTEXTS)] if RICH else LITERAL_CONTEXTS[0]
    lines = ["from typing import overload, List, Optional, Dict, Callable, Tuple", "import typing, re", "from typing import Literal as Lit", imp]
    H = len(lines)
    how = {"header": "\n".join(lines), "extra_modules": extra}
    exs = []
    ctxs: List[str] = []      # what the process had displayed before each definition (order-dependent defects replay with it)
    for k, rec in enumerate(cases):
        rng = random.Random(f"{seed}:{lo + k}") if RICH else None
        ex = exprs_for(rec, rng, lit)
        exs.append(ex)
        src = write_def(f"f{lo + k}", rec, ex)
        check_ast_view(rec, ex, src)
        lines.append(src)
        ctxs.append("def ctx(" + ", ".join(f"c{n}={t}" for n, t in enumerate(SEEN_CONSTS)) + "): pass")
        for i in sorted(ex["default"]):
            if ex["default"][i] in CONST_POOL and ex["default"][i] not in SEEN_CONSTS:
                SEEN_CONSTS.append(ex["default"][i])
    # overload groups: every 4th case, three per function, each overload keeps its own layout
    members = [k for k in range(len(cases)) if (lo + k) % 4 == 0]
    groups = [members[i:i + 3] for i in range(0, len(members), 3)]
    def group_lines(gi: int, grp: List[int]) -> List[str]:
        """one overloaded function; every other one is preceded by an earlier plain definition of the same name
        (a fallback the overload set then replaces), the history `def g ... ; @overload def g ... ; def g`"""
        pre_, chunks_, impl_ = group_parts(gi, grp)
        return pre_ + [x for ch in chunks_ for x in ch] + impl_ + method_after(gi)

    def method_after(gi: int) -> List[str]:
        """a METHOD named like the overloaded function, in a class defined later in the same module: another function"""
        return [f"class H{lo}_{gi}:", f"    def g{lo}_{gi}(self, q=1): pass"]

    def group_parts(gi: int, grp: List[int]) -> Tuple[List[str], List[List[str]], List[str]]:
        pre_ = [f"def g{lo}_{gi}(value, *args, **kwargs): pass"] if gi % 2 else []
        deco = "@overload" if gi % 3 == 0 else "@compat.overload"
        chunks_ = [[deco, write_def(f"g{lo}_{gi}", cases[k_], exs[k_], body="...")] for k_ in grp]
        return pre_, chunks_, [f"def g{lo}_{gi}(*args, **kwargs): pass"]

    def interleaved(ga: int, gb: int) -> List[str]:
        """two overload sets of one scope written INTERLEAVED: @overload a ; @overload b ; @overload a ; ... ; def a ; def b"""
        pa, ca, ia = group_parts(ga, groups[ga])
        pb, cb, ib = group_parts(gb, groups[gb])
        mixed: List[str] = []
        for i_ in range(max(len(ca), len(cb))):
            mixed += (ca[i_] if i_ < len(ca) else []) + (cb[i_] if i_ < len(cb) else [])
        return pa + pb + mixed + ia + ib + method_after(ga) + method_after(gb)

    # a third of the groups stays in the module and uses `@overload`; the others live in a package p<lo> and name the
    # decorator through the sibling module `compat` (`from . import compat` ; `@compat.overload`): in a_first, which is
    # analysed BEFORE compat, and in z_last, which is analysed after it.
    modname = f"m{lo}"
    pkg = f"p{lo}"
    gmod = lambda gi: modname if gi % 3 == 0 else (f"{pkg}.a_first" if gi % 3 == 1 else f"{pkg}.z_last")
    pkg_header = ["from typing import List, Optional, Dict, Callable, Tuple", "import typing, re", "from typing import Literal as Lit", imp, "from . import compat"]
    side: Dict[str, List[str]] = {f"{pkg}.a_first": list(pkg_header), f"{pkg}.z_last": list(pkg_header)}
    # the groups of the module itself: every other pair of them is written interleaved
    main_gis = [gi for gi in range(len(groups)) if gi % 3 == 0]
    unit_lines: Dict[int, List[str]] = {}
    for i_ in range(0, len(main_gis), 2):
        pair = main_gis[i_:i_ + 2]
        if len(pair) == 2 and (i_ // 2) % 2 == 0:
            unit_lines[pair[0]] = unit_lines[pair[1]] = interleaved(pair[0], pair[1])
            lines.extend(unit_lines[pair[0]])
        else:
            for gi in pair:
                unit_lines[gi] = group_lines(gi, groups[gi])
                lines.extend(unit_lines[gi])
    for gi, grp in enumerate(groups):
        if gi % 3 != 0:
            unit_lines[gi] = group_lines(gi, grp)
            side[gmod(gi)].extend(unit_lines[gi])
    msgs: List[Tuple[str, str]] = []

    def package_modules(first: List[str], last: List[str]) -> List[List[Any]]:
        """[name, parent, is_package, source] in the order they are added to the system"""
        return [[pkg, None, True, ""], ["a_first", pkg, False, "\n".join(first) + "\n"],
                ["compat", pkg, False, "from typing import overload\n"], ["z_last", pkg, False, "\n".join(last) + "\n"]]

    def build(src_lines: List[str], pkgmods: Optional[List[List[Any]]] = None) -> Tuple[Any, Optional[str]]:
        system = model.System()
        system.msg = lambda section, msg, *a, **kw: msgs.append((section, msg))  # type: ignore[method-assign]
        builder = system.systemBuilder(system)
        for xn, xs in extra.items():
            builder.addModuleString(xs, modname=xn)
        for mn_, par_, ispkg_, src_ in (pkgmods or []):
            builder.addModuleString(src_, modname=mn_, parent_name=par_, is_package=ispkg_)
        builder.addModuleString("\n".join(src_lines) + "\n", modname=modname)
        try:
            builder.buildModules()
        except Exception as e:           # the analysis aborted: find the definition(s) responsible below
            return None, f"{type(e).__name__}: {e}"
        return system, None

    whole, whole_err = build(lines, package_modules(side[f"{pkg}.a_first"], side[f"{pkg}.z_last"]))
    out: Dict[str, Any] = {"violations": [], "drift": [], "n": 0, "n_overloads": 0, "samples": [], "batch_aborted": int(whole is None)}

    def alone_modules(where: str, own_lines: List[str]) -> List[List[Any]]:
        return package_modules(pkg_header + (own_lines if where.endswith("a_first") else []),
                               pkg_header + (own_lines if where.endswith("z_last") else []))

    def lookup(name: str, own_lines: List[str], where: Optional[str] = None) -> Tuple[Any, Optional[str]]:
        """the Function object; when the batch build aborted, from a build of this definition alone"""
        where = where or modname
        if whole is not None:
            return whole.allobjects.get(f"{where}.{name}"), None
        if where == modname:
            alone, err = build(lines[:H] + own_lines)
        else:
            alone, err = build(lines[:H], alone_modules(where, own_lines))
        if alone is None:
            return None, err
        return alone.allobjects.get(f"{where}.{name}"), None

    def aborted(rec: Dict[str, Any], origin: str, src: str, err: str) -> None:
        out["violations"].append({"invariant": "SignatureIsDisplayed", "failed": ["SignatureIsDisplayed"], "origin": origin, "input": src, **how,
                                  "layout": {"params": rec["params"], "ret": rec["ret"]}, "expected": "a displayed signature",
                                  "observed": {"text": None, "exception": err},
                                  "key": f"abort:{origin}:{[p[0] for p in rec['params']]}:{[p[1] for p in rec['params']]}"})

    def judge(rec: Dict[str, Any], ex: Dict[str, Any], text: str, origin: str, src: str, more: Optional[Dict[str, Any]] = None) -> None:
        want = expected_of(rec, ex)
        got = read_back(text)
        failed = []
        if got is None:
            failed.append("ReadsBackAsPython")
        else:
            if [p[:2] for p in got["params"]] != [p[:2] for p in want["params"]]:
                failed.append("SameParameters")            # names, order, kinds (separators)
            elif [p[2] for p in got["params"]] != [p[2] for p in want["params"]]:
                failed.append("DefaultsWhereWritten")
            elif [p[3] for p in got["params"]] != [p[3] for p in want["params"]]:
                failed.append("SameAnnotations")
            if got["ret"] != want["ret"]:
                failed.append("SameReturn")
        if failed:
            out["violations"].append({"invariant": failed[0], "failed": failed, "origin": origin, "input": src, **how,
                                      "layout": {"params": rec["params"], "ret": rec["ret"]},
                                      "expected": want, "observed": {"text": text, "read_back": got}, **(more or {}),
                                      "key": f"{origin}:{failed}:{[p[0] for p in rec['params']]}:{[p[1] for p in rec['params']]}:{rec['ret']}"})
            return
        mt = model_text(rec, ex)
        same = (text == mt) if not RICH else (read_back(mt) == got)
        if not same:
            out["drift"].append({"origin": origin, "input": src, "model": mt, "real": text})

    for k, rec in enumerate(cases):
        src = lines[H + k]
        fn, err = lookup(f"f{lo + k}", [src])
        if err is not None:
            out["n"] += 1
            aborted(rec, "def", src, err)
            continue
        text = flatten_text(format_signature(fn)) if isinstance(fn, model.Function) else "<missing>"
        out["n"] += 1
        judge(rec, exs[k], text, "def", src, {"context_src": ctxs[k]} if RICH else None)
        if k == 0:
            out["samples"].append({"source": src, "displayed": text})
    for gi, grp in enumerate(groups):
        own = unit_lines[gi]
        fn, err = lookup(f"g{lo}_{gi}", own, gmod(gi))
        if err is not None:
            continue                      # already reported for the plain definitions of the same layouts
        ovs = list(fn.overloads) if isinstance(fn, model.Function) else []
        page = [flatten_text(x) for x in format_overloads(fn)] if isinstance(fn, model.Function) else []
        page = [x for x in page if x.startswith("def ")]
        # the function has exactly its own overloads, and the method of the same name defined later is documented as itself
        meth = (whole.allobjects.get(f"{gmod(gi)}.H{lo}_{gi}.g{lo}_{gi}") if whole is not None else None)
        mtext = flatten_text(format_signature(meth)) if isinstance(meth, model.Function) else "<missing>"
        if whole is not None and (len(ovs) != len(grp) or mtext != "(self, q=1)"):
            out["violations"].append({"invariant": "OverloadsOfThisFunctionOnly", "failed": ["OverloadsOfThisFunctionOnly"],
                                      "origin": "overload-method", "input": "\n".join(own), **how,
                                      "group_src": "\n".join(own), "index": 0,
                                      **({"modules": alone_modules(gmod(gi), own)} if gmod(gi) != modname else {}),
                                      "target": f"{gmod(gi) if gmod(gi) != modname else 'm'}.H{lo}_{gi}.g{lo}_{gi}",
                                      "function": f"{gmod(gi) if gmod(gi) != modname else 'm'}.g{lo}_{gi}",
                                      "layout": {"params": [], "ret": "none"},
                                      "expected": {"overloads": len(grp), "method": "(self, q=1)"},
                                      "observed": {"overloads": len(ovs), "method": mtext, "text": mtext},
                                      "key": f"overload-method:{gi % 3}:{len(ovs) - len(grp)}:{mtext}"})
        for j, k in enumerate(grp):
            src = write_def(f"g{lo}_{gi}", cases[k], exs[k], deco="@overload\n" if gi % 3 == 0 else "@compat.overload\n", body="...")
            text = flatten_text(format_signature(ovs[j])) if j < len(ovs) else "<missing overload>"
            out["n_overloads"] += 1
            grp_src: Dict[str, Any] = {"group_src": "\n".join(own), "index": j}
            if gmod(gi) != modname:         # replay needs the package, in the order it was analysed
                grp_src.update({"modules": alone_modules(gmod(gi), own), "target": f"{gmod(gi)}.g{lo}_{gi}"})
            if RICH:
                grp_src["context_src"] = ctxs[k]
            judge(cases[k], exs[k], text, "overload", src, grp_src)
            # the presentation of the overload on the page is `def name<signature>:`
            shown = page[j] if j < len(page) else "<missing>"
            if shown != f"def g{lo}_{gi}{text}:":
                out["violations"].append({"invariant": "OverloadShowsOwnSignature", "failed": ["OverloadShowsOwnSignature"],
                                          "origin": "overload-page", "input": src, **how,
                                          "layout": {"params": cases[k]["params"], "ret": cases[k]["ret"]},
                                          "expected": f"def g{lo}_{gi}{text}:", "observed": {"text": shown}, **grp_src,
                                          "key": f"overload-page:{[p[0] for p in cases[k]['params']]}"})
        if gi == 0 and grp:
            out["samples"].append({"overloads": [write_def("g", cases[k], exs[k]) for k in grp], "displayed": page})
    out["warnings"] = len([m for m in msgs if "invalid parameters" in m[1]])
    return out


def run_cases(ctx: Ctx, cases: List[Dict[str, Any]], rich: bool, per: int = 1500) -> Dict[str, Any]:
    global CASES, RICH
    CASES, RICH = cases, rich
    from pydoctor import model  # noqa: F401   (import before forking)
    from pydoctor.templatewriter import pages  # noqa: F401
    spans = [(lo, min(lo + per, len(cases)), ctx.seed) for lo in range(0, len(cases), per)]
    if len(spans) <= 1:
        res = [work(s) for s in spans]
    else:
        with mp.get_context("fork").Pool(min(len(spans), max(1, (os.cpu_count() or 4) - 1))) as pool:
            res = pool.map(work, spans, chunksize=1)
    tot = {"violations": [], "drift": [], "n": 0, "n_overloads": 0, "samples": [], "warnings": 0, "batch_aborted": 0}
    for r in res:
        for k in ("violations", "drift", "samples"):
            tot[k] += r[k]
        for k in ("n", "n_overloads", "warnings", "batch_aborted"):
            tot[k] += r[k]
    return tot


def cpython_valid_layouts(maxp: int) -> set:
    """
    CPython as the oracle of Valid: every parameter list that can be WRITTEN with <= maxp parameters (kinds in syntactic
    order, at most one *a and one **k, defaults anywhere except on *a / **k) is compiled; the accepted ones are returned as
    tuples of (kind, has_default).
    """
    ok = set()
    shapes = [(k, d) for k in ("PO", "PK", "VP", "KO", "VK") for d in (False, True) if not (d and k in ("VP", "VK"))]
    order = {"PO": 0, "PK": 1, "VP": 2, "KO": 3, "VK": 4}
    for n in range(maxp + 1):
        for lay in itertools.product(shapes, repeat=n):
            ks = [k for k, _ in lay]
            if any(order[a] > order[b] for a, b in zip(ks, ks[1:])) or ks.count("VP") > 1 or ks.count("VK") > 1:
                continue            # not expressible in the syntax at all
            rec = {"params": [[k, d, "none"] for k, d in lay], "ret": "none"}
            src = write_def("f", rec, {"ann": {}, "default": {i: "0" for i, (_, d) in enumerate(lay, 1) if d}, "ret": None})
            try:
                compile(src, "<layout>", "exec")
            except SyntaxError:
                continue
            ok.add(tuple((k, d) for k, d in lay))
    return ok


def enumerate_layouts(ctx: Ctx, runs: List[Tuple[int, Tuple[str, ...]]]) -> Tuple[List[Dict[str, Any]], List[str]]:
    design: List[str] = []
    seen: Dict[str, Dict[str, Any]] = {}
    for maxp, anns in runs:
        r = ctx.tlc("Signature", cfg_text(maxp, anns), workers=12, check=True, coverage=False, timeout=1500,
                    cfg_name=f"Signature_{maxp}_{len(anns)}.cfg")
        design += [v for v in r.violated if v not in design]
        got = set()
        for x in r.printed:
            seen.setdefault(json.dumps([x["params"], x["ret"]]), x)
            got.add(tuple((p[0], p[1]) for p in x["params"]))
        want = cpython_valid_layouts(maxp)
        if got != want:
            raise MachineryError(f"spec Valid disagrees with CPython for <= {maxp} parameters: only in spec "
                                 f"{sorted(got - want)[:3]}, only in CPython {sorted(want - got)[:3]}")
        ctx.extra.setdefault("layout_shapes_cross_checked_with_cpython_compile", {})[str(maxp)] = len(want)
    return [seen[k] for k in sorted(seen)], design


def run(ctx: Ctx) -> int:
    for fid, fn in MATCHERS.items():
        ctx.register_matcher(fid, fn)
    # quick: every layout of <= 4 parameters with annotations {absent, string} and of <= 3 parameters with
    # {absent, plain, string}; thorough: every layout of <= 4 parameters with all three
    runs = [(4, ("none", "string")), (3, ("none", "plain", "string"))] if ctx.quick else [(4, ("none", "plain", "string"))]
    cases, design = enumerate_layouts(ctx, runs)
    ctx.exhaustive = True
    tot = run_cases(ctx, cases, rich=False)
    ctx.extra["layouts_exhaustive"] = len(cases)
    sim_tot = None
    if ctx.quick:
        # a fifth of the layouts once more with pool expressions (lambda defaults with colliding parameter names,
        # equal-valued constants of different types in both orders within one module, nested string annotations ...)
        rich_cases = [c for i, c in enumerate(cases) if i % 5 == ctx.seed % 5]
        # ... and long signatures (up to 7 parameters: more than pages show on one line) sampled by TLC
        r2 = ctx.tlc("Signature", cfg_text(7, minp=6), workers=1, check=True, simulate="num=1500", depth=12, seed=ctx.seed, timeout=600)
        design += [v for v in r2.violated if v not in design]
        seen_q: set = set()
        sim_q: List[Dict[str, Any]] = []
        for x in r2.printed:
            k = json.dumps([x["params"], x["ret"]])
            if k not in seen_q and len(x["params"]) >= 6:
                seen_q.add(k)
                sim_q.append(x)
        if len(sim_q) < 300:
            raise MachineryError(f"TLC -simulate produced only {len(sim_q)} distinct layouts of 6-7 parameters")
        rich_cases += sim_q
        sim_tot = run_cases(ctx, rich_cases, rich=True, per=400)
        ctx.extra["layouts_with_pool_expressions"] = len(rich_cases)
        ctx.extra["layouts_simulated_6_7_params"] = len(sim_q)
    else:
        r2 = ctx.tlc("Signature", cfg_text(7), workers=1, check=True, simulate="num=6000", depth=12, seed=ctx.seed, timeout=1500)
        design += [v for v in r2.violated if v not in design]
        seen: set = set()
        sim: List[Dict[str, Any]] = []
        for x in r2.printed:
            k = json.dumps([x["params"], x["ret"]])
            if k not in seen:
                seen.add(k)
                sim.append(x)
        if len(sim) < 1000:
            raise MachineryError(f"TLC -simulate produced only {len(sim)} distinct layouts")
        # the exhaustive layouts once more with pool expressions, then the longer sampled layouts
        rich_cases = [c for i, c in enumerate(cases) if i % 5 == ctx.seed % 5] + sim
        sim_tot = run_cases(ctx, rich_cases, rich=True)
        ctx.extra["layouts_simulated_up_to_7_params"] = len(sim)
        ctx.extra["layouts_with_pool_expressions"] = len(rich_cases)
    ctx.extra["design_level_invariants_violated"] = design

    nviol = 0
    for t in [tot] + ([sim_tot] if sim_tot else []):
        ctx.traces += t["n"] + t["n_overloads"]
        for w in t["violations"]:
            ctx.violation(w)
            nviol += 1
        for d in t["drift"]:
            ctx.drift_note(d)
        for s in t["samples"][:3]:
            ctx.sample(s)
    ctx.extra["definitions_built"] = tot["n"] + (sim_tot["n"] if sim_tot else 0)
    ctx.extra["overloads_built"] = tot["n_overloads"] + (sim_tot["n_overloads"] if sim_tot else 0)
    ctx.extra["observations_violating"] = nviol
    ctx.extra["batches_whose_build_aborted"] = tot["batch_aborted"] + (sim_tot["batch_aborted"] if sim_tot else 0)
    ctx.extra["invalid_parameters_warnings"] = tot["warnings"] + (sim_tot["warnings"] if sim_tot else 0)

    # ---- negative control: a default moved to the neighbour / a dropped separator must be rejected by the judge
    nc = {"moved_default_flagged": False, "dropped_slash_flagged": False, "kept_none_return_flagged": False}
    for rec in cases:
        ex = exprs_for(rec, None)
        want = expected_of(rec, ex)
        kinds = [p[0] for p in rec["params"]]
        defs = [p[1] for p in rec["params"]]
        if not nc["moved_default_flagged"] and kinds == ["PK", "PK", "PK"] and defs == [False, True, True]:
            got = read_back("(p1, p2=13, p3=13)")
            nc["moved_default_flagged"] = got is not None and got["params"] != want["params"]
        if not nc["dropped_slash_flagged"] and kinds == ["PO", "PK"] and not any(defs) and not any(p[2] != "none" for p in rec["params"]):
            got = read_back("(p1, p2)")
            nc["dropped_slash_flagged"] = got is not None and [p[:2] for p in got["params"]] != [p[:2] for p in want["params"]]
        if not nc["kept_none_return_flagged"] and not kinds and rec["ret"] == "None":
            got = read_back("() -> None")
            nc["kept_none_return_flagged"] = got is not None and got["ret"] != want["ret"]
        if all(nc.values()):
            break
    ctx.extra["negative_control"] = nc
    if not all(nc.values()):
        raise MachineryError(f"negative control failed: {nc}")
    ndrift = len(tot["drift"]) + (len(sim_tot["drift"]) if sim_tot else 0)
    if ndrift > 0.1 * ctx.traces:
        raise MachineryError(f"model drift on {ndrift} of {ctx.traces} observations: coverage claim void")
    ctx.assumptions += [
        "read back = ast.parse('def f' + text + ': pass'); expressions compared with ast.dump (the C15 equivalence is not re-examined here: "
        "pool expressions are ones the expression printer reproduces)",
        "a string annotation is shown as the expression it quotes; Literal[...] arguments stay strings; `-> None` is omitted",
        "overloads: every 4th layout is also defined as one of three @overload definitions of one function",
    ]
    return ctx.finish(
        rule="layouts = valid parameter lists enumerated by TLC from Signature.tla (AddParam builder, CPython validity rules) x "
             "return annotation; each written as a def, built by pydoctor, pages.format_signature text read back by ast.parse; "
             "distinct = distinct (layout, return annotation); non-trivial = at least one default, separator or annotation",
        distinct_nontrivial=sum(1 for c in cases if any(p[1] or p[2] != "none" or p[0] != "PK" for p in c["params"])))


def replay(ctx: Ctx, path: str) -> int:
    for fid, fn in MATCHERS.items():
        ctx.register_matcher(fid, fn)
    w = json.load(open(path))
    from pydoctor import model
    from pydoctor.stanutils import flatten_text
    from pydoctor.templatewriter.pages import format_signature, format_overloads
    system = model.System()
    system.msg = lambda *a, **k: None  # type: ignore[method-assign]
    b = system.systemBuilder(system)
    src = w["input"]
    pre = w.get("header", "from typing import overload, List, Optional, Dict, Callable, Tuple, Literal\nimport typing") + "\n"
    for xn, xs in (w.get("extra_modules") or {}).items():
        b.addModuleString(xs, modname=xn)
    is_ov = w["origin"].startswith("overload")
    name = src.split("def ", 1)[1].split("(", 1)[0]
    j = w.get("index", 0)
    if w.get("context_src"):               # what the process had displayed before (constants, in that order)
        s0 = model.System()
        s0.msg = lambda *a, **k: None  # type: ignore[method-assign]
        b0 = s0.systemBuilder(s0)
        b0.addModuleString(w["context_src"] + "\n", modname="ctx")
        b0.buildModules()
        flatten_text(format_signature(s0.allobjects["ctx.ctx"]))
    for mn_, par_, ispkg_, src_ in (w.get("modules") or []):
        b.addModuleString(src_, modname=mn_, parent_name=par_, is_package=ispkg_)
    b.addModuleString(pre + ("" if w.get("modules") else (w["group_src"] if is_ov and "group_src" in w else src)) + "\n", modname="m")
    try:
        b.buildModules()
    except Exception as e:
        print(f"replay: still violated: analysis aborts with {type(e).__name__}: {e}")
        print(f"VIOLATION property=C14 replay={path}")
        ctx.cleanup()
        return 1
    if w["origin"] == "overload-method":
        meth = system.allobjects.get(w["target"])
        func = system.allobjects.get(w["function"])
        mtext = flatten_text(format_signature(meth)) if isinstance(meth, model.Function) else "<missing>"
        nov = len(func.overloads) if isinstance(func, model.Function) else -1
        bad = mtext != w["expected"]["method"] or nov != w["expected"]["overloads"]
        print("replay:", f"still violated: method shown {mtext!r}, {nov} overloads" if bad else "holds now")
        if bad:
            print(f"VIOLATION property=C14 replay={path}")
        ctx.cleanup()
        return 1 if bad else 0
    fn = system.allobjects[w.get("target") or f"m.{name}"]
    if w["origin"] == "overload-page":
        if j >= len(fn.overloads):
            print(f"replay: still violated: overload {j} of {fn.fullName()} is missing")
            print(f"VIOLATION property=C14 replay={path}")
            ctx.cleanup()
            return 1
        text = flatten_text(format_signature(fn.overloads[j]))
        page = [x for x in (flatten_text(y) for y in format_overloads(fn)) if x.startswith("def ")]
        bad = page[j:j + 1] != [f"def {name}{text}:"]
        got: Any = page
    else:
        if is_ov and j >= len(fn.overloads):
            print(f"replay: still violated: overload {j} of {fn.fullName()} is missing ({len(fn.overloads)} overloads recorded)")
            print(f"VIOLATION property=C14 replay={path}")
            ctx.cleanup()
            return 1
        text = flatten_text(format_signature(fn.overloads[j] if is_ov else fn))
        got = read_back(text)
        bad = got != w["expected"]
    print("replay:", f"still violated: displayed {text!r}" if bad else "holds now")
    if bad:
        print(f"VIOLATION property=C14 replay={path}")
    ctx.cleanup()
    return 1 if bad else 0
