"""
C12 - hidden objects leave no trace; private objects are always marked private.

Same observed-artifact machinery as C11 (harness/sitecheck.py, harness/sitecrawl.py, spec/Site.tla); the invariants
judged here are HiddenNoTrace (no file, anchor, listing entry, search / inventory record and no href for an object
that is HIDDEN or inside a HIDDEN container) and PrivateMarked (every member-table row, member detail block, sidebar
item, module-index item and search document of a PRIVATE object carries the private marker).
"""
from __future__ import annotations

from ..core import Ctx
from .. import sitecheck
from ..sitecheck import (kf_link_to_hidden, kf_hidden_root_listed, kf_overrides_note_hidden,    # noqa: F401
                         kf_main_module_ignores_rules, kf_sidebar_names_hidden_origin_module)    # noqa: F401  (known_findings "py")


def run(ctx: Ctx) -> int:
    return sitecheck.run_property(ctx, "C12")


def replay(ctx: Ctx, path: str) -> int:
    return sitecheck.replay_property(ctx, path, "C12")
