"""
C20 - options mean the same whether given on the command line or in a config file.

spec -> code : spec/Config.tla is instantiated with the option list read from pydoctor.options.get_parser() at
               check time (MC_Config.tla, literal constants).  TLC enumerates every scenario (option x file format
               x value in the file and how it is written x value on the command line and how it is spelled x
               unknown key), computes the effective value with the reference (Ref, from the property statement)
               and with the transcription of configargparse's merge (Impl) and prints each scenario.  The harness
               writes the config file into an empty directory, runs Options.from_args() there and compares the
               whole Options object with the one obtained from the command line equivalent of Ref (verdict) and
               the observed value with Impl (drift).
code -> spec : for the quoting clause every string over a quoting-relevant alphabet is written with the encoding
               spec/ConfigQuote.tla defines, read back by the real parsers (and end to end through
               Options.from_args for a slice); the table is judged by TLC (identity oracle, completeness of the
               table, conformance of what was written with Encode).
"""
from __future__ import annotations

import ast
import contextlib
import io
import itertools
import json
import os
import random
import warnings
from pathlib import Path
from typing import Any, Dict, Iterable, List, Optional, Sequence, Tuple

from ..core import Ctx, MachineryError, tla

FILES = {"toml": ("pyproject.toml", "tool.pydoctor"), "cfg": ("setup.cfg", "tool:pydoctor"), "ini": ("pydoctor.ini", "pydoctor")}
ALT_SECTION = {"toml": "pydoctor", "cfg": "pydoctor", "ini": "tool:pydoctor"}     # another section every format recognises
ADV_TEXT = "x 'y' \"z\" #=;[1]\\"           # space, both quotes, comment signs, delimiter, brackets, trailing backslash


FALSY = {0: "0", 3: "0.0", 4: ""}            # texts a TOML file can hold as bare 0 / 0.0, and the empty string


# classes the class-valued options can name (importable: the harness package is already in sys.modules)
def _classes() -> Dict[str, Any]:
    from pydoctor import model
    from pydoctor.templatewriter import TemplateWriter
    g = globals()
    if "SysA" not in g:
        g["SysA"] = type("SysA", (model.System,), {"__module__": __name__})
        g["SysB"] = type("SysB", (model.System,), {"__module__": __name__})
        g["WriterA"] = type("WriterA", (TemplateWriter,), {"__module__": __name__})
        g["WriterB"] = type("WriterB", (TemplateWriter,), {"__module__": __name__})
    return g


# ------------------------------------------------------------------------------- the option list
NOT_MODELLED: List[str] = []        # options whose shape Config.tla has no kind for (reported in the evidence, never exit 2)


def option_table() -> List[Dict[str, Any]]:
    """The options of the real parser that a config file can set, with what the model needs to know.
    Actions of the same class writing to the same attribute are the names of ONE option (--add-package /
    --add-module), whether they are declared by one add_argument() call or by several."""
    import argparse
    from pydoctor.options import get_parser
    parser = get_parser()
    all_strings = [s for a in parser._actions for s in a.option_strings]
    all_keys = {k for a in parser._actions for k in parser.get_possible_config_keys(a)}
    NOT_MODELLED.clear()
    groups: Dict[Tuple[str, type], List[Any]] = {}
    for a in parser._actions:
        keys = parser.get_possible_config_keys(a)
        if not keys or isinstance(a, (argparse._HelpAction, argparse._VersionAction)) or getattr(a, "is_config_file_arg", False):
            continue
        groups.setdefault((a.dest, type(a)), []).append(a)
    out = []
    for (dest, _cls), acts in groups.items():
        a = acts[0]
        longs = [s for x in acts for s in x.option_strings if s.startswith("--")]
        shorts = [s for x in acts for s in x.option_strings if len(s) == 2 and s[0] == "-" and s[1] != "-"]
        if isinstance(a, (argparse._StoreTrueAction, argparse._StoreFalseAction)):
            kind = "flag"
        elif isinstance(a, argparse._CountAction):
            kind = "count"
        elif isinstance(a, argparse._AppendAction):
            kind = "append"
        elif isinstance(a, argparse._StoreAction) and a.nargs is None:
            kind = "store"
        elif a.nargs == 0:
            # an action class we have never seen: what matters is how the option BEHAVES; it takes no value, so it is
            # given as `--name` on the command line and as `name = true` in a file, like any flag
            kind = "flag"
        elif a.nargs is None:
            kind = "store"
        else:
            NOT_MODELLED.append(f"{a.option_strings} ({type(a).__name__}, nargs={a.nargs!r})")
            continue
        vk = "int" if a.type is int else ("choice" if a.choices else "str")
        abbr = longs[0][:-1]
        unambiguous = len(abbr) > 3 and [s for s in all_strings if s.startswith(abbr)] == [longs[0]]
        out.append({"key": longs[0][2:], "kind": kind, "vk": vk, "short": bool(shorts), "abbrev": unambiguous,
                    "destkey": a.dest not in all_keys, "extra": set(), "names": len(longs),
                    "_": {"dest": a.dest, "long": longs[0], "longs": longs, "short": shorts[0] if shorts else None, "abbr": abbr,
                          "choices": list(a.choices) if a.choices else None, "default": a.default,
                          "store_false": isinstance(a, argparse._StoreFalseAction)}})
    return out


def short_keys() -> set:
    """One-letter names of the real parser's short flags (-v -> v): not config keys, so unknown when used as one."""
    from pydoctor.options import get_parser
    p = get_parser()
    return {s[1] for a in p._actions for s in a.option_strings if len(s) == 2 and s[0] in p.prefix_chars and s[1] not in p.prefix_chars}


def concrete(o: Dict[str, Any], slot: int) -> str:
    """Slot 1 = representative, slot 2 = adversarial value of option o, as text."""
    d, x = o["_"]["dest"], o["_"]
    if slot in FALSY:
        return FALSY[slot]
    if x["choices"]:
        non_default = [c for c in x["choices"] if c != x["default"]] or x["choices"]
        return non_default[0] if slot == 1 else non_default[-1]
    if o["vk"] == "int":
        return "3" if slot == 1 else "12"
    if d == "systemclass":
        return f"{__name__}.SysA" if slot == 1 else f"{__name__}.SysB"
    if d == "htmlwriter":
        return f"{__name__}.WriterA" if slot == 1 else f"{__name__}.WriterB"
    if d == "privacy":
        return "PUBLIC:a" if slot == 1 else "hidden:b*.[!c]?"
    if d == "intersphinx":
        return "https://a.example/objects.inv" if slot == 1 else "http://b.example/o.inv?x=1#frag"
    if d in ("projectbasedirectory", "templatedir", "packages"):
        return "dir1" if slot == 1 else "dir 2/sub#x"
    if o["kind"] == "append":
        return "mod.Class" if slot == 1 else "pkg.mod 'x'"
    return "val1" if slot == 1 else ADV_TEXT


# ---------------------------------------------------------------------------------- writing text
def py_quote(t: str, q: str) -> str:
    return q + t.replace("\\", "\\\\").replace(q, "\\" + q).replace("\n", "\\n") + q


def plain_safe(t: str) -> bool:
    return bool(t) and "\n" not in t and t == t.strip() and not (t[0] == "[" and t[-1] == "]") \
        and not (len(t) >= 2 and t[0] == t[-1] and t[0] in "'\"")


def unknown_line(o: Dict[str, Any], scn: Dict[str, Any]) -> str:
    """The line carrying the scenario's unknown key ('' when there is none)."""
    fmt, unk = scn["fmt"], scn["unknown"]
    q = (lambda t: py_quote(t, '"')) if fmt == "toml" else (lambda t: t if plain_safe(t) else py_quote(t, "'"))
    if unk == "fresh":
        return f"no-such-option = {q('1')}"
    if len(unk) == 1:                                 # a short command-line flag used as a key (v, q, W ...)
        return f"{unk} = {q('1')}"
    if unk == "dest":
        return f"{o['_']['dest']} = {q('1')}"
    if unk == "abbrev":                               # html-outpu = <a value the real option would accept>
        val = {"flag": "true", "count": "1"}.get(o["kind"]) or concrete(o, 1)
        return f"{o['_']['abbr'][2:]} = {q(val)}"
    return ""


def second_file(o: Dict[str, Any], scn: Dict[str, Any]) -> Dict[str, str]:
    """scn.twice: the same unknown key in another default config file of the directory (other format)."""
    if not scn.get("twice"):
        return {}
    other = "cfg" if scn["fmt"] == "toml" else "toml"
    s2 = dict(scn, fmt=other)
    return {FILES[other][0]: f"[{FILES[other][1]}]\n{unknown_line(o, s2)}\n"}


def file_text(o: Dict[str, Any], scn: Dict[str, Any]) -> str:
    fmt, kind, style = scn["fmt"], o["kind"], scn["fstyle"]
    key = o["_"]["longs"][scn.get("fname", 1) - 1][2:]
    main, alt = FILES[fmt][1], ALT_SECTION[fmt]
    lines = {"main": [f"[{main}]"], "alt": [f"[{alt}]"],
             "emptyMain": [f"[{main}]", "# nothing is set here", f"[{alt}]"]}[scn.get("place", "main")]
    if scn["file"]["has"] and style in ("twinDashed", "twinAlias"):
        # the option twice in the file, under two spellings; values always written quoted
        v = scn["file"]["v"]
        k1 = o["_"]["longs"][0][2:] if style == "twinAlias" else key
        k2 = o["_"]["longs"][1][2:] if style == "twinAlias" else "--" + key
        if kind == "append":
            r1, r2 = ("[" + py_quote(concrete(o, x), '"') + "]" for x in v)
        else:
            r1, r2 = (py_quote(concrete(o, x), '"' if fmt == "toml" else "'") for x in (3 - v[0], v[0]))
        if fmt == "toml" and k2.startswith("--"):
            k2 = f'"{k2}"'
        lines += [f"{k1} = {r1}", f"{k2} = {r2}"]
    elif scn["file"]["has"]:
        v = scn["file"]["v"]
        if kind == "flag":
            word = "true" if v == [1] else "false"
            rhs = word if style in ("native", "plain") else f'"{word}"'
        elif kind == "count":
            rhs = str(v[0]) if style in ("native", "plain") else f'"{v[0]}"'
        elif kind == "store":
            t = concrete(o, v[0])
            if style == "native":
                rhs = t
            elif style == "string":
                rhs = py_quote(t, '"')
            elif style == "quoted":
                rhs = py_quote(t, "'")
            else:
                if not plain_safe(t):
                    raise MachineryError(f"value {t!r} cannot be written plain")
                rhs = t
        else:
            ts = [concrete(o, x) for x in v]
            if style in ("list", "pylist"):
                rhs = "[" + ", ".join(py_quote(t, '"') for t in ts) + "]"
            elif style == "multiline":
                if not all(plain_safe(t) for t in ts):
                    raise MachineryError(f"values {ts!r} cannot be written as plain lines")
                rhs = "".join("\n    " + t for t in ts)
            else:                                   # scalar: one value, not a list
                rhs = py_quote(ts[0], '"') if fmt == "toml" else ts[0]
        lines.append(f"{key} = {rhs}" if not rhs.startswith("\n") else f"{key} ={rhs}")
    uline = unknown_line(o, scn)
    if uline:
        lines.append(uline)
    return "\n".join(lines) + "\n"


def cli_args(o: Dict[str, Any], v: Sequence[int], spell: str, cname: int = 1) -> List[str]:
    x, kind = o["_"], o["kind"]
    name = x["abbr"] if spell == "abbrev" else x["longs"][cname - 1]
    if kind == "flag":
        return [name] if v == [1] else []
    if kind == "count":
        n = v[0]
        if spell == "short":
            return [x["short"]] * n
        if spell == "cluster":
            return ["-" + x["short"][1] * n] if n else []
        return [name] * n
    out: List[str] = []
    for slot in v:
        t = concrete(o, slot)
        out += [name, t] if spell == "sep" else [f"{name}={t}"]
    return out


# -------------------------------------------------------------------------------- running the real code
class Runner:
    """Options.from_args() in a private working directory."""

    def __init__(self, ctx: Ctx):
        self.dir = ctx.scratch / "cwd"
        self.dir.mkdir(exist_ok=True)
        self.cache: Dict[Tuple[str, ...], Any] = {}
        self.by_key: Dict[str, Dict[str, Any]] = {}
        _classes()

    def run(self, argv: Sequence[str], files: Dict[str, str]) -> Dict[str, Any]:
        from pydoctor.options import Options
        old = os.getcwd()
        os.chdir(self.dir)
        try:
            for n, t in files.items():
                Path(n).write_text(t)
            err = io.StringIO()
            try:
                with warnings.catch_warnings(record=True) as ws, contextlib.redirect_stderr(err), contextlib.redirect_stdout(err):
                    warnings.simplefilter("always")
                    o = Options.from_args(list(argv))
                return {"exit": False, "options": o,
                        "warn": [str(w.message) for w in ws if "No such config option" in str(w.message)]}
            except SystemExit as e:
                return {"exit": True, "options": None, "warn": [], "stderr": err.getvalue()[-300:], "code": e.code}
            except Exception as e:                          # a traceback is an abort too
                return {"exit": True, "options": None, "warn": [], "stderr": f"{type(e).__name__}: {e}"[:300], "code": "exception"}
        finally:
            for n in files:
                with contextlib.suppress(FileNotFoundError):
                    Path(n).unlink()
            os.chdir(old)

    def expected(self, argv: Sequence[str]) -> Any:
        k = tuple(argv)
        if k not in self.cache:
            r = self.run(argv, {})
            if r["exit"]:
                raise MachineryError(f"the command line oracle {list(argv)} is rejected by pydoctor: {r.get('stderr')}")
            self.cache[k] = r["options"]
        return self.cache[k]


def attr_of(o: Dict[str, Any]) -> str:
    return "sourcepath" if o["_"]["dest"] == "packages" else o["_"]["dest"]


def abstract(run: Runner, o: Dict[str, Any], options: Any) -> Any:
    """Observed value of option o, mapped back to the slots of the model (None when it cannot be mapped)."""
    kind, x = o["kind"], o["_"]
    if not hasattr(options, attr_of(o)):             # --enable-intersphinx-cache: deprecated, no effect on Options
        return None
    val = getattr(options, attr_of(o))
    if kind == "flag":
        on, off = getattr(run.expected(cli_args(o, [1], "long")), attr_of(o)), getattr(run.expected([]), attr_of(o))
        if on == off:                                   # --make-html: the computed default is already True
            return None
        return [1] if val == on else [0]
    if kind == "count":
        return [options.verbosity + options.quietness] if x["dest"] == "verbosity" else [val]
    slots = [1, 2] + (sorted(o.get("extra", ())) if kind == "store" else [])
    single = {s: getattr(run.expected(cli_args(o, [s], "eq")), attr_of(o)) for s in slots}
    if kind == "store":
        default = getattr(run.expected([]), attr_of(o))
        hits = [[s] for s in slots if val == single[s]] + ([[]] if val == default else [])
        return hits[0] if len(hits) == 1 else None     # two slots with the same concrete value: not mappable
    out = []
    for item in (val or []):
        hit = [s for s in (1, 2) if single[s] == [item]]
        if not hit:
            return None
        out.append(hit[0])
    return out


def diff_options(a: Any, b: Any) -> Dict[str, Any]:
    import attr
    da, db = attr.asdict(a, recurse=False), attr.asdict(b, recurse=False)
    return {k: [repr(da[k])[:120], repr(db[k])[:120]] for k in da if da[k] != db[k]}


def evaluate(run: Runner, o: Dict[str, Any], scn: Dict[str, Any], ref: Dict[str, Any]) -> Dict[str, Any]:
    """Run one scenario for real; returns observed facts and the list of failed clauses."""
    canon = lambda x, v: cli_args(x, v, "eq" if x["kind"] in ("store", "append") else "long")
    exp_argv = canon(o, ref["val"])
    argv = cli_args(o, scn["cli"]["v"], scn["spell"], scn.get("cname", 1)) if scn["cli"]["has"] else []
    order_dependent = None
    if scn.get("comp"):
        # a second, different option on the command line: the reference is the command line naming both - in
        # either order (options do not get in each other's way)
        oc = run.by_key[scn["comp"]]
        comp_argv = canon(oc, [1])
        argv = argv + comp_argv
        other = run.expected(comp_argv + exp_argv)
        exp_argv = exp_argv + comp_argv
        if run.expected(exp_argv) != other:
            order_dependent = diff_options(run.expected(exp_argv), other)
    exp = run.expected(exp_argv)
    text = file_text(o, scn)
    fname = FILES[scn["fmt"]][0]
    if scn.get("via") == "config":                       # not one of the default names: found through --config only
        fname = "conf_" + fname
        argv = [f"--config={fname}"] + argv
    files = {fname: text, **second_file(o, scn)}
    got = run.run(argv, files)
    failed: List[str] = []
    obs: Dict[str, Any] = {"exit": got["exit"], "warn": got["warn"]}
    if order_dependent is not None:
        failed.append("OptionsIndependent")
        obs["command_line_order_matters"] = order_dependent
    if got["exit"] != ref["abort"]:
        failed.append("NoAbort")
        obs["stderr"] = got.get("stderr")
    else:
        obs["abs"] = abstract(run, o, got["options"])
        if got["options"] != exp:
            failed.append("SameAsCommandLine")
            obs["differs"] = diff_options(got["options"], exp)
        if o["kind"] == "append" and ref["val"]:
            want = [getattr(run.expected(cli_args(o, [s], "eq")), attr_of(o))[0] for s in ref["val"]]
            if list(getattr(got["options"], attr_of(o)) or []) != want:
                failed.append("AccumulateInOrder")
        if bool(got["warn"]) != ref["warn"]:
            failed.append("UnknownKeyWarned")
    return {"argv": argv, "file": files, "observed": obs, "failed": failed}


# ------------------------------------------------------------------------------------ known findings
def kf_unrecognised_cli_spelling(w: Dict[str, Any]) -> bool:
    """Python twin of Config.tla KF_UnrecognisedSpelling, on the OBSERVED value."""
    s = w.get("scn") or {}
    if w.get("kind") != "merge" or not (s.get("cli", {}).get("has") and s.get("file", {}).get("has")):
        return False
    if s.get("spell") not in ("cluster", "abbrev") or s.get("kind") not in ("count", "append"):
        return False
    fv, cv = s["file"]["v"], s["cli"]["v"]
    merged = [fv[0] + cv[0]] if s["kind"] == "count" else fv + cv
    return merged != w["expected"]["val"] and w["observed"].get("abs") == merged and not w["observed"]["exit"]


def _toml_reading(text: str, section: str, key: str) -> Any:
    import toml
    try:
        with warnings.catch_warnings():
            warnings.simplefilter("ignore")
            return toml.loads(text)[section][key]
    except Exception:
        pass
    try:
        import tomllib
        return tomllib.loads(text)[section][key]
    except Exception:
        return None


def kf_ini_read_as_toml(w: Dict[str, Any]) -> bool:
    """Python twin of ConfigQuote.tla KF_IniReadAsToml: a pydoctor.ini whose text is also valid TOML is read with
    TOML's rules (observed = the TOML reading, or the abort TOML's list reading causes), not with the INI ones."""
    if w.get("kind") == "quote":
        return w.get("fmt") == "ini" and bool(w.get("toml_valid")) \
            and (w.get("q") in ("single", "plain") or (w.get("q") in TRIPLE and "\n" in (w.get("text") or ""))) \
            and (w.get("observed") != w.get("expected") or bool(w.get("err")))
    if w.get("kind") == "merge":
        s = w["scn"]
        if s["fmt"] != "ini" or s["fstyle"] != "quoted" or w["failed"] != ["SameAsCommandLine"]:
            return False
        reading = _toml_reading(next(iter(w["file"].values())), "pydoctor", s["key"])
        return isinstance(reading, str) and len(w["observed"].get("differs", {})) == 1 \
            and repr(reading)[:120] == list(w["observed"]["differs"].values())[0][0]
    return False


def kf_toml_leading_escaped_quote(w: Dict[str, Any]) -> bool:
    """Python twin of ConfigQuote.tla KF_TomlLeadingQuote: the `toml` package reads a basic string whose text is `"`
    back as empty, and one whose text starts with `""` (written "\\"\\"...") without its first two and last two
    characters."""
    t = w.get("text") or ""
    return w.get("kind") == "quote" and w.get("q") in ("basic", "double") and bool(w.get("toml_valid")) \
        and not w.get("err") and ((t == '"' and w.get("observed") == "") or
                                  (t.startswith('""') and w.get("observed") == t[2:-2]))


def kf_empty_triple_quoted(w: Dict[str, Any]) -> bool:
    """Python twin of ConfigQuote.tla KF_EmptyTripleQuoted: '''''' / \"\"\"\"\"\" (the empty text) is not recognised as
    quoted and comes back as the six quote characters."""
    return w.get("kind") == "quote" and w.get("q") in TRIPLE and w.get("text") == "" and not w.get("err") \
        and w.get("unquote_str") == w.get("written") and w.get("observed") in (w.get("written"), "")


# ------------------------------------------------------------- part 0: histories of parses in one process
HIST_INPUTS: Dict[str, Tuple[List[str], Dict[str, str]]] = {
    "none": ([], {}),
    "pkgToml": ([], {"pyproject.toml": '[tool.pydoctor]\nadd-package = ["dir1"]\n'}),
    "pkgCli": (["--add-package=dir1"], {}),
    "pkgCfg": ([], {"setup.cfg": "[tool:pydoctor]\nadd-package = dir2\n"}),
    "srcPos": (["src1"], {}),
    "privIni": ([], {"pydoctor.ini": "[pydoctor]\nprivacy =\n    PUBLIC:a\n    hidden:b*\n"}),
    "nameCfg": ([], {"setup.cfg": "[tool:pydoctor]\nproject-name = FromCfg\n"}),
    "nameTomlComment": ([], {"pyproject.toml": '[tool.pydoctor]\nproject-name = "Demo"  # comment\n'}),
    "verboseToml": ([], {"pyproject.toml": "[tool.pydoctor]\nverbose = 2\n"}),
    "defaultCfg": ([], {"setup.cfg": "[DEFAULT]\nproject-name = FromDefault\n\n[tool:pydoctor]\nverbose = 1\n"}),
    # other tools' sections next to pydoctor's; pyproject.toml has no pydoctor table at all
    "foreignBoth": ([], {"setup.cfg": "[metadata]\nname = demo\n\n[flake8]\nverbose = 2\n\n[tool:pydoctor]\nproject-name = Demo2\n",
                         "pyproject.toml": "[tool.black]\nquiet = true\nline-length = 100\n"}),
    # another tool in the process builds its own parsers (see hist_pre), then pydoctor parses an empty command line
    "otherParsers": ([], {}),
}


def hist_pre(name: str) -> None:
    if name == "otherParsers":
        from pydoctor._configparser import IniConfigParser, TomlConfigParser
        IniConfigParser(["flake8"], split_ml_text_to_list=False).parse(io.StringIO("[flake8]\nverbose = 2\n"))
        TomlConfigParser(["tool.black"]).parse(io.StringIO("[tool.black]\nquiet = true\n"))


HIST_VERB = {"verboseToml": 2, "defaultCfg": 1}
HIST_PKGS = {"pkgToml": ["dir1"], "pkgCli": ["dir1"], "pkgCfg": ["dir2"]}
HIST_NAME = {"nameCfg": "FromCfg", "nameTomlComment": "Demo", "defaultCfg": "FromDefault", "foreignBoth": "Demo2"}
HIST_CFG = """SPECIFICATION Spec
CONSTANTS Inputs = {inputs}
          MaxLen = {maxlen}
          Memory = "{memory}"
CONSTRAINT Emit
INVARIANT Independent
INVARIANT NoMemory
"""


def run_history(run: Runner, hist: Sequence[str]) -> List[Dict[str, Any]]:
    """The parses of `hist`, one after the other, in ONE fresh child process forked from the (still clean) harness."""
    import attr
    rd, wr = os.pipe()
    pid = os.fork()
    if pid == 0:                                        # child: never returns
        try:
            os.close(rd)
            res = []
            for name in hist:
                argv, files = HIST_INPUTS[name]
                hist_pre(name)
                got = run.run(argv, files)
                fields = {} if got["exit"] else {k: repr(v) for k, v in attr.asdict(got["options"], recurse=False).items()}
                sp = [] if got["exit"] else [p.name for p in got["options"].sourcepath if p.name != "src1"]
                res.append({"i": name, "exit": got["exit"], "warn": got["warn"], "fields": fields, "pkgs": sp,
                            "verb": 0 if got["exit"] else got["options"].verbosity + got["options"].quietness,
                            "quiet": 0 if got["exit"] else got["options"].quietness,
                            "name": "-" if got["exit"] or got["options"].projectname is None else got["options"].projectname})
            with os.fdopen(wr, "w") as f:
                json.dump(res, f)
        finally:
            os._exit(0)
    os.close(wr)
    with os.fdopen(rd) as f:
        data = f.read()
    os.waitpid(pid, 0)
    if not data:
        raise MachineryError(f"the child process running history {list(hist)} returned nothing")
    return json.loads(data)  # type: ignore[no-any-return]


def judge_history(hist: Sequence[str], steps: List[Dict[str, Any]], fresh: Dict[str, Dict[str, Any]]) -> List[Dict[str, Any]]:
    """ConfigHistory.tla's Independent on the OBSERVED steps + equality with the same parse in a fresh process."""
    bad = []
    for k, st in enumerate(steps):
        i = st["i"]
        if st["exit"] or st["pkgs"] != HIST_PKGS.get(i, []) or st["name"] != HIST_NAME.get(i, "-") \
                or st.get("verb", 0) != HIST_VERB.get(i, 0) or st.get("quiet", 0) != 0:
            bad.append({"step": k, "input": i, "clause": "Independent", "pkgs": st["pkgs"], "name": st["name"],
                        "verbose": st.get("verb"), "quiet": st.get("quiet"), "exit": st["exit"]})
        elif st["fields"] != fresh[i]["fields"] or st["warn"] != fresh[i]["warn"]:
            diff = {f: [st["fields"].get(f, "")[:100], v[:100]] for f, v in fresh[i]["fields"].items() if st["fields"].get(f) != v}
            bad.append({"step": k, "input": i, "clause": "SameAsFreshProcess", "differs": diff})
    return bad


def part_history(ctx: Ctx) -> int:
    """Must run before anything else parses in this process: the children are forked from a clean parent."""
    maxlen = 2 if ctx.quick else 3
    r = ctx.tlc("ConfigHistory", HIST_CFG.format(inputs=tla(set(HIST_INPUTS)), maxlen=maxlen, memory="none"),
                workers=1, timeout=600)
    if r.errors or r.violated or r.rc != 0:
        raise MachineryError(f"TLC failed on ConfigHistory: {r.errors[:3]} {r.violated} rc={r.rc}")
    uniq = {json.dumps(x["hist"]): x for x in r.printed if isinstance(x, dict) and "hist" in x}
    if len(uniq) != r.distinct - 1:
        raise MachineryError(f"TLC printed {len(uniq)} histories for {r.distinct - 1} states")
    run = Runner(ctx)
    fresh = {i: run_history(run, [i])[0] for i in HIST_INPUTS}
    nontrivial = 0
    for key in sorted(uniq):
        rec = uniq[key]
        steps = run_history(run, rec["hist"])
        ctx.traces += 1
        nontrivial += len(rec["hist"]) > 1
        bad = judge_history(rec["hist"], steps, fresh)
        model = [[o["i"], o["pkgs"], o["name"], o["verb"], o["quiet"]] for o in rec["out"]]
        real = [[st["i"], st["pkgs"], st["name"], st["verb"], st["quiet"]] for st in steps]
        if bad:
            ctx.violation({"invariant": "ParseIndependent", "kind": "history", "history": rec["hist"],
                           "inputs": {i: {"argv": HIST_INPUTS[i][0], "files": HIST_INPUTS[i][1]} for i in rec["hist"]},
                           "failed": bad, "expected": model, "observed": real,
                           "key": f"history:{rec['hist']}:{[b['clause'] for b in bad]}"})
        elif model != real:
            ctx.drift_note({"kind": "history", "history": rec["hist"], "spec": model, "real": real})
        if len(rec["hist"]) == maxlen and rec["hist"][0] == "pkgToml" and rec["hist"][-1] == "none":
            ctx.sample({"kind": "history", "parses_in_one_process": rec["hist"], "sourcepath_names": [st["pkgs"] for st in steps]}, limit=8)
    ctx.extra["history"] = {"inputs": sorted(HIST_INPUTS), "max_len": maxlen, "histories": len(uniq),
                            "each_run_in_a_forked_child": True}
    # design-level negative controls: a process that remembers must violate Independent in the model
    nc = {}
    for memory in ("packages", "format", "defaults", "sections"):
        r2 = ctx.tlc("ConfigHistory", HIST_CFG.format(inputs=tla(set(HIST_INPUTS)), maxlen=2, memory=memory).replace("CONSTRAINT Emit\n", ""),
                     workers=1, timeout=600, count=False)
        nc[memory] = "Independent" in r2.violated
    # and the judge must refuse an observation with a leaked package
    leaked = [dict(fresh["pkgToml"]), dict(fresh["none"], pkgs=["dir1"])]
    nc["judge"] = bool(judge_history(["pkgToml", "none"], leaked, fresh)) and not judge_history(["pkgToml", "none"], [fresh["pkgToml"], fresh["none"]], fresh)
    ctx.extra.setdefault("negative_control", {})["history"] = nc
    if not all(nc.values()):
        raise MachineryError(f"negative control (histories) failed: {nc}")
    return nontrivial


# -------------------------------------------------------------------------------- part 1: the merge
MERGE_CFG = """SPECIFICATION Spec
CONSTANTS Options <- MC_Options
          Formats = {formats}
          Vias = {vias}
          ShortKeys = {shorts}
CONSTRAINT Emit
INVARIANT ImplIsRef
"""


def part_merge(ctx: Ctx, rng: random.Random) -> int:
    opts = option_table()
    run = Runner(ctx)
    for o in opts:                      # which single-valued options accept the falsy texts "0", "0.0", "" at all
        if o["kind"] == "store":
            o["extra"] = {slot for slot in ((0, 3, 4) if o["vk"] == "str" else (0,))
                          if not run.run(cli_args(o, [slot], "eq"), {})["exit"]}
    sdir = ctx.spec_dir()
    lit = tla([{k: v for k, v in o.items() if k != "_"} for o in opts])
    (sdir / "MC_Config.tla").write_text(
        "---- MODULE MC_Config ----\n\\* generated from pydoctor.options.get_parser()._actions by harness/checks/c20.py\n"
        f"EXTENDS Config\nMC_Options == {lit}\n====\n")
    r = ctx.tlc("MC_Config", MERGE_CFG.format(formats=tla({"toml", "cfg", "ini"}),
                                              vias=tla({"default"} if ctx.quick else {"default", "config"}),
                                              shorts=tla(short_keys())), workers="auto", timeout=900)
    if r.errors or (r.rc != 0 and not r.violated):
        raise MachineryError(f"TLC failed on Config: {r.errors[:3]} rc={r.rc}\n" + "\n".join(r.out.splitlines()[-25:]))
    if r.violated:
        ctx.extra.setdefault("design_level_invariants_violated", []).append({"merge": r.violated})
    uniq: Dict[str, Any] = {}
    for x in r.printed:                                 # TLC evaluates the constraint more than once per state
        if isinstance(x, dict) and "scn" in x:
            uniq.setdefault(json.dumps(x["scn"], sort_keys=True), x)
    recs = [uniq[k] for k in sorted(uniq)]
    if len(recs) != r.distinct or not recs:
        raise MachineryError(f"TLC printed {len(recs)} scenarios for {r.distinct} states")
    by_key = {o["key"]: o for o in opts}
    run.by_key = by_key
    seen_opts, kinds = set(), {}
    spec_kf = 0
    for n, rec in enumerate(recs):
        scn, ref, impl = rec["scn"], rec["ref"], rec["impl"]
        o = by_key[scn["key"]]
        seen_opts.add(o["key"])
        kinds[o["kind"]] = kinds.get(o["kind"], 0) + 1
        spec_kf += bool(rec["kf"])
        out = evaluate(run, o, scn, ref)
        ctx.traces += 1
        if out["failed"]:
            ctx.violation({"invariant": out["failed"][0], "failed": out["failed"], "kind": "merge", "scn": scn,
                           "argv": out["argv"], "file": out["file"], "expected": ref, "observed": out["observed"],
                           "key": f"merge:{scn['key']}:{scn['fmt']}:{scn.get('via')}:{scn['fstyle']}:{scn['spell']}:{scn['unknown']}:"
                                  f"{scn.get('comp')}:{scn.get('twice')}:{scn['file']['v']}:{scn['cli']['v']}:{scn.get('place')}:{scn.get('fname')}{scn.get('cname')}:{out['failed']}"})
        else:
            ob = out["observed"]
            if ob.get("abs") is not None and (ob["abs"] != impl["val"] or bool(ob["warn"]) != impl["warn"]):
                ctx.drift_note({"kind": "merge", "scn": scn, "impl": impl, "observed": ob})
            if n % max(1, len(recs) // 3) == 7 or (scn["unknown"] != "none" and not ctx.extra.get("_s_unk")):
                ctx.extra["_s_unk"] = ctx.extra.get("_s_unk") or scn["unknown"] != "none"
                ctx.sample({"kind": "merge", "argv": out["argv"], "file": out["file"], "effective": ref,
                            "observed": {k: v for k, v in ob.items()}}, limit=8)
    ctx.extra.pop("_s_unk", None)
    ctx.extra["merge"] = {"options_from_parser": len(opts), "options_not_modelled": list(NOT_MODELLED), "options_exercised": len(seen_opts), "scenarios": len(recs),
                          "scenarios_by_kind": kinds, "scenarios_matching_known_finding_in_spec": spec_kf,
                          "option_keys": sorted(seen_opts)}
    if len(seen_opts) != len(opts):
        raise MachineryError(f"options never exercised: {sorted(set(by_key) - seen_opts)}")

    # negative control: the judge must reject an observation it is handed wrong (file silently ignored)
    o = by_key["project-name"]
    scn = {"opt": 0, "key": "project-name", "kind": "store", "fmt": "toml", "via": "default", "file": {"has": True, "v": [1]},
           "fstyle": "string", "cli": {"has": False, "v": []}, "spell": "none", "unknown": "none", "place": "main",
           "fname": 1, "cname": 1, "twice": False, "comp": ""}
    e_good = evaluate(run, o, scn, {"val": [1], "warn": False, "abort": False})
    e_bad = evaluate(run, o, scn, {"val": [2], "warn": False, "abort": False})
    bad2 = evaluate(run, o, scn, {"val": [1], "warn": True, "abort": False})["failed"]
    good, bad = e_good["failed"], e_bad["failed"]
    # only the judge's ability to reject is machinery: the wrong expectation must be refused BECAUSE OF projectname;
    # the right one must not be (whether it is refused for another attribute is an observation about the code - the
    # scenario is among the enumerated ones - never an exit 2)
    okc = "projectname" in e_bad["observed"].get("differs", {}) and "projectname" not in e_good["observed"].get("differs", {}) \
        and "UnknownKeyWarned" in bad2 and "UnknownKeyWarned" not in good
    ctx.extra.setdefault("negative_control", {})["wrong_expectation_rejected"] = okc
    if not okc:
        raise MachineryError(f"negative control (merge) failed: {good} {bad} {bad2}")
    return sum(1 for rec in recs if rec["scn"]["file"]["has"])


# ----------------------------------------------------------------------------- part 2: quoting identity
QALPHA = ["a", " ", "'", '"', "\\", "#", "=", "[", "]", "%", "\n"]
QSTYLES = [("cfg", "single"), ("cfg", "double"), ("cfg", "plain"), ("ini", "single"), ("ini", "double"), ("ini", "plain"),
           ("cfg", "tsingle"), ("cfg", "tdouble"), ("ini", "tsingle"), ("ini", "tdouble"),
           ("toml", "basic"), ("toml", "literal")]
QUOTE_CFG = """SPECIFICATION Spec
CONSTANTS MaxLen = {k}
          Exhaustive = {exh}
          Chunks = 64
          SampleEvery = {every}
CONSTRAINT Emit
INVARIANT Lossless
"""


TRIPLE = {"tsingle": "'", "tdouble": '"'}


def q_applicable(t: str, q: str) -> bool:
    if q in TRIPLE:                                  # content verbatim between triple quotes
        c = TRIPLE[q]
        lines = t.split("\n")               # several lines: continuation lines of the INI value (ConfigQuote!LinesOK)
        lines_ok = all((i == 0 or (l[:1] not in (" ", "#") and (l != "" or i == len(lines) - 1)))
                       and (i == len(lines) - 1 or not l.endswith(" ")) for i, l in enumerate(lines))
        return "\\" not in t and lines_ok and not t.endswith(c) and c * 3 not in t
    if q == "literal":
        return "'" not in t and "\n" not in t
    if q == "plain":
        return plain_safe(t)
    return True


def q_encode(t: str, q: str) -> str:
    return {"single": lambda: py_quote(t, "'"), "double": lambda: py_quote(t, '"'), "basic": lambda: py_quote(t, '"'),
            "literal": lambda: "'" + t + "'", "plain": lambda: t,
            "tsingle": lambda: "'''" + t.replace("\n", "\n    ") + "'''",
            "tdouble": lambda: '"""' + t.replace("\n", "\n    ") + '"""'}[q]()


def chars(t: str) -> List[str]:
    return ["NL" if c == "\n" else c for c in t]


def read_back(run: Runner, parser: Any, fmt: str, written: str, e2e: bool) -> Tuple[Optional[str], str, bool]:
    """(text read back, error, file is valid TOML) for `project-name = <written>` in a file of format fmt."""
    import toml
    text = f"[{FILES[fmt][1]}]\nproject-name = {written}\n"
    tv = False
    loaders = [toml.loads]
    with contextlib.suppress(ImportError):
        import tomllib
        loaders.append(tomllib.loads)
    for load in loaders:                             # valid for any TOML reader pydoctor may be using
        with contextlib.suppress(Exception), warnings.catch_warnings():
            warnings.simplefilter("ignore")
            tv = tv or isinstance(load(text), dict)
    if e2e:
        got = run.run([], {FILES[fmt][0]: text})
        if got["exit"]:
            return None, "exit: " + str(got.get("stderr", ""))[-300:], tv
        v = got["options"].projectname
    else:
        try:
            with warnings.catch_warnings():
                warnings.simplefilter("ignore")
                v = parser._config_file_parser.parse(io.StringIO(text)).get("project-name")
        except Exception as e:
            return None, f"{type(e).__name__}: {e}"[:600], tv
    if not isinstance(v, str):
        return None, f"read back as {type(v).__name__}: {v!r}"[:120], tv
    return v, "", tv


def quote_table(ctx: Ctx, rng: random.Random, run: Runner, parser: Any, strings: Sequence[str], e2e_prob: float,
                k: int, exhaustive: bool, tag: str) -> Tuple[List[Dict[str, Any]], int]:
    """Write / read back every (string, style), have TLC judge the table, report. Returns (rows, #end-to-end)."""
    from pydoctor._configparser import unquote_str
    rows, meta = [], []
    e2e_n = 0
    for t in strings:
        for fmt, q in QSTYLES:
            if not q_applicable(t, q):
                continue
            w = q_encode(t, q)
            u = t
            if fmt != "toml" and q != "plain":           # a Python literal: CPython is the referee of the encoding
                with warnings.catch_warnings():
                    warnings.simplefilter("ignore")
                    as_read = w.replace("\n    ", "\n") if q in TRIPLE else w      # configparser strips continuation lines
                    if ast.literal_eval(as_read) != t:
                        raise MachineryError(f"ConfigQuote.tla's Encode({t!r}, {q}) = {w!r} does not mean that text in Python")
                try:
                    u = unquote_str(as_read)
                except Exception as ex:
                    u = f"<{type(ex).__name__}>"
            e2e = len(t) <= 1 or rng.random() < e2e_prob
            back, err, tv = read_back(run, parser, fmt, w, e2e)
            e2e_n += e2e
            rows.append({"s": chars(t), "fmt": fmt, "q": q, "w": chars(w), "back": chars(back or ""), "u": chars(u),
                         "err": err, "tv": tv})
            meta.append((t, w, e2e))
    f = ctx.scratch / f"quote_table_{tag}.json"
    f.write_text(json.dumps({"rows": rows}))
    r = ctx.tlc("ConfigQuote", QUOTE_CFG.format(k=k, exh=tla(exhaustive), every=max(2, len(rows) // 12)), workers="auto",
                env={"TABLE_FILE": str(f)}, timeout=1500)
    f.unlink()
    if r.errors or (r.rc != 0 and not r.violated):
        raise MachineryError(f"TLC failed on ConfigQuote: {r.errors[:3]} rc={r.rc}\n" + "\n".join(r.out.splitlines()[-25:]))
    if r.distinct != 1 + 64 + len(rows):
        raise MachineryError(f"TLC evaluated {r.distinct - 65} of {len(rows)} rows")
    if r.violated:
        ctx.extra.setdefault("design_level_invariants_violated", []).append({"quote-" + tag: r.violated})
    reports = [x for x in r.printed if isinstance(x, dict) and "identity" in x]
    sampled = 0
    for rep in reports:
        t, w, e2e = meta[rep["i"] - 1]
        if not rep["written_ok"] or not rep["lossless"]:
            raise MachineryError(f"the harness wrote {w!r} for {t!r} ({rep['fmt']}/{rep['q']}), not what ConfigQuote.tla defines")
        if not rep["identity"]:
            back = "".join("\n" if c == "NL" else c for c in rep["back"])
            ctx.violation({"invariant": "QuotedTextReadBack", "kind": "quote", "fmt": rep["fmt"], "q": rep["q"],
                           "text": t, "written": w, "expected": t, "observed": back if not rep["err"] else None,
                           "unquote_str": "".join("\n" if c == "NL" else c for c in rep["u"]),
                           "err": rep["err"], "toml_valid": rep["tv"], "end_to_end": e2e,
                           "key": f"quote:{rep['fmt']}:{rep['q']}:{t!r}"})
        elif sampled < 1 and len(t) >= 2:
            sampled += 1
            ctx.sample({"kind": "quote", "fmt": rep["fmt"], "style": rep["q"], "text": t, "written": w}, limit=8)
    ctx.traces += len(rows)
    return rows, e2e_n


def part_quote(ctx: Ctx, rng: random.Random) -> int:
    from pydoctor.options import get_parser
    parser = get_parser()
    run = Runner(ctx)
    k = 3 if ctx.quick else 4
    strings = ["".join(t) for m in range(k + 1) for t in itertools.product(QALPHA, repeat=m)]
    rows, e2e_n = quote_table(ctx, rng, run, parser, strings, 0.08 if ctx.quick else 0.02, k, True, "exhaustive")
    # longer strings, sampled
    weighted = QALPHA + ["\\", "'", '"', "a"]
    longer = sorted({"".join(rng.choice(weighted) for _ in range(rng.randint(k + 1, k + 4)))
                     for _ in range(1200 if ctx.quick else 20000)})
    rows_l, e2e_l = quote_table(ctx, rng, run, parser, longer, 0.05 if ctx.quick else 0.01, k, False, "sampled")
    ctx.extra["quote"] = {"max_len": k, "strings": len(strings), "rows": len(rows), "rows_end_to_end": e2e_n,
                          "rows_whose_ini_file_is_also_valid_toml": sum(1 for x in rows if x["tv"] and x["fmt"] == "ini"),
                          "sampled_longer_strings": len(longer), "sampled_rows": len(rows_l),
                          "sampled_rows_end_to_end": e2e_l}
    f = ctx.scratch / "quote_table_negctl.json"

    # negative control: a corrupted read-back must be reported by TLC
    rows2 = [dict(x) for x in rows[:200]]
    victim = next(i for i, x in enumerate(rows2) if x["s"] == ["a"] and x["fmt"] == "cfg" and x["q"] == "single")
    rows2[victim]["back"] = ["a", "a"]
    f.write_text(json.dumps({"rows": rows2}))
    r2 = ctx.tlc("ConfigQuote", QUOTE_CFG.format(k=k, exh="FALSE", every=0), workers=4, env={"TABLE_FILE": str(f)},
                 timeout=600, count=False)
    flagged = [x["i"] for x in r2.printed if isinstance(x, dict) and "identity" in x and not x["identity"] and not x["kf"]]
    okc = victim + 1 in flagged
    ctx.extra.setdefault("negative_control", {})["corrupted_read_back_reported"] = okc
    f.unlink()
    if not okc:
        raise MachineryError(f"negative control (quote table) failed: {flagged}")
    return len(rows) + len(rows_l)


# -------------------------------------------------------------------------------------------- check
def run(ctx: Ctx) -> int:
    rng = random.Random(ctx.seed)
    ctx.register_matcher("unrecognised-cli-spelling", kf_unrecognised_cli_spelling)
    ctx.register_matcher("ini-file-read-as-toml", kf_ini_read_as_toml)
    ctx.register_matcher("toml-leading-escaped-quote", kf_toml_leading_escaped_quote)
    ctx.register_matcher("empty-triple-quoted", kf_empty_triple_quoted)
    n0 = part_history(ctx)              # first: its child processes are forked from a parent that has parsed nothing
    n1 = part_merge(ctx, rng)
    n2 = part_quote(ctx, rng)
    ctx.exhaustive = True
    ctx.assumptions += [
        "effective configuration = the Options object; the oracle for a scenario is Options.from_args() of the command "
        "line that spells the reference value canonically (--key=value), in the same (empty) working directory",
        "flags in files are `true`; a key given on the command line replaces the file's list (repeatable options too); "
        "'accumulate in order' is about repetitions within one source",
        "-h, -V, -c/--config and the positional SOURCEPATH cannot be set from a file and are not options in the sense "
        "of the property",
        "the regular expressions of is_quoted are not modelled; the spec contributes the enumeration, the encoding and "
        "the identity oracle",
    ]
    return ctx.finish(
        rule="scenarios (option x format x file value/style x command-line value/spelling x unknown key) enumerated by "
             "TLC from Config.tla over the real parser's option list and executed through Options.from_args in a "
             "directory holding the file; (string, format, quoting style) rows read back by the real parsers and judged "
             "by TLC (ConfigQuote.tla); non-trivial = scenario with a value in the file, every quoting row",
        distinct_nontrivial=n0 + n1 + n2)


# ------------------------------------------------------------------------------------------- replay
def replay(ctx: Ctx, path: str) -> int:
    w = json.load(open(path))
    bad: Any = None
    if w.get("kind") == "merge":
        table = {x["key"]: x for x in option_table()}
        o = table[w["scn"]["key"]]
        runner = Runner(ctx)
        runner.by_key = table
        out = evaluate(runner, o, w["scn"], w["expected"])
        bad = out["failed"] and {"failed": out["failed"], "observed": out["observed"]}
    elif w.get("kind") == "history":
        run = Runner(ctx)
        fresh = {i: run_history(run, [i])[0] for i in set(w["history"])}
        bad = judge_history(w["history"], run_history(run, w["history"]), fresh)
    elif w.get("kind") == "quote":
        from pydoctor.options import get_parser
        from pydoctor._configparser import unquote_str
        back, err, _ = read_back(Runner(ctx), get_parser(), w["fmt"], w["written"], True)
        u = unquote_str(w["written"]) if w["fmt"] != "toml" and w["q"] != "plain" else w["expected"]
        bad = (err or back != w["expected"] or u != w["expected"]) and {"read_back": back, "unquote_str": u, "err": err}
    else:
        raise MachineryError("unknown witness kind")
    print("replay:", f"still violated: {bad}" if bad else "holds now")
    if bad:
        print(f"VIOLATION property=C20 replay={path}")
    ctx.cleanup()
    return 1 if bad else 0
