"""
C07 - a re-exported object is documented once, where exported, and stays reachable.

spec -> code : TLC explores the re-export families of Processing.tla (re-exporter = parent package | sibling module,
               import = plain | renamed | star, consumers importing from the defining module, the re-exporting one,
               both, or through a module alias; moves combined with duplicates) under every admissible schedule and
               checks at design level that every base written in source resolves (BasesResolve).  Each behaviour is
               rebuilt by the real pydoctor; the expectations below are derived from the PROPERTY text and from
               CPython importing the same files (what object each reference denotes), never from the model.
Verdict (real state): MovedOnce, MembersFollow, NotUnderOrigin, ConsumersResolve (bases), LookupByOldAndNewName
               (System.find_object), XrefByOldAndNewName (docstring linker), AnnotationLinks (linker.link_to of the
               consumer's local name), PageFollows (url of the object is the re-exporter's).
"""
from __future__ import annotations

import json
import random
from typing import Any, Dict, List

from ..core import Ctx, MachineryError
from .. import families, procrun
from .. import projects as P


def c07_projects(quick: bool, rng: random.Random) -> List[Dict[str, Any]]:
    ps = list(families.t3_reexport()) + [p for p in families.t5_duplicates() if "move" in p["meta"].get("shape", "")] \
        + list(families.t7_moved_class_with_moved_base()) + list(families.t8_prefix_roots()) \
        + list(families.t9_reexport_while_origin_processing()) + list(families.t11_cycle_rename_and_consumer_first()) \
        + list(families.t14_two_roots_facade()) + list(families.t10_double_reexport()) + list(families.t16_type_checking_cycle()) \
        + [p for p in families.t17_how_all_is_written() if p["meta"]["shape"] == "reexport"]
    ps += [p for p in families.rnd2_corpus(quick) if P.expected_reexports(p) or P.expected_reexports(p, multi=True)]
    if not quick:
        extra = [families.random_project(rng, rng.randint(3, 5)) for _ in range(300)]
        ps += [p for p in extra if P.expected_reexports(p)][:120]
    return ps


def judge(ctx: Ctx, res: Dict[str, Any], oracle: Dict[str, Any]) -> List[str]:
    from pydoctor import model
    from pydoctor.stanutils import flatten
    proj, real = res["project"], res["real"]
    system = real["system"]
    dump = real["dump"]
    failed: List[str] = []
    detail: Dict[str, Any] = {}
    exp = P.expected_reexports(proj)
    by_site: Dict[str, List[str]] = {}
    for k, e in dump.items():
        if e["site"]:
            by_site.setdefault(json.dumps(e["site"]), []).append(k)
    moved_sites = {json.dumps(x["site"]): x for x in exp}
    # members (and nested members) of a moved object move with it: site -> expected new key
    moved_keys: Dict[str, str] = {}

    def add_members(origin: int, pc: int, newkey: str) -> None:
        for name, mpc in P.members_of(proj, origin, pc):
            moved_keys[json.dumps([origin, mpc])] = f"{newkey}.{name}"
            if proj["mods"][origin - 1]["ops"][mpc - 1]["k"] == "class":
                add_members(origin, mpc, f"{newkey}.{name}")
    for x in exp:
        moved_keys[json.dumps(x["site"])] = x["new"]
        if x["kind"] == "class":
            add_members(x["origin"], x["site"][1], x["new"])
        elif x["kind"] == "module":
            for name, mpc in x["members"]:
                moved_keys[json.dumps([x["member_origin"], mpc])] = f"{x['new']}.{name}"
    for x in exp:
        keys = by_site.get(json.dumps(x["site"]), [])
        if keys != [x["new"]]:
            failed.append("MovedOnce")
            detail["MovedOnce"] = {"expected": x["new"], "keys": keys}
            continue
        obj = system.allobjects[x["new"]]
        for name, pc in x["members"]:
            mk = by_site.get(json.dumps([x.get("member_origin", x["origin"]), pc]), [])
            if mk != [f"{x['new']}.{name}"]:
                failed.append("MembersFollow")
                detail["MembersFollow"] = {"member": name, "keys": mk}
        if any(k == x["old"] or k.startswith(x["old"] + ".") for k in dump):
            failed.append("NotUnderOrigin")
        for nm in (x["old"], x["new"]):
            try:
                got = system.find_object(nm)
            except LookupError:
                got = None
            if got is not obj:
                failed.append("LookupByOldAndNewName")
                detail["LookupByOldAndNewName"] = {"name": nm, "got": repr(got)}
        expected_url = f"{x['new']}.html" if x["kind"] in ("class", "module") else f"{x['new'].rsplit('.', 1)[0]}.html#{x['new'].rsplit('.', 1)[1]}"
        if obj.url != expected_url and not (len(system.root_names) == 1 and obj.url.startswith("index.html")):
            failed.append("PageFollows")
            detail["PageFollows"] = {"url": obj.url, "expected": expected_url}
        # docstring cross-references by old and by new qualified name, from every module of the project
        for mk, m in list(system.allobjects.items()):
            if not isinstance(m, (model.Module, model.Class, model.Function)):
                continue                  # (from the docstring of every module, class and function of the project)
            for nm in (x["old"], x["new"]):
                try:
                    got = m.docstring_linker._resolve_identifier_xref(nm, 0)
                except LookupError:
                    got = None
                if got is not obj:
                    failed.append("XrefByOldAndNewName")
                    detail["XrefByOldAndNewName"] = {"from": mk, "name": nm, "got": repr(got)}
    # the object is an entry of its re-exporter (listed on its page)
    for x in exp:
        obj = system.allobjects.get(x["new"])
        if obj is not None and (obj.parent is None or obj.parent.contents.get(obj.name) is not obj):
            failed.append("ListedInReExporter")
            detail["ListedInReExporter"] = {"object": x["new"], "parent": repr(obj.parent)}
    # consumers, read off the source (works for projects CPython cannot import, e.g. import cycles)
    for skey, sites in P.static_base_sites(proj).items():
        keys = by_site.get(skey, [])
        if len(keys) != 1:
            continue
        e = dump[keys[0]]
        for i, bs in enumerate(sites):
            if bs is not None and json.dumps(bs) in moved_keys:
                got = e.get("base_sites", [])[i] if i < len(e.get("base_sites", [])) else None
                gotname = e["bases"][i] if i < len(e["bases"]) else None
                if got != bs or gotname != moved_keys[json.dumps(bs)]:
                    failed.append("ConsumersResolve")
                    detail["ConsumersResolve(static)"] = {"class": keys[0], "rawbases": e.get("rawbases"), "expected": moved_keys[json.dumps(bs)], "got": gotname}
    # consumers: what CPython says each base / local name denotes
    if "failed" not in oracle and not oracle.get("errors"):
        for skey, info in oracle["classes"].items():
            keys = by_site.get(skey, [])
            if len(keys) != 1:
                continue
            e = dump[keys[0]]
            for i, bs in enumerate(info["bases"]):
                if bs is not None and json.dumps(bs) in moved_keys:
                    got = e.get("base_sites", [None] * (i + 1))[i] if i < len(e.get("base_sites", [])) else None
                    gotname = e["bases"][i] if i < len(e["bases"]) else None
                    if got != bs or gotname != moved_keys[json.dumps(bs)]:
                        failed.append("ConsumersResolve")
                        detail["ConsumersResolve"] = {"class": keys[0], "rawbases": e.get("rawbases"), "expected_site": bs, "got": got}
        for nskey, ns in oracle["ns"].items():
            if not nskey.startswith("m:"):
                continue
            m = system.allobjects.get(nskey[2:])
            if not isinstance(m, model.Module):
                continue
            idxq = P.module_index_by_qname(proj)
            for name, tgt in ns.items():
                if tgt and tgt[0] == "obj" and json.dumps(tgt[1:]) in moved_sites:
                    x = moved_sites[json.dumps(tgt[1:])]
                    obj = system.allobjects.get(x["new"])
                    if obj is None:
                        continue
                    # "names either location": the defining module, the re-exporting module, or an import from one of the two;
                    # an import from a third module that merely hands the name on is outside the property
                    mi = idxq.get(nskey[2:], 0)
                    if mi and mi not in (x["origin"], x["rex"]) and not (set(P.import_source_modules(proj, mi, name)) & {x["origin"], x["rex"]}):
                        continue
                    r1 = m.resolveName(name)
                    if r1 is not obj:
                        failed.append("ConsumersResolve")
                        detail["ConsumersResolve(name)"] = {"module": nskey[2:], "name": name, "got": repr(r1)}
                    html = flatten(m.docstring_linker.link_to(name, "lbl"))
                    samepage = obj.page_object is m and f'href="#{obj.url.split("#")[-1]}"' in html   # shortened link on its own page
                    if f'href="{obj.url}"' not in html and not samepage:
                        failed.append("AnnotationLinks")
                        detail["AnnotationLinks"] = {"module": nskey[2:], "name": name, "html": html}
    failed = sorted(set(failed))
    if failed:
        ctx.violation({"invariant": failed[0], "failed": failed, "detail": detail,
                       "origin": {"family": proj["family"], **proj["meta"], "sched": res["sched"], "project": procrun.strip(proj)},
                       "key": f"{failed}:{proj['family']}:{proj['meta'].get('where')}:{proj['meta'].get('form')}:{proj['meta'].get('consumers')}:{proj['meta'].get('shape')}"})
    return failed


def kf_module_shadowed(w: Dict[str, Any]) -> bool:
    """Known finding: a class/function re-exported under the very name of the module that defines it takes over the
    module's registry key; later imports from that module find a non-module and re-export nothing.  Matches only when
    the object that is not where the property wants it comes from a module whose qualified name is the new name of
    another re-exported object of the project."""
    o = w.get("origin", {})
    if "project" not in o or not set(w.get("failed", [])) <= {"MovedOnce", "MembersFollow", "NotUnderOrigin", "LookupByOldAndNewName", "XrefByOldAndNewName"}:
        return False
    proj = {**o["project"], "family": "", "meta": {}}
    exp = P.expected_reexports(proj)
    taken = {x["new"] for x in exp}
    d = w.get("detail", {}).get("MovedOnce")
    if not d:
        return False
    x = next((e for e in exp if e["new"] == d["expected"]), None)
    return x is not None and ".".join(P.mod_path(proj, x["origin"] - 1)) in (taken - {x["new"]})


def kf_all_in_parts(w: Dict[str, Any]) -> bool:
    """Known finding: pydoctor reads __all__ from the LAST top-level statement `__all__ = <list or tuple literal>` only
       (astbuilder.findModuleLevelAssign / parseAll, before the module is walked): names added by `__all__ += [...]`,
       `__all__.extend([...])`, `__all__.append(...)` are not read, and a concatenation or an assignment nested in an `if` leaves
       the module without __all__.  The names of the unread part are not re-exported.
       Matches only when the object the failing expectation speaks about is exported under such an unread name."""
    proj = w.get("origin", {}).get("project", {})
    unread: Dict[str, set] = {}
    for i, m in enumerate(proj.get("mods", [])):
        if not m.get("hasAll"):
            continue
        q = ".".join(P.mod_path(proj, i))
        if m.get("allform") in ("augmented", "extend", "append"):
            unread[q] = set(m["all"][m.get("allsplit", len(m["all"])):])
        elif m.get("allform") in ("concat", "conditional"):
            unread[q] = set(m["all"])
    if not any(unread.values()):
        return False
    det = w.get("detail", {})
    keys = []
    if "MovedOnce" in det:
        keys.append(det["MovedOnce"]["expected"])
    if "ConsumersResolve(static)" in det:
        keys.append(det["ConsumersResolve(static)"]["expected"])
    if not keys or not set(w.get("failed", [])) <= {"MovedOnce", "ConsumersResolve", "AnnotationLinks"}:
        return False
    return all(k.rsplit(".", 1)[0] in unread and k.rsplit(".", 1)[1] in unread[k.rsplit(".", 1)[0]] for k in keys)


def kf_reexporter_renamed(w: Dict[str, Any]) -> bool:
    """Known finding: module M re-exports X from its defining module D (the alias left in D reads 'pkg.M.X'), and the package
    re-exports M itself under another name ('from . import M as N'): the alias in D names a location that is outdated itself,
    find_object follows one hop only, so references through the DEFINING module (pkg.D.X) no longer lead to the object.
    Matches only when the object is re-exported by a module that is itself renamed, the object sits where it should, and what
    fails are lookups of its OLD qualified name / consumers importing it from the defining module."""
    o = w.get("origin", {})
    if "project" not in o or not set(w.get("failed", [])) <= {"AnnotationLinks", "ConsumersResolve", "LookupByOldAndNewName", "XrefByOldAndNewName"}:
        return False
    proj = {**o["project"], "family": "", "meta": {}}
    exp = P.expected_reexports(proj)
    renamed = {e["new"] for e in exp if e["kind"] == "module"}
    victims = [e for e in exp if e["kind"] != "module" and any(e["new"].startswith(r + ".") for r in renamed)]
    if not victims:
        return False
    det = w.get("detail", {})
    olds = {e["old"] for e in victims}
    news = {e["new"] for e in victims}
    if "LookupByOldAndNewName" in det and det["LookupByOldAndNewName"]["name"] not in olds:
        return False
    if "XrefByOldAndNewName" in det and det["XrefByOldAndNewName"]["name"] not in olds:
        return False
    cs = det.get("ConsumersResolve(static)")
    if cs is not None and not (cs.get("expected") in news and cs.get("got") in ("", None)):
        return False
    return True


def kf_long_import_chain(w: Dict[str, Any]) -> bool:
    """Known finding: the re-exporting module gets the name through THREE or more intermediate modules that each import it plainly
    from the next (R: from .l3 import X; l3: from .l2 import X; l2: from .l1 import X; l1: from ._base import X): expandName follows
    one import, find_object a second one, the third is not followed, so the object is not recognised and stays where it is defined.
    Matches only when the object that was not moved is such an object and nothing else is wrong."""
    o = w.get("origin", {})
    d = w.get("detail", {}).get("MovedOnce")
    if "project" not in o or not d or not set(w.get("failed", [])) <= {"MovedOnce", "ConsumersResolve", "ListedInReExporter"}:
        return False
    proj = {**o["project"], "family": "", "meta": {}}
    x = next((e for e in P.expected_reexports(proj) if e["new"] == d["expected"]), None)
    if x is None or x.get("intermediates", 0) < 3 or d["keys"] != [x["old"]]:
        return False
    cs = w.get("detail", {}).get("ConsumersResolve(static)")
    return cs is None or (cs.get("expected") == x["new"] and cs.get("got") in (x["old"], None, ""))


def kf_import_then_rebound(w: Dict[str, Any]) -> bool:
    """Known finding: some module imports the object, lists the name in __all__ and later re-binds the name itself (not a re-exporter
    for Python, one for pydoctor): the object is dragged into that module and superseded there.  Matches only when the object
    that is not where the property wants it is imported-listed-and-rebound by a module of the project."""
    o = w.get("origin", {})
    d = w.get("detail", {}).get("MovedOnce")
    if "project" not in o or not d:
        return False
    proj = {**o["project"], "family": "", "meta": {}}
    x = next((e for e in P.expected_reexports(proj) + P.expected_reexports(proj, multi=True) if e["new"] == d["expected"]), None)
    if x is None:
        return False
    idx = P.module_index_by_qname(proj)
    for ri, R in enumerate(proj["mods"], 1):
        if not R["hasAll"] or ri == x["rex"]:
            continue
        depth, bound = 0, set()
        for op in R["ops"]:
            depth += 1 if op["k"] == "class" else -1 if op["k"] == "endclass" else 0
            if depth == 0 and op["k"] == "from":
                ti = idx.get(P.resolve_import_target(proj, ri, op["lvl"], op["m"]) or "")
                ch = P.follow_import_chain(proj, ti, op["orig"]) if ti else None
                if ch and [ch[0], P.top_level_defs(proj, ch[0])[ch[1]][1]] == x["site"] and op["as"] in R["all"]:
                    bound.add(op["as"])
            elif depth == 0 and op["k"] == "star":
                ti = idx.get(P.resolve_import_target(proj, ri, op["lvl"], op["m"]) or "")
                if ti == x["origin"]:
                    bound |= {n for n, (k, pc) in P.top_level_defs(proj, ti).items() if [ti, pc] == x["site"] and n in R["all"]}
            elif ((depth == 1 and op["k"] == "class") or (depth == 0 and op["k"] in ("def", "var") and not op.get("ann"))) and op["n"] in bound:
                return True
    return False


def run(ctx: Ctx) -> int:
    rng = random.Random(ctx.seed)
    ctx.register_matcher("defining-module-shadowed-by-reexported-namesake", kf_module_shadowed)
    ctx.register_matcher("import-listed-in-all-then-rebound", kf_import_then_rebound)
    ctx.register_matcher("reexport-through-three-intermediate-imports", kf_long_import_chain)
    ctx.register_matcher("all-written-in-parts-not-read", kf_all_in_parts)
    ctx.register_matcher("reexporter-renamed-by-its-package", kf_reexporter_renamed)
    projs = c07_projects(ctx.quick, rng)
    results = procrun.explore(ctx, projs, record_states=False)
    oracles: Dict[int, Dict[str, Any]] = {}
    n_exp = 0
    spec_unresolved = 0
    for res in results:
        pid = res["pid"]
        if pid not in oracles:
            d = ctx.scratch / f"oracle_{pid}"
            d.mkdir()
            P.write_project(res["project"], d)
            oracles[pid] = P.cpython_oracle(res["project"], d)
            n_exp += len(P.expected_reexports(res["project"]))
        judge(ctx, res, oracles[pid])
        if any(e["cls"] == "Class" and any(b == [] for b in e["bases"]) for e in res["spec"]["keys"]):
            spec_unresolved += 1
    ctx.extra["projects"] = len(projs)
    ctx.extra["expected_reexports"] = n_exp
    ctx.extra["oracle_import_failures"] = sum(1 for o in oracles.values() if "failed" in o or o.get("errors"))
    ctx.extra["design_level_behaviours_with_unresolved_base"] = spec_unresolved
    if n_exp == 0:
        raise MachineryError("vacuous: no project contains a re-export the property talks about")
    r0 = results[0]
    ctx.sample({"family": r0["project"]["family"], "meta": r0["project"]["meta"], "sched": r0["sched"],
                "expected_reexports": P.expected_reexports(r0["project"]), "real_keys": sorted(r0["real"]["dump"])})
    # ---- annotations naming a re-exported class, judged on the written pages (hand-written project, real driver)
    from .. import reexport_pages
    for wit in reexport_pages.check(ctx.scratch):
        ctx.violation({"invariant": "AnnotationLinks", "failed": ["AnnotationLinks"], "side": "written pages", "detail": wit,
                       "origin": {"family": "reexport_pages"}, "key": "pages:" + json.dumps(wit, sort_keys=True)[:160]})
    ctx.extra["page_level_annotation_expectations"] = len(reexport_pages.EXPECT)
    ctx.traces += 1
    # negative control: an expectation with the wrong new location must be flagged
    fake = dict(r0)
    fake["real"] = dict(r0["real"])
    fake["real"]["dump"] = {k.replace(".X", ".Q").replace(".Z", ".Q"): v for k, v in r0["real"]["dump"].items()}
    n0 = len(ctx.violations)
    k0 = dict(ctx.known_seen)
    bad = judge(ctx, fake, oracles[r0["pid"]])
    del ctx.violations[n0:]
    ctx.known_seen = k0
    ctx.extra["negative_control"] = {"corrupted_keys_flagged": bool(bad)}
    if not bad:
        raise MachineryError("negative control failed: corrupted registry keys not flagged")
    ctx.exhaustive = True
    ctx.assumptions += ["expectations come from the property text (static re-export preconditions) and from CPython importing the same files",
                        "docstring xrefs are resolved through _EpydocLinker._resolve_identifier_xref, annotations through link_to"]
    return ctx.finish(rule="behaviour = (re-export project, admissible schedule) enumerated by TLC, rebuilt by the real pydoctor; "
                           "non-trivial = the project contains at least one re-export meeting the property's preconditions",
                      distinct_nontrivial=sum(1 for r in results if P.expected_reexports(r["project"])))


def replay(ctx: Ctx, path: str) -> int:
    w = json.load(open(path))
    if w.get("side") == "written pages":
        from .. import reexport_pages
        bad = bool(reexport_pages.check(ctx.scratch))
        print("replay:", "still violated" if bad else "holds now")
        if bad:
            print(f"VIOLATION property=C07 replay={path}")
        ctx.cleanup()
        return 1 if bad else 0
    o = w["origin"]
    proj = {**o["project"], "family": o.get("family", ""), "meta": {}}
    real = P.real_build(proj, o["sched"], ctx.scratch)
    d = ctx.scratch / "oracle"
    d.mkdir()
    P.write_project(proj, d)
    bad = judge(ctx, {"project": proj, "real": real, "sched": o["sched"], "pid": 1, "spec": {}}, P.cpython_oracle(proj, d))
    print("replay:", "still violated: " + ",".join(bad) if bad else "holds now")
    if bad:
        print(f"VIOLATION property=C07 replay={path}")
    ctx.cleanup()
    return 1 if bad else 0
