"""
C10 - generated pages are well-formed and source text can never become markup.

spec -> code : spec/Escape.tla is the escape-level data flow (level 0 = raw source text, 1 = escaped once = what a
               serialised page must hold, 2 = escaped twice) through the stages the code has (DocutilsEncode, ParseXml =
               html2stan, FlattenInner = stanutils.flatten, FlattenToFile, Quote ...), one route per (source kind, zone
               of the page, context).  TLC enumerates every (source kind, sink) pair, walks its route and checks
               NeverParsedRaw / SinkLevelOne.  For every enumerated pair the harness plants a canary payload at that
               source position in a generated project, runs the real pydoctor (driver.main) with the stage functions
               wrapped, parses every written *.html as XML and
                 verdict     : WellFormed, NoLevelZero/SkeletonEqual (element/attribute skeleton equals the skeleton
                               obtained with a harmless placeholder of the same shape), SinkLevelOne (observed level
                               at every occurrence), CanaryAppears
                 conformance : observed (zone, context, level) sinks and observed level-changing stage events equal
                               the spec's for that source kind.
code -> spec : the observations (sinks with their level, stage events) of every run are handed to TLC (Source =
               "file"), which evaluates SinkLevelOne / NeverParsedRaw on the OBSERVED flow and checks that each
               observed step / sink is one of Escape.tla.
"""
from __future__ import annotations

import hashlib
import html
import io
import json
import multiprocessing
import os
import random
import re
import sys
import xml.etree.ElementTree as ET
from pathlib import Path
from typing import Any, Dict, Iterable, List, Optional, Sequence, Set, Tuple
from urllib.parse import quote, unquote

from ..core import Ctx, MachineryError, NCPU, chunks

MARK = "kqzj"
END = "zz"
DOCFORMATS = ["epytext", "restructuredtext", "plaintext", "google", "numpy"]

# ------------------------------------------------------------------------------------- payloads
# no whitespace, colon, parentheses, backslash, braces, @, *, `, _, | : those belong to the markup languages
# (C08/C09), not to HTML.  Every payload starts with MARK and ends with END.
VARIANTS = {
    # well-formed when parsed raw: would silently become elements
    "markup": MARK + "<i/><b>\"'&lt;</b>&#60;&amp;lt;" + END,
    # unbalanced metacharacters, CDATA / comment delimiters
    "delims": MARK + "<&]]>--><!--<![CDATA[\"'>" + END,
    # control characters (html2stan neutralises them), DEL
    "control": MARK + "\x01\x08\x1b\x7f<&" + END,
    # well-formed markup AND a character XML cannot represent: html2stan raises, the callers fall back
    # (payload class "xmlbreak" of Escape.tla); a fallback that forgets to escape would let the markup through
    "xmlbreak": MARK + "<i/><b>\"'&lt;</b>&#60;\uffff" + END,
    # entity look-alikes only: parsed raw they are silently decoded - no element appears, the text just changes
    "entities": MARK + "&lt;i&gt;&amp;lt;" + END,
}
# judged on the pages, not compared with the model: U+00A0 only breaks the routes through docutils (it becomes the
# undefined entity &nbsp;), form feed is a word separator for half of the parsers
UNMODELLED_VARIANTS = {
    "nbsp": MARK + "<i/><b>\"'\xa0</b>&#60;" + END,
    "formfeed": MARK + "<i/><b>\"'\x0c</b>&#60;" + END,
}


# every separator of str.splitlines() (what docutils splits its input with) except "\n"
LINE_SEPARATORS = {"cr": "\r", "vt": "\x0b", "ff": "\x0c", "fs": "\x1c", "gs": "\x1d", "rs": "\x1e", "nel": "\x85",
                   "ls": "\u2028", "ps": "\u2029"}
RAWTAIL = MARK + "raw</i>" + END


def linesep_payload(sep: str) -> str:
    """A text that is ONE string for Python but, for a reST parser, a line followed by a raw directive."""
    return f"{MARK}<x{sep}.. raw:: html{sep}{sep}   <i>{RAWTAIL}"


LINESEP_VARIANTS = {f"linesep-{n}": linesep_payload(c) for n, c in LINE_SEPARATORS.items()}


def payload_class(planted: str, kind: str = "") -> str:
    """Escape.tla's payload class."""
    if kind == "deprecated" and any(c in planted for c in LINE_SEPARATORS.values()):
        return "linesep"        # the text is interpolated into reST source and holds a line separator
    return "xmlbreak" if _ILLEGAL_XML.search(neutral(planted)) else "plain"

_ILLEGAL_XML = re.compile("[^\x09\x0A\x0D\x20-퟿-�\U00010000-\U0010FFFF]")


def placeholder(p: str) -> str:
    """Harmless twin of the same token shape: only the five HTML-special characters are replaced, everything else
    (length, punctuation, control characters, characters that are illegal in XML) stays, so that the twin takes the
    same path through the docstring parsers, the colorizers and the XML-error fallbacks."""
    return "".join("x" if c in "<>&\"'" else c for c in p)


def neutral(p: str) -> str:
    """stanutils.html2stan / repr() write control characters as \\xNN."""
    return "".join(c if not (ord(c) < 32 and c not in "\r\n\t\f") else "\\x%02x" % ord(c) for c in p)


def forms(p: str) -> List[str]:
    """Texts that count as 'the canary appears as text' for payload p."""
    out = [p, neutral(p)]
    rp = neutral(p).replace("\x7f", "\\x7f")
    out += [rp, rp.replace("'", "\\'"), p.replace("'", "\\'"), neutral(p).replace("'", "\\'")]
    out += [_ILLEGAL_XML.sub("", x) for x in list(out)]
    return list(dict.fromkeys(out))


def forms_for(kind: str, p: str) -> List[str]:
    fs = forms(p)
    if kind.startswith(("reexport.", "nested.", "inherit.", "sametext.", "reexportmodule.")):
        fs += [RAWTAIL, placeholder(RAWTAIL)]        # the raw block planted next to the payload
    if RAWTAIL in p or placeholder(RAWTAIL) in p:
        head = p[:len(MARK) + 2]
        fs += forms(head) + [RAWTAIL, placeholder(RAWTAIL)]
    return fs


def nolt(p: str) -> str:
    return p.replace("<", "").replace(">", "")


def fname(p: str) -> str:
    return p.replace("/", "")


# ------------------------------------------------------------------------------------- source kinds
PYVAL_KINDS = ["strconst", "default", "annotation", "decoarg", "baseexpr", "typealias"]
KINDS = (["modname"] + [f"doc.{f}" for f in DOCFORMATS] + [f"field.{f}" for f in DOCFORMATS if f != "plaintext"]
         + ["xref.epytext", "xref.restructuredtext", "doctest.epytext", "doctest.restructuredtext"]
         + PYVAL_KINDS + ["deprecated"] + [f"imagealt.{e}" for e in ("png", "pdf", "PNG", "svg", "SVG", "webm")] + ["imageuri.svg"]
         + ["reexport.plaintext", "nested.plaintext.appfirst", "nested.plaintext.pkgfirst", "inherit.plaintext.before", "inherit.plaintext.after",
            "heading.epytext", "sametext.rstfirst", "sametext.plainfirst", "reexportmodule.plaintext"]
         + [f"codeblock.{l}" for l in ("none", "python", "html", "shell")] + ["mathtext", "projname", "projurl"])
# pages on which the canary sits in the author's own raw directive of a reST docstring: exempt from the property
EXEMPT_PAGES = {"sametext.rstfirst": ("zrst.html",), "sametext.plainfirst": ("zrst.html",)}
# docstring kinds of RoleHistory.tla (one function per docstring, in history order)
ROLE_DOCSTRINGS = {
    "rawfail": ".. role:: html(raw)\n   :format: html\n\n.. default-role:: html\n\nDeclares a raw default role, then docutils raises.\n\n"
               ".. csv-table::\n   :escape:\n\n   a,b\n",
    "rawok": ".. role:: html(raw)\n   :format: html\n\n.. default-role:: html\n\nDeclares a raw default role and parses fine.\n",
}


def payload_for(kind: str, p: str) -> str:
    """The payload as planted for this kind (characters the position cannot hold are dropped)."""
    if kind == "modname":
        return fname(p)
    if kind.startswith(("field.", "xref.", "codeblock.", "doctest.")) or kind in ("doc.google", "doc.numpy"):
        # form feed, U+2028 ... are line / word separators for the field and section parsers: the pieces would be
        # parsed as different things (identifier or not) in the canary and in its twin
        p = "".join(c for c in p if not c.isspace())
    if kind.startswith("xref."):
        return nolt(p)              # '<' separates label and target in both markups
    if kind == "deprecated":
        return p + "-"              # never an identifier, twin included: an identifier is resolved as a name instead
    if kind.startswith(("doctest.", "codeblock.")):
        return p.replace("'", "").replace('"', "").replace("#", "")     # python tokens of the doctest colorizer
    return p


def gen(kind: str, p: str) -> Dict[str, Any]:
    """Source files and extra command line arguments planting payload p at the position `kind`."""
    R = repr(p)
    files: Dict[str, str] = {"zpkg/__init__.py": '"""Package doc."""\n'}
    args: List[str] = []
    roots: List[str] = ["zpkg"]
    base, _, fmt = kind.partition(".")
    if fmt:
        args += ["--docformat", fmt]
    if kind == "modname":
        files["zpkg/" + p + ".py"] = ('"""Odd module name."""\nxvar = 1\n"""x doc"""\ndef ffun(): "f doc"\n'
                                      'class Kcls:\n    "first"\nclass Kcls:\n    "second"\n    def meth(self): "m doc"\n')
    elif base == "doc":
        inline = {"epytext": f" Code C{{{p}}} and I{{{p}}} and B{{{p}}}.", "plaintext": ""}.get(fmt, f" Code ``{p}`` and *{p}* and **{p}**.")
        d = f"Word {p} first. More text.\n\nSecond {p} paragraph.{inline}"
        files["zpkg/amod.py"] = _escape_docstring_source(
            f'{_ds(d, 0)}xvar = 2\n{_ds(d, 0)}class Dcls:\n{_ds(d, 4)}'
            f'    def meth(self, a, b):\n{_ds(d, 8)}def ffun():\n{_ds(d, 4)}')
    elif base == "field":
        cls, fn = _field_docs(fmt, p)
        files["zpkg/amod.py"] = _escape_docstring_source(
            f'"""\nModule.\n"""\nclass Dcls:\n{_ds(cls, 4)}    def meth(self, a, b):\n{_ds(fn, 8)}')
    elif base == "xref":
        if fmt == "epytext":
            d = (f"See L{{{p} <zpkg.amod.Dcls>}} and L{{{p} <nonexistent.thing>}} "
                 f"and U{{http://example.org/?q={p}}} and U{{label{p} <http://example.org/?r={p}>}}.")
        else:
            d = (f"See `{p} <zpkg.amod.Dcls>` and `{p} <nonexistent.thing>` and `{p}` "
                 f"and `label{p} <http://example.org/?q={p}>`_.")
        files["zpkg/amod.py"] = _escape_docstring_source(
            f'"""\nModule.\n"""\nclass Dcls:\n{_ds(d, 4)}    def meth(self):\n{_ds(d, 8)}')
    elif base == "doctest":
        d = f"Example.\n\n    >>> print('{p}') # {p}\n    {p}\n"
        if fmt == "restructuredtext":
            d = f"Example.\n\n>>> print('{p}') # {p}\n{p}\n"
        files["zpkg/amod.py"] = _escape_docstring_source(f'"""\nModule.\n"""\ndef ffun():\n{_ds(d, 4)}')
    elif kind in PYVAL_KINDS:
        pre = ('"""Module."""\nimport typing\nfrom typing import Literal\n'
               'def deco(*a, **k): return lambda f: f\nclass Base: "base"\ndef mk(x): return Base\n')
        body = {
            "strconst": f'CONST = {R}\n"""Doc of const."""\nclass Dcls:\n    "doc"\n    CCONST = [{R}, 1]\n    "doc"\n',
            "default": f'class Dcls:\n    "doc"\n    def meth(self, a={R}, *, b=({R}, 2)):\n        "doc"\ndef ffun(a={R}):\n    "doc"\n',
            "annotation": (f'avar: Literal[{R}] = 1\n"""Doc."""\nclass Dcls:\n    "doc"\n    cvar: Literal[{R}] = 1\n    "doc"\n'
                           f'    def meth(self, a: Literal[{R}] = 1) -> Literal[{R}]:\n        "doc"\n'),
            "decoarg": f'class Dcls:\n    "doc"\n    @deco({R}, k={R})\n    def meth(self):\n        "doc"\n@deco({R})\ndef ffun():\n    "doc"\n',
            "baseexpr": f'class Dcls(mk({R})):\n    "doc"\nclass Ecls(typing.Generic[Literal[{R}]]):\n    "doc"\n',
            "typealias": f'Alias: typing.TypeAlias = typing.Dict[str, Literal[{R}]]\n"""Doc of alias."""\nAlias2 = typing.Union[Literal[{R}], int]\n"""Doc."""\n',
        }[kind]
        files["zpkg/amod.py"] = pre + body
    elif kind == "reexport.plaintext":
        # a class, its method and a function written in a `__docformat__ = "plaintext"` module, re-exported by a package
        # documented as restructuredtext; next to the payload a block that IS a raw directive for a reST parser
        args = ["--docformat", "restructuredtext"]
        block = "<i>" + RAWTAIL
        if not any(c in p for c in "<>&\"'"):
            block = placeholder(block)              # the twin
        d = f"Word {p} first. More text.\n\nSecond {p} paragraph.\n\n.. raw:: html\n\n   {block}\n"
        files["zpkg/__init__.py"] = '"""Package doc."""\nfrom ._impl import Moved, movedfun\n__all__ = ["Moved", "movedfun"]\n'
        files["zpkg/_impl.py"] = _escape_docstring_source(
            '"""Impl."""\n__docformat__ = "plaintext"\n' + "class Moved:\n" + _ds(d, 4) + "    def meth(self):\n" + _ds(d, 8)
            + "def movedfun():\n" + _ds(d, 4))
    elif kind == "mathtext":
        # text-mode content of inline math (\\text{...}, \\mbox{...}) in a reST docstring
        args += ["--docformat", "restructuredtext"]
        d = f"Module.\n\nFormula :math:`a \\\\text{{{p}}} b` and :math:`\\\\mbox{{{p}}}` end."
        files["zpkg/amod.py"] = _escape_docstring_source(_ds(d, 0) + "class Dcls:\n" + _ds(d, 4))
    elif base == "imagealt":
        # :alt: text of an image in a reST docstring: attribute of <img>, content of <object> - by image type
        args = ["--docformat", "restructuredtext"]
        d = f"Module.\n\n.. image:: picture.{fmt}\n   :alt: {p}\n\nEnd."
        files["zpkg/amod.py"] = _escape_docstring_source(_ds(d, 0) + "class Dcls:\n" + _ds(d, 4))
    elif kind == "imageuri.svg":
        # no :alt: - the uri itself is what the <object> shows
        args = ["--docformat", "restructuredtext"]
        d = f"Module.\n\n.. image:: {p}.svg\n\nEnd."
        files["zpkg/amod.py"] = _escape_docstring_source(_ds(d, 0) + "class Dcls:\n" + _ds(d, 4))
    elif kind.startswith("rolehist:"):
        # RoleHistory.tla: the docstrings of a history, one function each, in order; `clean` ones carry the payload
        args = ["--docformat", "restructuredtext"]
        src = '"""Module."""\n'
        for n, k in enumerate(kind.split(":", 1)[1].split(","), 1):
            src += f"def f{n}():\n" + _ds(ROLE_DOCSTRINGS.get(k) or f"Text `{p}` end.", 4)
        files["zpkg/amod.py"] = _escape_docstring_source(src)
    elif kind.startswith("sametext."):
        # the SAME docstring text in a restructuredtext module and in a plaintext module, two roots, both orders
        args = ["--docformat", "restructuredtext"]
        block = "<i>" + RAWTAIL
        if not any(c in p for c in "<>&\"'"):
            block = placeholder(block)              # the twin
        d = f"Word {p} first. More text.\n\nSecond {p} paragraph.\n\n.. raw:: html\n\n   {block}\n"
        files = {"zrst.py": _escape_docstring_source('"""reST module."""\ndef fun():\n' + _ds(d, 4)),
                 "zplain.py": _escape_docstring_source('__docformat__ = "plaintext"\ndef fun():\n' + _ds(d, 4))}
        roots = ["zrst.py", "zplain.py"] if kind.endswith("rstfirst") else ["zplain.py", "zrst.py"]
    elif kind == "reexportmodule.plaintext":
        # zapkg (plaintext) holds module m; zbpkg (restructuredtext) re-exports the MODULE through __all__
        args = ["--docformat", "restructuredtext"]
        block = "<i>" + RAWTAIL
        if not any(c in p for c in "<>&\"'"):
            block = placeholder(block)              # the twin
        d = f"Word {p} first. More text.\n\nSecond {p} paragraph.\n\n.. raw:: html\n\n   {block}\n"
        files = {"zapkg/__init__.py": '"""Package a, plain text."""\n__docformat__ = "plaintext"\n',
                 "zapkg/m.py": _escape_docstring_source('"""Module m."""\ndef fun():\n' + _ds(d, 4)),
                 "zbpkg/__init__.py": '"""Package b."""\nfrom zapkg import m\n__all__ = ["m"]\n'}
        roots = ["zapkg", "zbpkg"]
    elif base == "codeblock":
        # a code block of a reST docstring, by language
        args = ["--docformat", "restructuredtext"]
        directive = {"none": ".. code::", "python": ".. code-block:: python", "html": ".. code:: html", "shell": ".. code-block:: shell"}[fmt]
        d = f"Example.\n\n{directive}\n\n    {p} text\n    more {p}\n\nEnd."
        files["zpkg/amod.py"] = _escape_docstring_source('"""Module."""\ndef ffun():\n' + _ds(d, 4))
    elif kind.startswith("inherit.plaintext."):
        args = ["--docformat", "restructuredtext"]
        block = "<i>" + RAWTAIL
        if not any(c in p for c in "<>&\"'"):
            block = placeholder(block)              # the twin
        d = f"Word {p} first. More text.\n\nSecond {p} paragraph.\n\n.. raw:: html\n\n   {block}\n"
        files["zpkg/base.py"] = '"""Base module, reStructuredText."""\nclass Base:\n    "Base."\n    def meth(self):\n        "Inherited *docstring* of meth."\n'
        cls = "from zpkg.base import Base\nclass Child(Base):\n    def meth(self):\n        pass\n"
        fun = "def fun():\n" + _ds(d, 4)
        files["zpkg/plain.py"] = _escape_docstring_source('__docformat__ = "plaintext"\n' + (cls + fun if kind.endswith("before") else
                                                                                           "from zpkg.base import Base\n" + fun + cls.split("\n", 1)[1]))
    elif kind == "heading.epytext":
        head = f"R\u00e9sum\u00e9 {p}"
        d = f"Module.\n\n{head}\n{'=' * len(head)}\nSection text.\n"
        files["zpkg/amod.py"] = _escape_docstring_source(_ds(d, 0) + "class Dcls:\n" + _ds(d, 4))
    elif kind.startswith("nested.plaintext."):
        # zpkg/sub/mod.py two packages deep, `__docformat__ = "plaintext"` in the OUTER __init__; a root module imports from it
        args = ["--docformat", "restructuredtext"]
        block = "<i>" + RAWTAIL
        if not any(c in p for c in "<>&\"'"):
            block = placeholder(block)              # the twin
        d = f"Word {p} first. More text.\n\nSecond {p} paragraph.\n\n.. raw:: html\n\n   {block}\n"
        files["zpkg/__init__.py"] = '"""Package doc."""\n__docformat__ = "plaintext"\n'
        files["zpkg/sub/__init__.py"] = '"""Sub package doc."""\n'
        files["zpkg/sub/mod.py"] = _escape_docstring_source(
            _ds(d, 0) + "class Thing:\n" + _ds(d, 4) + "    @property\n    def prop(self):\n" + _ds(d, 8)
            + "    def meth(self):\n" + _ds(d, 8) + "def fun():\n" + _ds(d, 4))
        files["zapp.py"] = '"""App."""\nfrom zpkg.sub.mod import Thing\nclass Sub(Thing):\n    "sub"\n'
        roots = ["zapp.py", "zpkg"] if kind.endswith("appfirst") else ["zpkg", "zapp.py"]
    elif kind == "deprecated":
        # extensions/deprecate.py interpolates the replacement= string into reST source
        files["zpkg/amod.py"] = ('"""Module."""\nfrom twisted.python.deprecate import deprecated\nfrom incremental import Version\n'
                                 f'@deprecated(Version("Twisted", 16, 0, 0), replacement={R})\ndef ffun():\n    "doc"\n'
                                 f'class Dcls:\n    "doc"\n    @deprecated(Version("Twisted", 16, 0, 0), {R})\n    def meth(self):\n        "doc"\n')
    elif kind == "projname":
        files["zpkg/amod.py"] = '"""Module."""\nclass Dcls:\n    "doc"\n'
        args += ["--project-name", p]
    elif kind == "projurl":
        files["zpkg/amod.py"] = '"""Module."""\nclass Dcls:\n    "doc"\n'
        args += ["--project-name", "Proj", "--project-url", "http://example.org/?q=" + p]
    else:
        raise MachineryError(f"unknown source kind {kind}")
    return {"files": files, "args": args, "roots": roots}


def _escape_docstring_source(src: str) -> str:
    """The docstring VALUE must hold the payload: write backslash-free control characters as escapes."""
    def esc(c: str) -> str:
        o = ord(c)
        if c in "\n\t" or 32 <= o < 127:
            return c
        return "\\x%02x" % o if o < 256 else ("\\u%04x" % o if o < 65536 else "\\U%08x" % o)
    return "".join(esc(c) for c in src)


def _ds(text: str, indent: int) -> str:
    """A docstring statement holding `text`, every line indented like the statement."""
    pad = " " * indent
    body = "\n".join((pad + l) if l.strip() else "" for l in text.split("\n")).replace('"', '\\"')
    return f'{pad}"""\n{body}\n{pad}"""\n'


def _field_docs(fmt: str, p: str) -> Tuple[str, str]:
    if fmt == "epytext":
        cls = f"Class doc.\n@ivar {p}: ivar doc\n@ivar yvar: y doc {p}\n@note: note {p}"
        fn = (f"Meth doc.\n@param a: desc {p}\n@type a: {p}\n@param {p}: nonexisting\n"
              f"@raise {p}: whatever {p}\n@see: {p}\n@return: x {p}\n@rtype: {p}")
    elif fmt == "restructuredtext":
        cls = f"Class doc.\n\n:ivar {p}: ivar doc\n:ivar yvar: y doc {p}\n:note: note {p}"
        fn = (f"Meth doc.\n\n:param a: desc {p}\n:type a: {p}\n:param {p}: nonexisting\n"
              f":raises {p}: whatever {p}\n:see: {p}\n:return: x {p}\n:rtype: {p}")
    elif fmt == "google":
        cls = f"Class doc.\n\nAttributes:\n    {p}: ivar doc\n    yvar: y doc {p}\n\nNote:\n    note {p}"
        fn = (f"Meth doc.\n\nArgs:\n    a (int): desc {p}\n    {p}: nonexisting\n\n"
              f"Raises:\n    {p}: whatever {p}\n\nReturns:\n    int: x {p}")
    else:
        cls = (f"Class doc.\n\nAttributes\n----------\n{p}\n    ivar doc\nyvar\n    y doc {p}\n\n"
               f"Notes\n-----\nnote {p}")
        fn = (f"Meth doc.\n\nParameters\n----------\na : int\n    desc {p}\n{p}\n    nonexisting\n\n"
              f"Raises\n------\n{p}\n    whatever {p}\n\nReturns\n-------\nint\n    x {p}")
    return cls, fn


# ------------------------------------------------------------------------------------- levels
def unesc(s: str, k: int) -> str:
    for _ in range(k):
        s = html.unescape(s)
    return s


_TAG = re.compile(r"<[^<>]*>")


NOT_INTACT = -9


def levels_in(s: str, fs: Sequence[str], base: int = 0, url: bool = False, markup: bool = False) -> List[int]:
    """Escape level of every occurrence of the marker in s (NOT_INTACT = the canary is not intact there; base - 1 = the
    text is one level BELOW: its entity look-alikes have been decoded, escaping it once gives the canary back).
    A canary cut off by the end of s (summaries stop at '!') still has a level.  markup=True: s is an HTML string,
    inline tags put around pieces of the text by colorizers are looked through."""
    out = []
    w = max(len(f) for f in fs) * 12 + 16
    i = s.find(MARK)
    while i != -1:
        win = s[i:i + w]
        at_end = i + w >= len(s)
        lv = NOT_INTACT
        for k in range(0, 4):
            u = unesc(win, k)
            if any(u.startswith(f) for f in fs) or (url and any(unquote(u).startswith(f) for f in fs)):
                lv = base + k
                break
            if at_end and len(u) > len(MARK) and any(f.startswith(u.rstrip()) for f in fs):
                lv = base + k
                break
        if lv == NOT_INTACT and any(html.escape(win, quote=False).startswith(f) and "&" in f for f in fs):
            lv = base - 1
        out.append(lv)
        i = s.find(MARK, i + len(MARK))
    if markup and NOT_INTACT in out:
        alt = levels_in(_TAG.sub("", s), fs, base, url)
        if alt and NOT_INTACT not in alt:
            return alt
    return out


def stan_strings(stan: Any, depth: int = 0) -> Iterable[str]:
    from twisted.web.template import Tag
    if depth > 200:
        return
    if isinstance(stan, str):
        yield stan
    elif isinstance(stan, bytes):
        yield stan.decode("utf8", "replace")
    elif isinstance(stan, Tag):
        for v in stan.attributes.values():
            yield from stan_strings(v, depth + 1)
        yield from _joined(stan.children, depth)
    elif isinstance(stan, (list, tuple)):
        yield from _joined(stan, depth)


def _joined(children: Iterable[Any], depth: int) -> Iterable[str]:
    """The SAX loader delivers one text in several chunks: adjacent strings are one text."""
    acc = ""
    for c in children:
        if isinstance(c, str):
            acc += c
            continue
        if acc:
            yield acc
            acc = ""
        yield from stan_strings(c, depth + 1)
    if acc:
        yield acc


def stan_levels(stan: Any, fs: Sequence[str]) -> List[int]:
    out: List[int] = []
    strs = list(stan_strings(stan))
    for s in strs:
        if MARK in s:
            out += levels_in(s, fs)
    if NOT_INTACT in out:       # one text spread over several inline tags
        alt = levels_in("".join(strs), fs)
        if alt and NOT_INTACT not in alt:
            return alt
    return out


# ------------------------------------------------------------------------------------- zones
def zone_of(page: str, chain: List[Tuple[str, str, str]]) -> str:
    """Zone of the page an occurrence lies in, from its ancestor chain [(tag, classes, id)] (outermost first)."""
    tags = [t for t, _, _ in chain]
    classes = [set(c.split()) for _, c, _ in chain]
    has = lambda cl: any(cl in c for c in classes)
    if "title" in tags and "head" in tags:
        return "title"
    if "head" in tags:
        return "head"
    if has("mainnavbar"):
        return "navbar"
    if "footer" in tags:
        return "footer"
    if has("sidebarcontainer") or has("sidebar"):
        return "sidebar"
    if has("function-signature"):
        return "signature"
    if has("class-signature"):
        return "classsig"
    if has("constant-value") or has("valueTable"):
        return "constvalue"
    if has("fieldTable"):
        return "fieldtable"
    if has("functionHeader"):
        return "funcheader"
    if has("functionBody") or has("moduleDocstring") or has("docstring"):
        return "docstring"
    if has("children"):
        return "childtable"
    if has("extrasDocstring"):
        return "extras"
    if has("page-header") or "h1" in tags:
        return "heading"
    if page == "all-documents.html":
        return "alldocs"
    if page in ("moduleIndex.html", "classIndex.html", "nameIndex.html", "undoccedSummary.html"):
        return "summarypage"
    if has("basefunction") or has("basemethod") or has("baseclassmethod") or has("basestaticmethod") \
            or has("baseattribute") or has("basevariable") or has("baseinstancevariable") or has("baseclassvariable") \
            or has("baseconstant") or has("baseproperty") or has("basetypealias") or has("basetypevariable"):
        return "childanchor"
    return "other"


def text_runs(e: ET.Element) -> List[str]:
    """Direct text of e; <wbr> children (epydoc2stan.insert_break_points) do not interrupt a text."""
    runs, cur = [], e.text or ""
    for c in e:
        if c.tag == "wbr" and len(c) == 0 and not (c.text or "").strip():
            cur += c.tail or ""
        else:
            runs.append(cur)
            cur = c.tail or ""
    runs.append(cur)
    return runs


def skeleton(root: ET.Element) -> str:
    h = hashlib.sha1()
    n = 0

    def walk(e: ET.Element, d: int) -> None:
        nonlocal n
        if _transparent(e):
            for c in e:
                walk(c, d)
            return
        n += 1
        h.update(f"{d}:{e.tag}:{','.join(sorted(e.attrib))}:{e.get('class', '')}\n".encode())
        for c in e:
            walk(c, d + 1)
    walk(root, 0)
    return f"{n}:{h.hexdigest()[:16]}"


def _transparent(e: ET.Element) -> bool:
    """Presentation chosen from the characters of a text, not markup made from them: docutils visit_literal wraps
    the words of a literal that contain punctuation in <span class="pre"> to keep them on one line."""
    if e.tag == "wbr" and not e.attrib and len(e) == 0:
        return True     # break opportunities placed by epydoc2stan.insert_break_points from the case of the letters
    return e.tag == "span" and e.get("class") == "pre" and len(e.attrib) == 1


def skeleton_list(root: ET.Element) -> List[str]:
    out: List[str] = []

    def walk(e: ET.Element, d: int) -> None:
        if _transparent(e):
            for c in e:
                walk(c, d)
            return
        out.append(f"{'.' * min(d, 30)}{e.tag}[{','.join(sorted(e.attrib))}]{{{e.get('class', '')}}}")
        for c in e:
            walk(c, d + 1)
    walk(root, 0)
    return out


def crawl(out: Path, fs: Sequence[str], want_skeleton_list: bool = False) -> Dict[str, Any]:
    """Parse every *.html as XML; occurrences of the marker with zone / context / level; skeleton per page."""
    pages: Dict[str, Any] = {}
    occ: List[Dict[str, Any]] = []
    malformed: List[Dict[str, str]] = []
    for f in sorted(out.glob("*.html")):
        raw = f.read_bytes()
        try:
            text = raw.decode("utf8")
        except UnicodeDecodeError as e:
            malformed.append({"page": f.name, "error": f"not utf-8: {e}"})
            continue
        text = _ILLEGAL_XML.sub("", text)
        try:
            root = ET.fromstring(text.encode("utf8"))
        except ET.ParseError as e:
            line = text.splitlines()[e.position[0] - 1] if e.position[0] - 1 < len(text.splitlines()) else ""
            malformed.append({"page": f.name, "error": str(e), "near": line[max(0, e.position[1] - 80):e.position[1] + 80]})
            continue
        pages[f.name] = skeleton_list(root) if want_skeleton_list else skeleton(root)

        def walk(e: ET.Element, chain: List[Tuple[str, str, str]], elems: List[ET.Element] = []) -> None:
            elems = elems + [e]
            here = chain + [(e.tag, e.get("class", ""), e.get("id", "") if MARK not in e.get("id", "") else "")]
            for k, v in e.attrib.items():
                if MARK in v or MARK in unquote(v):
                    isurl = k in ("href", "src", "action")
                    src = v if MARK in v else unquote(v)
                    for lv in levels_in(v if MARK in v else src, fs, base=1, url=isurl):
                        quoted = MARK in v and isurl and not any(f in v for f in fs) and any(f in unquote(v) for f in fs)
                        occ.append({"page": f.name, "zone": zone_of(f.name, here), "ctx": "url" if isurl else "attr",
                                    "attr": k, "level": lv, "quoted": bool(quoted or MARK not in v),
                                    "sample": v[:120], "path": "/".join(t + ("." + c.replace(" ", ".") if c else "") for t, c, _ in here[-3:])})
            for t in text_runs(e):
                if t and MARK in t:
                    lvs = levels_in(t, fs, base=1)
                    q = False
                    if NOT_INTACT in lvs and all(x == 1 for x in levels_in(t, fs, base=1, url=True)):
                        lvs, q = [1] * len(lvs), True          # a URL shown as text (all-documents.html div.url)
                    if NOT_INTACT in lvs:
                        # the text may be spread over inline elements (colorizers): look at the enclosing blocks
                        for anc in reversed(elems[-3:]):
                            joined = levels_in("".join(anc.itertext()), fs, base=1)
                            if joined and all(x == 1 for x in joined):
                                lvs = [1] * len(lvs)
                                break
                    for lv in lvs:
                        occ.append({"page": f.name, "zone": zone_of(f.name, here), "ctx": "text", "attr": "", "level": lv,
                                    "quoted": q, "sample": t[max(0, t.find(MARK) - 10):t.find(MARK) + 110],
                                    "path": "/".join(t2 + ("." + c.replace(" ", ".") if c else "") for t2, c, _ in here[-3:])})
            for c in e:
                walk(c, here, elems)
        walk(root, [], [])
    return {"pages": pages, "occ": occ, "malformed": malformed}


# ------------------------------------------------------------------------------------- real run
def run_pydoctor(job: Dict[str, Any]) -> Dict[str, Any]:
    """Runs in a forked worker: generate the project, run driver.main with the stage functions wrapped, crawl."""
    import contextlib
    import shutil
    base = Path(job["dir"])
    if base.exists():
        shutil.rmtree(base)
    src = base / "src"
    p = job["payload"]
    fs = forms_for(job["kind"], p)
    g = gen(job["kind"], p)
    for rel, content in g["files"].items():
        fp = src / rel
        fp.parent.mkdir(parents=True, exist_ok=True)
        fp.write_text(content, encoding="utf8")
    import ast
    planted_ok = job["kind"] in ("modname", "projname", "projurl")
    for rel, content in g["files"].items():
        try:
            tree = ast.parse(content)
        except (SyntaxError, ValueError) as e:
            return {"generator_error": f"{job['kind']}/{job['variant']}: {rel}: {e}", "kind": job["kind"], "variant": job["variant"],
                    "payload": p, "role": job["role"], "rc": "generator", "err": str(e), "pages": {}, "occ": [], "malformed": [], "events": [], "log": ""}
        planted_ok = planted_ok or any(isinstance(n, ast.Constant) and isinstance(n.value, str) and p in n.value for n in ast.walk(tree))
    if not planted_ok:
        return {"generator_error": f"{job['kind']}/{job['variant']}: payload {p!r} is not in the generated source", "kind": job["kind"],
                "variant": job["variant"], "payload": p, "role": job["role"], "rc": "generator", "err": "", "pages": {}, "occ": [],
                "malformed": [], "events": [], "log": ""}
    events: List[List[Any]] = []
    undo = instrument(events, fs)
    out = base / "out"
    buf = io.StringIO()
    rc: Any = None
    err = ""
    cwd = os.getcwd()
    try:
        os.chdir(src)
        with contextlib.redirect_stdout(buf), contextlib.redirect_stderr(buf):
            from pydoctor import driver
            try:
                rc = driver.main(["--html-output", str(out), "--quiet"] + g["args"] + g["roots"])
            except SystemExit as e:
                rc = f"SystemExit({e.code})"
            except BaseException as e:               # a run that aborts is C01's business; reported as machinery here
                rc = "exception"
                err = f"{type(e).__name__}: {e}"
    finally:
        os.chdir(cwd)
        undo()
    res = crawl(out, fs, want_skeleton_list=job.get("skeleton_list", False)) if out.exists() else {"pages": {}, "occ": [], "malformed": []}
    res.update({"kind": job["kind"], "variant": job["variant"], "payload": p, "role": job["role"], "rc": rc, "err": err,
                "events": sorted({tuple(e) for e in events}), "log": buf.getvalue()[-1500:]})
    if not job.get("keep"):
        shutil.rmtree(base, ignore_errors=True)
    return res


def instrument(events: List[List[Any]], fs: Sequence[str]):
    """Wrap the level-changing stages; record (stage, level in, level out) for strings that carry the marker."""
    import pydoctor.stanutils as su
    import pydoctor.node2stan as n2s
    import pydoctor.templatewriter.pages as pages_mod
    orig_h2s, orig_fl = su.html2stan, su.flatten
    patched: List[Tuple[Any, str, Any]] = []

    def rec(stage: str, lin: List[int], lout: List[int]) -> None:
        if lin and len(lin) == len(lout):       # the occurrences keep their order through a stage: pair them
            for a, b in sorted(set(zip(lin, lout))):
                events.append([stage, a, b])
            return
        for a in (sorted(set(lin)) or [-2]):
            for b in (sorted(set(lout)) or [-2]):
                events.append([stage, a, b])

    def h2s(htmltext):  # type: ignore[no-untyped-def]
        s = htmltext.decode("utf8", "replace") if isinstance(htmltext, bytes) else htmltext
        if MARK not in s:
            return orig_h2s(htmltext)
        lin = levels_in(s, fs, markup=True)
        try:
            r = orig_h2s(htmltext)
        except Exception:
            rec("ParseXml", lin, [-3])
            raise
        rec("ParseXml", lin, stan_levels(r, fs))
        return r

    def fl(stan):  # type: ignore[no-untyped-def]
        r = orig_fl(stan)
        if MARK in r:
            rec("FlattenInner", stan_levels(stan, fs), levels_in(r, fs, markup=True))
        return r

    for m in list(sys.modules.values()):
        if m is None or not getattr(m, "__name__", "").startswith("pydoctor"):
            continue
        for nm, orig, new in (("html2stan", orig_h2s, h2s), ("flatten", orig_fl, fl)):
            if getattr(m, nm, None) is orig:
                setattr(m, nm, new)
                patched.append((m, nm, orig))
    T = n2s.HTMLTranslator
    had = {nm: T.__dict__.get(nm) for nm in ("encode", "attval")}
    sup_encode, sup_attval = T.encode, T.attval

    def encode(self, text):  # type: ignore[no-untyped-def]
        r = sup_encode(self, text)
        if MARK in str(text):
            rec("DocutilsEncode", levels_in(str(text), fs), levels_in(r, fs))
        return r

    def attval(self, text, *a, **k):  # type: ignore[no-untyped-def]
        r = sup_attval(self, text, *a, **k)
        if MARK in str(text):
            rec("DocutilsEncode", levels_in(str(text), fs), levels_in(r, fs))
        return r
    T.encode, T.attval = encode, attval

    def undo() -> None:
        for m, nm, orig in patched:
            setattr(m, nm, orig)
        for nm, v in had.items():
            if v is None:
                try:
                    delattr(T, nm)
                except AttributeError:
                    pass
            else:
                setattr(T, nm, v)
    return undo


# ------------------------------------------------------------------------------------- histories (PageHistory.tla)
_LONG = "\n".join(f"Paragraph {i}: this sentence is only here to make the page longer than it will be later.\n" for i in range(30))
HISTORY_VERSIONS = {
    "long": {"hpkg/__init__.py": _ds("The package, long version.\n\n" + _LONG, 0),
             "hpkg/mod.py": (_ds("A module with a lot of text.\n\n" + _LONG, 0)
                             + "class Worker:\n" + _ds("A class with a lot of text.\n\n" + _LONG, 4)
                             + "    def run(self, times=1):\n" + _ds("Run.\n\n" + _LONG, 8)
                             + "    def stop(self):\n" + _ds("Stop.\n\n" + _LONG, 8)
                             + "class Extra:\n" + _ds("Only in the long version.\n\n" + _LONG, 4)
                             + "def helper_one():\n" + _ds("h1", 4) + "def helper_two():\n" + _ds("h2", 4)
                             + "class Secret:\n" + _ds("Hidden by a privacy rule.\n\n" + _LONG, 4)
                             + "    class Inner:\n" + _ds("Below a hidden class.\n\n" + _LONG, 8)),
             "hpkg/hid.py": _ds("A module hidden by a privacy rule.\n\n" + _LONG, 0) + "class InHidden:\n" + _ds("x", 4)},
    "short": {"hpkg/__init__.py": _ds("The package.", 0),
              "hpkg/mod.py": (_ds("A module.", 0) + "class Worker:\n" + _ds("A class.", 4)
                              + "    def run(self, times=1):\n" + _ds("Run.", 8)
                              + "class Secret:\n" + _ds("Hidden.", 4) + "    class Inner:\n" + _ds("Below.", 8)),
              "hpkg/hid.py": _ds("Hidden module.", 0) + "class InHidden:\n" + _ds("x", 4)},
}
# PageHistory.tla's page numbers
HISTORY_PAGES = {1: "index.html", 2: "hpkg.mod.html", 3: "hpkg.mod.Worker.html", 4: "hpkg.mod.Extra.html", 5: "nameIndex.html",
                 6: "hpkg.hid.html", 7: "hpkg.mod.Secret.html", 8: "hpkg.mod.Secret.Inner.html"}
HISTORY_HIDDEN = (6, 7, 8)
HISTORY_ARGS = ["--privacy=HIDDEN:hpkg.hid", "--privacy=HIDDEN:hpkg.mod.Secret"]


def run_history(job: Dict[str, Any]) -> Dict[str, Any]:
    """Runs in a forked worker: Run(v1, out) ; Run(v2, out) ; ... with the real driver.main, then looks at every page."""
    import contextlib
    import shutil
    base = Path(job["dir"])
    if base.exists():
        shutil.rmtree(base)
    out = base / "out"
    rcs: List[Any] = []
    buf = io.StringIO()
    cwd = os.getcwd()
    old_epoch = os.environ.get("SOURCE_DATE_EPOCH")
    os.environ["SOURCE_DATE_EPOCH"] = "1000000000"
    try:
        for n, v in enumerate(job["hist"]):
            src = base / f"src{n}"
            for rel, content in HISTORY_VERSIONS[v].items():
                fp = src / rel
                fp.parent.mkdir(parents=True, exist_ok=True)
                fp.write_text(content, encoding="utf8")
            os.chdir(src)
            with contextlib.redirect_stdout(buf), contextlib.redirect_stderr(buf):
                from pydoctor import driver
                from pydoctor.templatewriter.pages.table import ChildTable
                # the runs of a history are separate pydoctor invocations: the process-wide counter behind the
                # id="idN" of the member tables starts at 0 in each (its leak between runs of one process is C18's)
                ChildTable.last_id = 0
                try:
                    rcs.append(driver.main(["--html-output", str(out), "--quiet", "--project-name", "Hist"] + HISTORY_ARGS + ["hpkg"]))
                except SystemExit as e:
                    rcs.append(f"SystemExit({e.code})")
                except BaseException as e:
                    rcs.append(f"exception {type(e).__name__}: {e}")
            os.chdir(cwd)
    finally:
        os.chdir(cwd)
        if old_epoch is None:
            os.environ.pop("SOURCE_DATE_EPOCH", None)
        else:
            os.environ["SOURCE_DATE_EPOCH"] = old_epoch
    pages: Dict[str, Any] = {}
    if out.exists():
        for f in sorted(out.glob("*.html")):
            raw = f.read_bytes()
            info: Dict[str, Any] = {"size": len(raw), "sha": hashlib.sha256(raw).hexdigest(), "wellformed": True}
            try:
                ET.fromstring(_ILLEGAL_XML.sub("", raw.decode("utf8")).encode("utf8"))
            except (ET.ParseError, UnicodeDecodeError) as e:
                info.update({"wellformed": False, "error": str(e), "tail": raw[-160:].decode("utf8", "replace")})
            pages[f.name] = info
    shutil.rmtree(base, ignore_errors=True)
    return {"hist": job["hist"], "rcs": rcs, "pages": pages, "log": buf.getvalue()[-800:]}


CFG_HISTORY = """SPECIFICATION Spec
CONSTANTS MaxRuns = {maxruns}
          WriteMode = "{mode}"
CONSTRAINT Emit
INVARIANT WholePages
INVARIANT LastRunFresh
"""


def check_histories(ctx: Ctx, pool: Any) -> None:
    """spec -> code for PageHistory.tla: every history TLC prints is built for real into one output directory."""
    r = ctx.tlc("PageHistory", CFG_HISTORY.format(maxruns=2 if ctx.quick else 3, mode="truncate"), workers=1, check=True, timeout=300)
    if r.violated or not r.printed:
        raise MachineryError(f"PageHistory.tla: {r.violated or 'no history printed'}")
    recs = r.printed
    jobs = [{"dir": str(ctx.scratch / ("hist_" + "_".join(x["hist"]))), "hist": x["hist"]} for x in recs]
    results = pool.map(run_history, jobs, chunksize=1)
    fresh = {tuple(x["hist"])[0]: x for x in results if len(x["hist"]) == 1}
    for v, x in fresh.items():
        if any(rc != 0 for rc in x["rcs"]) or not all(HISTORY_PAGES[p] in x["pages"] for p in HISTORY_PAGES if p not in HISTORY_HIDDEN and (p != 4 or v == "long")):
            raise MachineryError(f"fresh build of history version {v} failed: {x['rcs']} {x['log'][-300:]}")
    for p, name in HISTORY_PAGES.items():          # the relation between the sizes the spec assumes
        if p != 4 and p not in HISTORY_HIDDEN and not fresh["long"]["pages"][name]["size"] > fresh["short"]["pages"][name]["size"]:
            raise MachineryError(f"history versions: {name} is not longer in the long version")
    drift = 0
    for rec, x in zip(recs, results):
        ctx.traces += 1
        hist = x["hist"]
        if any(rc != 0 for rc in x["rcs"]):
            raise MachineryError(f"history {hist}: pydoctor failed {x['rcs']} {x['log'][-300:]}")
        for name, info in x["pages"].items():
            if not info["wellformed"]:
                ctx.violation({"invariant": "WellFormed", "origin": "history", "history": hist, "page": name,
                               "observed": {k: info[k] for k in ("error", "tail", "size")},
                               "fresh_size": fresh[hist[-1]]["pages"].get(name, {}).get("size"),
                               "key": f"WellFormed:history:{'>'.join(hist)}"})
        bad = {}
        for p, name in HISTORY_PAGES.items():
            seg = rec["pages"][p - 1]["segments"]
            info = x["pages"].get(name)
            if not seg:
                if info is not None:
                    bad[name] = {"model": "no such file", "real": "present"}
            elif info is None:
                bad[name] = {"model": seg, "real": "missing"}
            elif len(seg) == 1 and info["sha"] != fresh[seg[0]["v"]]["pages"][name]["sha"]:
                bad[name] = {"model": f"the page of a fresh build of version {seg[0]['v']}", "real_size": info["size"],
                             "fresh_size": fresh[seg[0]["v"]]["pages"][name]["size"]}
        for name, info in x["pages"].items():       # every page the last run writes, modelled or not
            f = fresh[hist[-1]]["pages"].get(name)
            if f is not None and f["sha"] != info["sha"] and name not in bad:
                bad[name] = {"model": "equal to a fresh build of the last version", "real_size": info["size"], "fresh_size": f["size"]}
        if bad:
            drift += 1
            ctx.drift_note({"origin": "history", "history": hist, "mismatch": bad})
    ctx.sample({"origin": "history", "history": results[-1]["hist"], "pages": {k: v["size"] for k, v in results[-1]["pages"].items()}})
    # model-level negative control: without truncation TLC must find the half-overwritten page
    r2 = ctx.tlc("PageHistory", CFG_HISTORY.format(maxruns=2, mode="overwrite"), workers=1, timeout=300, count=False)
    if "WholePages" not in r2.violated:
        raise MachineryError("negative control: PageHistory.tla with WriteMode=overwrite does not violate WholePages")
    ctx.extra["histories"] = {"enumerated": len(recs), "model_mismatches": drift, "max_runs": 2 if ctx.quick else 3,
                              "negative_control_overwrite_violates": r2.violated}


def make_pool(n: int):
    import pydoctor.driver  # noqa: F401  (imported before the fork so the workers start warm)
    return multiprocessing.get_context("fork").Pool(n, maxtasksperchild=40)


# ------------------------------------------------------------------------------------- judging
CFG_ENUM = """SPECIFICATION Spec
CONSTANTS Source = "enum"
CONSTRAINT EmitEnum
INVARIANT {raw}
INVARIANT {sink}
INVARIANT WellTyped
INVARIANT SameAsWalk
"""
CFG_ROLEHIST = """SPECIFICATION Spec
CONSTANTS MaxLen = {maxlen}
          Cleanup = "{cleanup}"
CONSTRAINT Emit
INVARIANT StartsStandard
"""
CFG_FILE = """SPECIFICATION Spec
CONSTANTS Source = "file"
CONSTRAINT EmitFile
"""
KF_MATH = "math-text-mode-copied-raw"
# payloads compared with the model for `mathtext` (copied raw, markup turns into elements or XML errors)
MODELLED_MATHTEXT = ("entities", "xmlbreak")


def kf_math_text_raw(w: Dict[str, Any]) -> bool:
    """Known finding: docutils math2html copies the text-mode content of a formula (\\text{...}, \\mbox{...}) unescaped
    into the HTML, node2stan does not override visit_math.  Matches ONLY violations of the source kind `mathtext` with
    html2stan observed on level-0 text, or raising for the canary only."""
    if w.get("kind") != "mathtext" or w.get("invariant") not in ("SkeletonEqual", "SinkLevelOne", "SinkLevelOne(TLC)", "CanaryAppears"):
        return False
    if any(e[0] == "ParseXml" and (e[1] == 0 or e[2] == -3) for e in w.get("events", [])):
        return True
    # the canary was rewritten by the formula parser (no level): the new elements sit in the text-mode span
    where = w.get("where") or {}
    return w.get("invariant") == "SkeletonEqual" and any("{text}" in x or "{mbox}" in x for x in where.get("with_canary", []))


MODELLED_LINESEP = ("cr", "fs", "gs", "rs", "nel", "ls", "ps")     # vt / ff additionally make html2stan raise


RANDOM_TOKENS = ["<", ">", "&", "\"", "'", "&lt;", "&amp;", "&#60;", "&#x3c;", "&quot;", "]]>", "-->", "<!--", "<![CDATA[",
                 "<b>", "</b>", "<i/>", "<script>", "</script>", "<a href=\"x\">", "<img src=x onerror=y>", "=", ";", "#",
                 "%3C", "%", "+", "a", "q", "7", "\x01", "\x1b", "\x7f", "\u00e9", "\u2028", "\ufffe", "\x0c"]


def random_payload(rng: random.Random) -> str:
    return MARK + "".join(rng.choice(RANDOM_TOKENS) for _ in range(rng.randint(3, 7))) + END


def page_key(name: str, kind: str, planted: str) -> str:
    if kind == "modname":
        for form in (quote(planted), quote(planted, safe="")):
            name = name.replace(form, "PAYLOAD")
        name = name.replace(planted, "PAYLOAD")
    return name


def sink_set(res: Dict[str, Any]) -> List[List[Any]]:
    return sorted({(o["zone"], o["ctx"], bool(o["quoted"]), o["level"]) for o in res["occ"]}, key=str)  # type: ignore[return-value]


def judge_pair(canary: Dict[str, Any], plain: Dict[str, Any], strict_appears: bool) -> List[Dict[str, Any]]:
    """Property verdict on the OBSERVED pages of one (kind, payload): list of violated clauses with their witness."""
    bad: List[Dict[str, Any]] = []
    kind = canary["kind"]
    for r in (canary, plain):
        for m in r["malformed"]:
            bad.append({"invariant": "WellFormed", "page": m["page"], "observed": m, "with": r["role"]})
    if plain["malformed"] and not canary["malformed"]:
        return bad
    ck = {page_key(k, kind, canary["payload"]): v for k, v in canary["pages"].items()}
    pk = {page_key(k, kind, plain["payload"]): v for k, v in plain["pages"].items()}
    mal = {page_key(m["page"], kind, canary["payload"]) for m in canary["malformed"]}
    for k in sorted(set(ck) | set(pk)):
        if k in mal or k in EXEMPT_PAGES.get(kind, ()):
            continue
        if ck.get(k) != pk.get(k):
            bad.append({"invariant": "SkeletonEqual", "page": k,
                        "observed": {"with_canary": ck.get(k, "page missing"), "with_placeholder": pk.get(k, "page missing")}})
    two = [o for o in canary["occ"] if o["level"] not in (1, NOT_INTACT)]
    for o in two[:3]:
        bad.append({"invariant": "SinkLevelOne", "page": o["page"], "observed": {k: o[k] for k in ("zone", "ctx", "attr", "level", "sample", "path")}})
    if strict_appears and not any(o["level"] == 1 for o in canary["occ"]):
        bad.append({"invariant": "CanaryAppears", "page": "*", "observed": {"occurrences": len(canary["occ"]),
                                                                           "levels": sorted({o["level"] for o in canary["occ"]})}})
    return bad


def skeleton_diff(job_c: Dict[str, Any], job_p: Dict[str, Any], page: str) -> Dict[str, Any]:
    """Re-run the two projects keeping the element lists, to show where the skeletons part."""
    a = run_pydoctor({**job_c, "skeleton_list": True})
    b = run_pydoctor({**job_p, "skeleton_list": True})
    ka = {page_key(k, a["kind"], a["payload"]): v for k, v in a["pages"].items()}
    kb = {page_key(k, b["kind"], b["payload"]): v for k, v in b["pages"].items()}
    la, lb = ka.get(page), kb.get(page)
    if not isinstance(la, list) or not isinstance(lb, list):
        return {"with_canary": "missing" if la is None else "present", "with_placeholder": "missing" if lb is None else "present"}
    for i, (x, y) in enumerate(zip(la, lb)):
        if x != y:
            return {"first_difference_at_element": i, "with_canary": la[max(0, i - 2):i + 3], "with_placeholder": lb[max(0, i - 2):i + 3]}
    return {"length_with_canary": len(la), "length_with_placeholder": len(lb), "tail": (la if len(la) > len(lb) else lb)[min(len(la), len(lb)):][:4]}


def jobs_for(scratch: Path, kind: str, variant: str, payload: str) -> Tuple[Dict[str, Any], Dict[str, Any]]:
    planted = payload_for(kind, payload)
    tag = hashlib.sha1(f"{kind}|{variant}|{payload}".encode("utf8", "surrogatepass")).hexdigest()[:10]
    c = {"dir": str(scratch / f"run_{tag}_c"), "kind": kind, "variant": variant, "payload": planted, "role": "canary"}
    p = {"dir": str(scratch / f"run_{tag}_p"), "kind": kind, "variant": variant, "payload": placeholder(planted), "role": "placeholder"}
    return c, p


def run(ctx: Ctx) -> int:
    rng = random.Random(ctx.seed)
    # ---- spec -> code: every (kind, sink) pair of Escape.tla
    ctx.register_matcher(KF_MATH, kf_math_text_raw)

    def enumerate_model(count: bool = True):
        rr = ctx.tlc("Escape", CFG_ENUM.format(raw="NeverParsedRawExceptKnown", sink="SinkLevelOneExceptKnown"), workers=4, check=True, coverage=ctx.quick and count, timeout=600, count=count)
        if not rr.printed:
            raise MachineryError("Escape.tla printed no (kind, sink) pair")
        if rr.violated:
            raise MachineryError(f"Escape.tla violates its invariants outside the known findings: {rr.violated}")
        mdl: Dict[Tuple[str, str], Dict[str, Any]] = {}
        for pr in rr.printed:
            m = mdl.setdefault((pr["kind"], pr["cls"]), {"sinks": set(), "steps": set(), "pairs": []})
            if pr["reaches"]:
                m["sinks"].add((pr["zone"], pr["ctx"], bool(pr["quoted"]), pr["final"]))
            m["steps"] |= {tuple(x) for x in pr["steps"]}
            m["pairs"].append(pr)
        return rr, mdl

    r, model = enumerate_model()
    pairs = r.printed
    ctx.exhaustive = True
    unknown = sorted({k for k, _ in model} - set(KINDS) - {"rolehist"})
    if unknown:
        raise MachineryError(f"Escape.tla enumerates source kinds the harness cannot plant: {unknown}")
    kinds = [k for k in KINDS if (k, "plain") in model]
    plan: List[Tuple[str, str, str, bool]] = [(k, v, p, k != "mathtext" or v in MODELLED_MATHTEXT) for k in kinds for v, p in VARIANTS.items()]
    plan += [(k, v, p, False) for k in kinds for v, p in UNMODELLED_VARIANTS.items()]
    if "deprecated" in kinds:
        plan += [("deprecated", f"linesep-{n}", linesep_payload(c), n in MODELLED_LINESEP) for n, c in LINE_SEPARATORS.items()]
        plan += [("deprecated", "backtick-link", MARK + "<x`` `click" + MARK + " <javascript:alert(1)>`_ ``" + END, False)]
    # RoleHistory.tla: histories of reST docstrings in one process; those with a clean docstring are planted
    rh = ctx.tlc("RoleHistory", CFG_ROLEHIST.format(maxlen=2 if ctx.quick else 3, cleanup="always"), workers=1, check=True, timeout=300)
    if rh.violated or not rh.printed:
        raise MachineryError(f"RoleHistory.tla: {rh.violated or 'no history printed'}")
    role_histories = [x for x in rh.printed if "clean" in x["hist"]]
    for x in role_histories:
        if any(r != "std" for r in x["startsUnder"]):
            raise MachineryError(f"RoleHistory.tla lets a docstring start under a raw default role: {x}")
        plan += [("rolehist:" + ",".join(x["hist"]), v, VARIANTS[v], True) for v in ("markup", "entities")]
    rh2 = ctx.tlc("RoleHistory", CFG_ROLEHIST.format(maxlen=2, cleanup="on_success"), workers=1, timeout=300, count=False)
    if "StartsStandard" not in rh2.violated:
        raise MachineryError("negative control: RoleHistory.tla with Cleanup=on_success does not violate StartsStandard")
    ctx.extra["role_histories"] = {"enumerated": len(rh.printed), "planted": len(role_histories),
                                   "negative_control_on_success_violates": rh2.violated}
    for k in kinds:
        for i in range(2 if ctx.quick else 100):
            plan.append((k, f"random{i}", random_payload(rng), False))
    jobs: List[Dict[str, Any]] = []
    for k, v, p, _ in plan:
        jobs += list(jobs_for(ctx.scratch, k, v, p))
    pool = make_pool(max(2, min(NCPU - 2, 12)))
    try:
        results = pool.map(run_pydoctor, jobs, chunksize=1)
    finally:
        pool.close()
        pool.join()
    hist_pool = make_pool(4)
    try:
        check_histories(ctx, hist_pool)
    finally:
        hist_pool.close()
        hist_pool.join()
    gen_errors = [x["generator_error"] for x in results if x.get("generator_error")]
    if gen_errors:
        raise MachineryError(f"generator produced invalid input: {gen_errors[:3]}")
    observed_records: List[Any] = []
    twin: List[Any] = []
    pair_seen: Dict[Tuple[str, str, str, str, bool], Set[int]] = {}
    not_intact = 0
    for i, (k, v, p, modelled) in enumerate(plan):
        can, pla = results[2 * i], results[2 * i + 1]
        ctx.traces += 1
        if pla["rc"] == "exception" or (not pla["pages"] and not pla["malformed"]):
            # does a twin made of letters only complete?  then the payload's characters abort the run
            plain = run_pydoctor({**jobs[2 * i + 1], "payload": "".join(c if c.isalnum() and c.isascii() else "x" for c in pla["payload"])})
            if plain["rc"] == "exception" or not plain["pages"]:
                raise MachineryError(f"pydoctor did not produce pages for the placeholder twin of {k}/{v}: rc={pla['rc']} {pla['err']} {pla['log'][-300:]}")
            ctx.violation({"invariant": "RunCompletes", "kind": k, "variant": v, "payload": pla["payload"], "placeholder": plain["payload"],
                           "observed": {"rc": pla["rc"], "error": pla["err"][:300], "events": pla["events"]},
                           "key": f"RunCompletes:{k}:{v if modelled else 'random'}:twin"})
            if modelled:
                twin.append(None)
                observed_records.append(None)
            continue
        if can["rc"] == "exception" or (not can["pages"] and not can["malformed"]):
            # the twin that differs only in the five HTML-special characters completes, the canary aborts the run
            ctx.violation({"invariant": "RunCompletes", "kind": k, "variant": v, "payload": can["payload"], "placeholder": pla["payload"],
                           "observed": {"rc": can["rc"], "error": can["err"][:300], "events": can["events"]},
                           "key": f"RunCompletes:{k}:{v if modelled else 'random'}"})
            if modelled:
                twin.append(None)
                observed_records.append(None)
            continue
        not_intact += sum(1 for o in can["occ"] if o["level"] == NOT_INTACT)
        cls = payload_class(can["payload"], k)
        for b in judge_pair(can, pla, strict_appears=modelled and bool(model.get((k.split(":")[0], cls), {"sinks": set()})["sinks"])):
            if b["invariant"] == "SkeletonEqual":
                b["where"] = skeleton_diff(jobs[2 * i], jobs[2 * i + 1], b["page"])
            ctx.violation({**b, "kind": k, "variant": v, "payload": can["payload"], "placeholder": pla["payload"],
                           "events": can["events"], "key": f"{b['invariant']}:{k}:{b.get('page', '')[:40] if b['invariant'] != 'SkeletonEqual' else ''}:{v if modelled else 'random'}"})
        sinks = sink_set(can)
        events = [list(e) for e in can["events"]]
        if modelled:
            twin.append("pending")
            # events on pieces of the canary (a slug made of its letters ...) carry no level: not part of the flow
            observed_records.append({"kind": k.split(":")[0], "variant": v if ":" not in k else v + "@" + k.split(":", 1)[1], "cls": cls,
                                     "sinks": [list(x) for x in sinks if x[3] != NOT_INTACT],
                                     "events": [e for e in events if NOT_INTACT not in e[1:]]})
        if i % 11 == 0:
            ctx.sample({"kind": k, "variant": v, "payload": can["payload"], "sinks": sinks[:6], "events": events,
                        "pages": len(can["pages"]), "skeleton_equal": not any(b["invariant"] == "SkeletonEqual" for b in judge_pair(can, pla, False))})
    def conform(mdl: Dict[Tuple[str, str], Dict[str, Any]]) -> List[Any]:
        out: List[Any] = []
        for o in observed_records:
            if o is None:
                out.append(None)
                continue
            m = mdl.get((o["kind"], o["cls"]), {"sinks": set(), "steps": set()})
            obs_s = {tuple(x) for x in o["sinks"]}
            # events on pieces of the canary (a slug made of its letters ...) carry no level
            obs_e = {tuple(e) for e in o["events"] if NOT_INTACT not in e[1:]}
            out.append({"sinks_not_in_model": sorted(obs_s - m["sinks"], key=str), "model_sinks_not_seen": sorted(m["sinks"] - obs_s, key=str),
                        "steps_not_in_model": sorted(obs_e - m["steps"], key=str), "model_steps_not_seen": sorted(m["steps"] - obs_e, key=str)})
        return out

    twin = conform(model)
    strict = ctx.tlc("Escape", CFG_ENUM.format(raw="NeverParsedRaw", sink="SinkLevelOne"), workers=1, timeout=600,
                     count=False, extra=["-continue"])
    ctx.extra["design_level_invariants_violated"] = sorted(set(strict.violated))
    for d, o in zip(twin, observed_records):
        if o is None:
            continue
        if any(d.values()):
            ctx.drift_note({"kind": o["kind"], "variant": o["variant"], "payload_class": o["cls"], **{a: b for a, b in d.items() if b}})
        for s in o["sinks"]:
            pair_seen.setdefault((o["kind"], o["cls"], s[0], s[1], bool(s[2])), set()).add(s[3])
    # every enumerated pair must have been met in the real pages, at the level the model says
    unmet = [[pr["kind"], pr["cls"], pr["zone"], pr["ctx"], pr["quoted"]] for pr in pairs if pr["reaches"]
             and pr["final"] not in pair_seen.get((pr["kind"], pr["cls"], pr["zone"], pr["ctx"], bool(pr["quoted"])), set())]
    ctx.extra["enumerated_pairs"] = len(pairs)
    ctx.extra["pairs_not_met_at_model_level"] = unmet[:20]
    ctx.extra["occurrences_where_the_markup_language_changed_the_text"] = not_intact
    ctx.extra["runs"] = len(jobs)
    if r.coverage:
        ctx.extra["action_coverage"] = r.coverage

    # ---- code -> spec: TLC evaluates the invariants on the observed flows and checks them against the model
    keep = [i for i, o in enumerate(observed_records) if o is not None]
    observed_records = [observed_records[i] for i in keep]
    twin = [twin[i] for i in keep]
    f = ctx.scratch / "observed.json"
    f.write_text(json.dumps(observed_records))
    r2 = ctx.tlc("Escape", CFG_FILE, workers=1, env={"C10_OBSERVED": str(f)}, check=True, timeout=600)
    got = {x["n"]: x for x in r2.printed}
    if len(got) != len(observed_records):
        raise MachineryError(f"TLC judged {len(got)} of {len(observed_records)} observed flows")
    tlc_drift = 0
    for n, (o, d) in enumerate(zip(observed_records, twin), 1):
        g = got[n]
        ctx.traces += 1
        same = (sorted(map(tuple, g["sinksNotInModel"]), key=str) == d["sinks_not_in_model"]
                and sorted(map(tuple, g["modelSinksNotSeen"]), key=str) == d["model_sinks_not_seen"]
                and sorted(map(tuple, g["stepsNotInModel"]), key=str) == d["steps_not_in_model"]
                and sorted(map(tuple, g["modelStepsNotSeen"]), key=str) == d["model_steps_not_seen"])
        if not same:
            raise MachineryError(f"TLC and the Python twin disagree on observation {n} ({o['kind']}/{o['variant']}): {g} vs {d}")
        if not g["sinkLevelOne"]:
            # already reported from the pages unless the twin missed it
            lv = [s for s in o["sinks"] if s[3] != 1]
            ctx.violation({"invariant": "SinkLevelOne(TLC)", "kind": o["kind"], "variant": o["variant"], "payload": VARIANTS.get(o["variant"], ""),
                           "observed": lv[:5], "events": o["events"], "key": f"SinkLevelOne:{o['kind']}::{o['variant']}"})
        if not g["neverParsedRaw"]:
            ctx.notes.append(f"observed html2stan on level-0 text for {o['kind']}/{o['variant']} (verdict comes from the pages)")
        if g["sinksNotInModel"] or g["modelSinksNotSeen"] or g["stepsNotInModel"] or g["modelStepsNotSeen"]:
            tlc_drift += 1
    ctx.extra["observed_flows_validated_by_tlc"] = len(observed_records)
    ctx.extra["observed_flows_not_conforming"] = tlc_drift

    # ---- negative controls
    nc = {}
    broken = json.loads(json.dumps(observed_records[:1]))
    broken[0]["sinks"][0][3] = 2
    broken[0]["events"].append(["ParseXml", 0, 0])
    f.write_text(json.dumps(broken))
    r3 = ctx.tlc("Escape", CFG_FILE, workers=1, env={"C10_OBSERVED": str(f)}, check=True, count=False)
    nc["tlc_rejects_corrupted_observation"] = (not r3.printed[0]["sinkLevelOne"]) and (not r3.printed[0]["neverParsedRaw"]) \
        and bool(r3.printed[0]["stepsNotInModel"])
    # a page in which the canary is written raw must be caught by the crawler (skeleton / well-formedness)
    c, p = jobs_for(ctx.scratch, "doc.epytext", "markup", VARIANTS["markup"])
    rc_ = run_pydoctor({**c, "keep": True})
    rp_ = run_pydoctor(p)
    out = Path(c["dir"]) / "out"
    hit = 0
    for page in out.glob("*.html"):
        t = page.read_text(encoding="utf8")
        esc = html.escape(VARIANTS["markup"], quote=False)
        if esc in t:
            page.write_text(t.replace(esc, VARIANTS["markup"]), encoding="utf8")
            hit += 1
    tampered = crawl(out, forms(VARIANTS["markup"]))
    tampered.update({"kind": "doc.epytext", "payload": VARIANTS["markup"], "role": "canary"})
    verdicts = {b["invariant"] for b in judge_pair(tampered, rp_, True)}
    nc["crawler_catches_raw_canary"] = hit > 0 and bool(verdicts & {"SkeletonEqual", "WellFormed"}) and not judge_pair(rc_, rp_, True)
    import shutil
    shutil.rmtree(c["dir"], ignore_errors=True)
    ctx.extra["negative_control"] = nc
    if not all(nc.values()):
        raise MachineryError(f"negative control failed: {nc}")
    ctx.assumptions += [
        "exempt: reST raw / include directives (not generated)",
        "well-formed = parses with expat after removing characters that are illegal in XML 1.0",
        "payloads avoid the characters that belong to the docstring markup languages (whitespace, colon, braces, @, *, `, _, |); "
        "occurrences where the markup language itself rewrote the text are counted, not judged",
        "level 2 (escaped twice) counts as a violation of 'appears as text'",
        "random payloads of the thorough tier are judged (well-formed, skeleton, level) but not compared with the model",
    ]
    return ctx.finish(
        rule="(source kind, sink) pairs enumerated by TLC from Escape.tla; each kind planted with every payload variant in a "
             "generated project and run through the real pydoctor next to a placeholder twin; distinct = (kind, payload) "
             "projects; non-trivial = all (every payload carries HTML metacharacters)",
        distinct_nontrivial=len(plan))


def replay(ctx: Ctx, path: str) -> int:
    w = json.load(open(path))
    import pydoctor.driver  # noqa: F401
    if w.get("origin") == "history":
        x = run_history({"dir": str(ctx.scratch / "h"), "hist": w["history"]})
        broken = sorted(n for n, i in x["pages"].items() if not i["wellformed"])
        print("replay:", f"still violated: WellFormed {broken}" if broken else "holds now")
        if broken:
            print(f"VIOLATION property=C10 replay={path}")
        ctx.cleanup()
        return 1 if broken else 0
    kind, payload = w["kind"], w["payload"]
    c = {"dir": str(ctx.scratch / "c"), "kind": kind, "variant": w.get("variant", ""), "payload": payload, "role": "canary"}
    p = {"dir": str(ctx.scratch / "p"), "kind": kind, "variant": w.get("variant", ""), "payload": w.get("placeholder") or placeholder(payload), "role": "placeholder"}
    rc_, rp_ = run_pydoctor(c), run_pydoctor(p)
    if rc_["rc"] == "exception" and rp_["rc"] != "exception":
        bad = [{"invariant": "RunCompletes"}]
    else:
        bad = judge_pair(rc_, rp_, strict_appears=w.get("variant") in VARIANTS and w.get("variant") != "xmlbreak")
    names = sorted({b["invariant"] for b in bad})
    print("replay:", "still violated: " + ",".join(names) if bad else "holds now")
    if bad:
        print(f"VIOLATION property=C10 replay={path}")
    ctx.cleanup()
    return 1 if bad else 0


if __name__ == "__main__":      # exploration helper: python -m harness.checks.c10 KIND VARIANT
    kind, variant = sys.argv[1], sys.argv[2]
    p = payload_for(kind, VARIANTS[variant])
    r = run_pydoctor({"dir": f"/tmp/a6_c10dbg/{kind}", "kind": kind, "variant": variant, "payload": p, "role": "canary", "keep": True})
    print("rc", r["rc"], r["err"], "malformed", r["malformed"])
    print("events", r["events"])
    seen = {}
    for o in r["occ"]:
        seen.setdefault((o["zone"], o["ctx"], o["level"], o["quoted"]), []).append(o["page"][:14] + " " + o["path"] + " " + o["attr"] + " " + o["sample"][:50])
    for k, v in sorted(seen.items(), key=str):
        print(k, len(v), v[0])
    print(r["log"][-600:])
