"""
C13 - privacy rules mean what the manual says.

code -> spec : the REAL qnmatch.qnmatch() is evaluated over a whole bounded space of (pattern, name) pairs, and the
               REAL System.privacyClass over a whole bounded space of (rule list, qualified name) pairs on real
               Documentable objects; the result tables are handed to TLC (spec/PrivacyTable.tla), which proves the
               table is exactly the space it enumerates itself, recomputes every row with the reference operators
               written from the manual (QnMatch, PrivacyOf) and with the transcription of pydoctor's algorithm
               (ImplMatch = translate() + re semantics, ImplPrivacy) and prints every row where they differ.
               Real != Ref on a non-ambiguous input = VIOLATION; Real != Impl while Real = Ref = drift.
               A real build of a small package with re-exports (objects are reparented) is recorded through a
               wrapper of System.privacyClass and judged by TLC the same way.
spec -> code : spec/PrivacyCache.tla (privacyClass cache, isVisible, reparent) is explored by TLC; one behaviour
               per edge of the state graph is replayed on a real System: every answer is compared with the
               reference value TLC computed for the CURRENT qualified name, the real cache with the model's.
"""
from __future__ import annotations

import contextlib
import copy
import io
import itertools
import json
import os
import random
import re
import warnings
from pathlib import Path
from typing import Any, Dict, Iterable, List, Sequence, Tuple

from ..core import Ctx, MachineryError, tla

PAT_ALPHA = ["a", "b", ".", "*", "?", "[", "]", "!", "-", "^"]
NAME_ALPHA = ["a", "b", "."]
LEVELS = ["PUBLIC", "PRIVATE", "HIDDEN"]


def sample(ctx: Ctx, x: Dict[str, Any]) -> None:
    n = ctx.extra.setdefault("_sampled", {})
    if n.get(x["kind"], 0) < 2:
        n[x["kind"]] = n.get(x["kind"], 0) + 1
        ctx.sample(x, limit=8)


# --------------------------------------------------------------------------------------- real code
def real_match_row(pattern: str, names: Sequence[str]) -> Dict[str, Any]:
    from pydoctor import qnmatch
    with warnings.catch_warnings():
        warnings.simplefilter("ignore")            # re's FutureWarning for '--' / '[[' inside a class
        try:
            return {"p": list(pattern), "m": [i + 1 for i, n in enumerate(names) if qnmatch.qnmatch(n, pattern)],
                    "e": False}
        except Exception as ex:                    # re.error for a reversed range; anything else is just as observable
            return {"p": list(pattern), "m": [], "e": True, "exc": type(ex).__name__}


def seqs(alpha: Sequence[str], k: int) -> Iterable[str]:
    for m in range(k + 1):
        for t in itertools.product(alpha, repeat=m):
            yield "".join(t)


_parsed_rule: Dict[str, Any] = {}


def rule_args(rules: Sequence[Tuple[str, str]], rng: random.Random | None = None) -> List[str]:
    out = []
    for lv, pat in rules:
        if rng is not None:                       # "<PRIVACY> ... (case insensitive)"
            lv = rng.choice([lv, lv.lower(), lv.capitalize()])
        out.append(f"--privacy={lv}:{pat}")
    return out


def make_options(rules: Sequence[Tuple[str, str]], rng: random.Random | None = None) -> Any:
    """Options carrying the rules, ALWAYS built by the real option pipeline (Options.from_args on the --privacy
    arguments in the order given: parsing, conversion of the whole list, attrs construction). One parse per distinct
    argument list; a System gets its own shallow copy."""
    from pydoctor.options import Options
    args = tuple(rule_args(rules, rng))
    if args not in _parsed_rule:
        _parsed_rule[args] = Options.from_args(list(args))
    return copy.copy(_parsed_rule[args])


def observe_cache(system: Any) -> Dict[str, str] | None:
    """System._privacyClassCache as {qualified name: level} when it has that shape, else None: the cache is a private
    attribute, its representation is not part of the property and is never required (behaviour is judged through
    privacyClass()/isVisible answers only)."""
    c = getattr(system, "_privacyClassCache", None)
    if not isinstance(c, dict) or not all(isinstance(k, str) and hasattr(v, "name") for k, v in c.items()):
        return None
    return {k: str(v.name) for k, v in c.items()}


def build_objects(system: Any, names: Sequence[str]) -> Dict[str, Any]:
    """Real Documentable objects with the given qualified names (parents created as needed)."""
    from pydoctor import model
    objs: Dict[str, Any] = {}

    def get(full: str) -> Any:
        if full in objs:
            return objs[full]
        if "." not in full:
            o = model.Module(system, full)
        else:
            parent_name, _, last = full.rpartition(".")
            if full in OWN_NAMES:
                last = OWN_NAMES[full]
                parent_name = full[:-len(last) - 1]
            parent = get(parent_name)
            cls = model.Class if isinstance(parent, model.Module) else model.Function
            o = cls(system, last, parent)
        system.addObject(o)
        objs[full] = o
        return o

    for n in names:
        get(n)
    return objs


def real_rules_row(rules: Sequence[Tuple[str, str]], names: Sequence[str],
                   rng: random.Random | None = None) -> List[str]:
    from pydoctor import model
    system = model.System(make_options(rules, rng))
    objs = build_objects(system, names)
    got = []
    for n in names:
        if objs[n].fullName() != n:
            raise MachineryError(f"harness built {objs[n].fullName()!r} for {n!r}")
        try:
            got.append(objs[n].privacyClass.name)
        except Exception as ex:                    # an exception is an observation too (never a level)
            got.append("raised " + type(ex).__name__)
    return got


def rules_json(rules: Sequence[Tuple[str, str]]) -> List[Dict[str, Any]]:
    return [{"lv": lv, "pat": list(pat)} for lv, pat in rules]


# ----------------------------------------------------------------------------------------- TLC side
TABLE_CFG = """SPECIFICATION Spec
CONSTANTS Kind = "{kind}"
          Exhaustive = {exh}
          PatAlpha = {pa}
          NameAlpha = {na}
          PatK = {pk}
          NameK = {nk}
          Chunks = 64
          SampleEvery = {every}
CONSTRAINT Emit
INVARIANT ImplIsRef
"""


def run_table(ctx: Ctx, kind: str, table: Dict[str, Any], *, exhaustive: bool, pa: Sequence[str] = (),
              na: Sequence[str] = (), pk: int = 0, nk: int = 0, tag: str = "", count: bool = True) -> List[Dict[str, Any]]:
    """Hand a table of REAL results to TLC; returns the rows TLC printed (disagreements + samples)."""
    n = len(table["rows"])
    f = ctx.scratch / f"table_{kind}_{tag}.json"
    f.write_text(json.dumps(table))
    cfg = TABLE_CFG.format(kind=kind, exh=tla(exhaustive), pa=tla(set(pa)), na=tla(set(na)), pk=pk, nk=nk,
                           every=max(2, n // 40))
    r = ctx.tlc("PrivacyTable", cfg, workers="auto", env={"TABLE_FILE": str(f)}, timeout=1500, count=count)
    if r.errors or (r.rc != 0 and not r.violated):
        raise MachineryError(f"TLC failed on PrivacyTable[{kind}/{tag}]: {r.errors[:3]} rc={r.rc}\n"
                             + "\n".join(r.out.splitlines()[-25:]))
    head = [x for x in r.printed if isinstance(x, dict) and "rows" in x and "kind" in x]
    if not head or head[0]["rows"] != n:
        raise MachineryError(f"TLC did not load the table [{kind}/{tag}]: {head}")
    if r.distinct != 1 + 64 + n:
        raise MachineryError(f"TLC evaluated {r.distinct - 65} rows of {n} [{kind}/{tag}]")
    f.unlink()
    if r.violated and count:
        ctx.extra.setdefault("design_level_invariants_violated", []).append({tag or kind: r.violated})
    return [x for x in r.printed if isinstance(x, dict) and "real_is_ref" in x]


def judge_match_reports(ctx: Ctx, reports: List[Dict[str, Any]], names: Sequence[str], origin: str) -> None:
    for rep in reports:
        pat = "".join(rep["p"])
        if rep["amb"]:
            ctx.extra["ambiguous_patterns_excluded"] = ctx.extra.get("ambiguous_patterns_excluded", 0) + 1
        if not rep["real_is_ref"]:
            ref, real = set(rep["ref"]), set(rep["real"])
            diff = sorted(ref ^ real)
            ctx.violation({
                "invariant": "MatchIsDocumented", "kind": "match", "origin": origin, "pattern": pat,
                "names": [names[i - 1] for i in diff] if not rep["rerr"] else [names[i - 1] for i in sorted(ref)][:5] or [""],
                "expected": {names[i - 1]: (i in ref) for i in diff} if not rep["rerr"] else "no error",
                "observed": {names[i - 1]: (i in real) for i in diff} if not rep["rerr"] else "exception",
                "key": f"match:{pat}"})
        elif not rep["real_is_impl"]:
            ctx.drift_note({"kind": "match", "pattern": pat, "impl": rep["impl"], "impl_error": rep["ierr"],
                            "real": rep["real"], "real_error": rep["rerr"]})
        elif rep["real"] and set(pat) & set("*?["):
            sample(ctx, {"kind": "match", "pattern": pat, "matches": [names[i - 1] for i in rep["real"]][:8]})


def judge_rules_reports(ctx: Ctx, reports: List[Dict[str, Any]], namesets: List[List[str]], origin: str) -> None:
    for rep in reports:
        names = namesets[rep["ns"] - 1]
        rules = [(r["lv"], "".join(r["pat"])) for r in rep["rules"]]
        if not rep["real_is_ref"] and origin == "real-build":
            bad = [i for i in range(len(names)) if rep["ref"][i] != rep["real"][i]]
            ctx.violation({
                "invariant": "PrivacyIsDocumented", "kind": "build", "origin": origin, "rules": rules,
                "expected": {names[i]: rep["ref"][i] for i in range(len(names))},
                "observed": sorted({(names[i], rep["real"][i]) for i in bad}),
                "key": f"build:{[lv[:3] + ':' + p for lv, p in rules]}"})
        elif not rep["real_is_ref"]:
            bad = [i for i in range(len(names)) if rep["ref"][i] != rep["real"][i]]
            ctx.violation({
                "invariant": "PrivacyIsDocumented", "kind": "rules", "origin": origin, "rules": rules,
                "names": [names[i] for i in bad], "expected": [rep["ref"][i] for i in bad],
                "observed": [rep["real"][i] for i in bad],
                "key": f"rules:{[lv[:3] + ':' + p for lv, p in rules]}:{names[bad[0]]}"})
        elif not rep["real_is_impl"]:
            ctx.drift_note({"kind": "rules", "rules": rules, "impl": rep["impl"], "real": rep["real"]})
        else:
            sample(ctx, {"kind": "rules", "rules": rules, "privacy": dict(zip(names, rep["real"]))})


# ------------------------------------------------------------------------------- part 1: the matcher
def part_match(ctx: Ctx, rng: random.Random) -> int:
    nontrivial = 0
    spaces = [("base", PAT_ALPHA, NAME_ALPHA, 4, 3),                 # 11 111 patterns x 40 names
              ("wide-names", PAT_ALPHA, PAT_ALPHA, 3 if ctx.quick else 4, 2)]   # names may hold every pattern character
    if not ctx.quick:
        spaces.append(("base5", PAT_ALPHA, NAME_ALPHA, 5, 3))         # 111 111 patterns: x-y ranges appear here
        spaces.append(("base-long-names", PAT_ALPHA, NAME_ALPHA, 4, 4))
    for tag, pa, na, pk, nk in spaces:
        names = list(seqs(na, nk))
        rows = [real_match_row(p, names) for p in seqs(pa, pk)]
        reports = run_table(ctx, "match", {"names": [list(n) for n in names], "rows": rows}, exhaustive=True,
                            pa=pa, na=na, pk=pk, nk=nk, tag=tag)
        judge_match_reports(ctx, reports, names, tag)
        ctx.traces += len(rows)
        ctx.evaluations += len(rows) * len(names)
        nontrivial += sum(1 for r in rows if set(r["p"]) & set("*?[")) * len(names)
        ctx.extra.setdefault("match_tables", []).append(
            {"space": tag, "patterns": len(rows), "names": len(names), "pairs": len(rows) * len(names),
             "matching_pairs": sum(len(r["m"]) for r in rows), "patterns_raising_re_error": sum(r["e"] for r in rows)})
    # longer patterns and names, sampled (ranges / ambiguous patterns occur from length 5 on)
    npat = 4000 if ctx.quick else 60000
    names = list(seqs(NAME_ALPHA, 3)) + sorted({"".join(rng.choice(NAME_ALPHA) for _ in range(rng.randint(4, 6)))
                                                for _ in range(80)})
    weighted = PAT_ALPHA + ["[", "]", "*", "a", "b", "."]
    pats = sorted({"".join(rng.choice(weighted) for _ in range(rng.randint(5, 7))) for _ in range(npat)})
    rows = [real_match_row(p, names) for p in pats]
    reports = run_table(ctx, "match", {"names": [list(n) for n in names], "rows": rows}, exhaustive=False,
                        tag="sampled-long")
    judge_match_reports(ctx, reports, names, "sampled-long")
    ctx.traces += len(rows)
    ctx.evaluations += len(rows) * len(names)
    nontrivial += sum(1 for r in rows if set(r["p"]) & set("*?[")) * len(names)
    ctx.extra["match_tables"].append({"space": "sampled-long (patterns 5-7, names <=6)", "patterns": len(rows),
                                      "names": len(names), "pairs": len(rows) * len(names),
                                      "patterns_raising_re_error": sum(r["e"] for r in rows)})

    # [seq] against [!seq], every seq up to 3 characters, over one-character names: complements of each other, and one
    # consistent reading of an inner '-' (the only place where patterns with a '-' inside brackets are JUDGED)
    chars1 = list(PAT_ALPHA)
    bodies = [b for b in seqs(PAT_ALPHA, 3) if b and b[0] != "!" and "]" not in b[1:]]
    srows = []
    for b in bodies:
        pos, neg = real_match_row("[" + b + "]", chars1), real_match_row("[!" + b + "]", chars1)
        srows.append({"b": list(b), "pos": pos["m"], "neg": neg["m"], "epos": pos["e"], "eneg": neg["e"]})
    reports = run_table(ctx, "sets", {"names": [[c] for c in chars1], "rows": srows}, exhaustive=False, tag="sets")
    for rep in reports:
        body = "".join(rep["b"])
        if not rep["well"]:
            raise MachineryError(f"[{body}] is not one set token for Privacy.tla's tokeniser")
        if not rep["real_is_ref"]:
            ctx.violation({"invariant": "SetAndItsNegationAreComplements", "kind": "sets", "body": body, "names": chars1,
                           "expected": {"[seq] accepts": [chars1[i - 1] for i in rep["lit"]],
                                        "or, read as a range": [chars1[i - 1] for i in rep["rng"]] if rep["amb"] else None,
                                        "[!seq] accepts": "the other characters"},
                           "observed": {"[%s]" % body: [chars1[i - 1] for i in rep["pos"]] if not rep["epos"] else "exception",
                                        "[!%s]" % body: [chars1[i - 1] for i in rep["neg"]] if not rep["eneg"] else "exception"},
                           "key": f"sets:{body}"})
        elif not rep["real_is_impl"]:
            ctx.drift_note({"kind": "sets", "body": body, "pos": rep["pos"], "neg": rep["neg"]})
    ctx.traces += len(srows)
    ctx.evaluations += 2 * len(srows) * len(chars1)
    nontrivial += 2 * len(srows) * len(chars1)
    ctx.extra["match_tables"].append({"space": "[seq] / [!seq], seq <= 3, one-character names over the pattern alphabet",
                                      "sets": len(srows), "with_an_inner_dash": sum(1 for b in bodies if "-" in b[1:-1])})

    # negative control: one corrupted cell of a real table must be reported by TLC, and only that row
    names = list(seqs(NAME_ALPHA, 3))
    rows = [real_match_row(p, names) for p in seqs(PAT_ALPHA, 2)]
    victim = next(i for i, r in enumerate(rows) if r["p"] == ["a", "*"])
    cell = names.index("ab") + 1
    rows[victim]["m"] = [x for x in rows[victim]["m"] if x != cell]
    reports = run_table(ctx, "match", {"names": [list(n) for n in names], "rows": rows}, exhaustive=True,
                        pa=PAT_ALPHA, na=NAME_ALPHA, pk=2, nk=3, tag="negctl", count=False)
    flagged = [rep["i"] for rep in reports if not rep["real_is_ref"]]
    okc = victim + 1 in flagged and (len(flagged) == 1 or bool(ctx.violations) or bool(ctx.known_seen))
    ctx.extra.setdefault("negative_control", {})["corrupted_match_cell_reported"] = okc
    if not okc:
        raise MachineryError(f"negative control (match table) failed: flagged rows {flagged}, expected {[victim + 1]}")
    return nontrivial


# ---------------------------------------------------------------------- part 2: precedence of rules
RULE_NAMES = ["a", "_a", "a.c", "a._c", "a.c._m", "a.c.__d__", "a.c.__p", "b.c", "b._c.m", "_a.c.m",
              "a.c._v.setter", "a.c.v.deleter", "a.c.__init__"]
# objects whose OWN name has a dot in it (the builder names the setter of property _v "_v.setter")
OWN_NAMES = {"a.c._v.setter": "_v.setter", "a.c.v.deleter": "v.deleter"}


def name_json(full: str, own: str | None = None) -> Dict[str, Any]:
    own = own if own is not None else OWN_NAMES.get(full, full.rpartition(".")[2])
    return {"f": list(full), "o": list(own)}
# the 8th is a pattern made of a set only (no * or ?): it must still be treated as a pattern (a.[bc] matches a.c)
# the 9th is the manual's own example of a rule that designates constructors (PUBLIC:**.__init__)
MATCH_STRINGS = ["a.c", "a.*", "**", "*._c", "**.__*__", "a.c._m", "?.c", "a.[bc]", "**.__init__", "a.c.__init__",
                 "**.m", "[!b].c._m", "a.c.*"]


def part_rules(ctx: Ctx, rng: random.Random) -> int:
    nstr = 9 if ctx.quick else 10
    universe = [(lv, p) for p in MATCH_STRINGS[:nstr] for lv in LEVELS]
    maxrules = 2 if ctx.quick else 3
    lists: List[Tuple[Tuple[str, str], ...]] = [t for m in range(maxrules + 1) for t in itertools.product(universe, repeat=m)]
    rows = []
    for i, rl in enumerate(lists):
        rows.append({"rules": rules_json(rl), "ns": 1, "res": real_rules_row(rl, RULE_NAMES, rng)})
    table = {"namesets": [[name_json(n) for n in RULE_NAMES]], "universe": rules_json(universe), "maxrules": maxrules,
             "rows": rows}
    reports = run_table(ctx, "rules", table, exhaustive=True, tag="exhaustive")
    judge_rules_reports(ctx, reports, [RULE_NAMES], "exhaustive")
    ctx.traces += len(rows)
    ctx.evaluations += len(rows) * len(RULE_NAMES)
    nontrivial = (len(rows) - 1) * len(RULE_NAMES)
    ctx.extra["rule_tables"] = [{"space": f"all rule lists <= {maxrules} over {len(universe)} rules",
                                 "rule_lists": len(rows), "names": len(RULE_NAMES)}]

    # every list up to 3 rules over a SMALL rule alphabet: contains every repetition of an identical rule around a
    # conflicting one ([PUBLIC:a.c, HIDDEN:a.c, PUBLIC:a.c] - "the one given last wins" also when it was given before)
    small = [(lv, p) for p in ("a.c", "a.*", "**._m") for lv in LEVELS]
    lists3 = [t for m in range(4) for t in itertools.product(small, repeat=m)]
    rows = [{"rules": rules_json(rl), "ns": 1, "res": real_rules_row(rl, RULE_NAMES, rng)} for rl in lists3]
    table = {"namesets": [[name_json(n) for n in RULE_NAMES]], "universe": rules_json(small), "maxrules": 3, "rows": rows}
    reports = run_table(ctx, "rules", table, exhaustive=True, tag="repeat3")
    judge_rules_reports(ctx, reports, [RULE_NAMES], "repeat3")
    ctx.traces += len(rows)
    ctx.evaluations += len(rows) * len(RULE_NAMES)
    nontrivial += (len(rows) - 1) * len(RULE_NAMES)
    ctx.extra["rule_tables"].append({"space": f"all rule lists <= 3 over {len(small)} rules (repetitions of identical rules)",
                                     "rule_lists": len(rows), "names": len(RULE_NAMES),
                                     "lists_repeating_an_identical_rule": sum(1 for rl in lists3 if len(set(rl)) < len(rl))})

    # longer lists + random patterns (matcher and precedence together), sampled
    alpha = ["a", "b", "c", "m", "_", ".", ".", "*", "*", "?", "[", "]", "!"]
    nrows = 1500 if ctx.quick else 15000
    names2 = RULE_NAMES + ["a.b", "b", "a.b.c", "__a__", "a.c.m_"]
    rows = []
    for _ in range(nrows):
        rl = []
        for _ in range(rng.randint(1, 5)):
            if rng.random() < 0.35:
                pat = rng.choice(names2 + MATCH_STRINGS)
            else:
                pat = "".join(rng.choice(alpha) for _ in range(rng.randint(1, 6)))
            rl.append((rng.choice(LEVELS), pat))
        rows.append({"rules": rules_json(rl), "ns": 1, "res": real_rules_row(rl, names2, rng)})
    table = {"namesets": [[name_json(n) for n in names2]], "universe": [], "maxrules": 0, "rows": rows}
    reports = run_table(ctx, "rules", table, exhaustive=False, tag="sampled")
    judge_rules_reports(ctx, reports, [names2], "sampled")
    ctx.traces += len(rows)
    ctx.evaluations += len(rows) * len(names2)
    nontrivial += len(rows) * len(names2)
    ctx.extra["rule_tables"].append({"space": "random rule lists 1-5, random patterns <= 6", "rule_lists": len(rows),
                                     "names": len(names2)})

    # negative control: one corrupted observation must be reported
    rl = (("HIDDEN", "a.*"), ("PUBLIC", "a.c"))
    res = real_rules_row(rl, RULE_NAMES)
    k = RULE_NAMES.index("a.c")
    good = res[k]
    res[k] = "HIDDEN" if good != "HIDDEN" else "PUBLIC"
    table = {"namesets": [[name_json(n) for n in RULE_NAMES]], "universe": [], "maxrules": 0,
             "rows": [{"rules": rules_json(rl), "ns": 1, "res": res}]}
    reports = run_table(ctx, "rules", table, exhaustive=False, tag="negctl", count=False)
    okc = len(reports) == 1 and not reports[0]["real_is_ref"] and reports[0]["ref"][k] == good
    ctx.extra.setdefault("negative_control", {})["corrupted_privacy_observation_reported"] = okc
    if not okc:
        raise MachineryError("negative control (rules table) failed")
    return nontrivial


# -------------------------------------------------------- part 3: a real build, recorded, judged by TLC
PKG_INIT = "from ._impl import c, _h\nfrom . import _impl\n__all__ = ['c', '_h']\n"
PKG_IMPL = ("class c:\n    @property\n    def _v(self): return 1\n    @_v.setter\n    def _v(self, x): pass\n"
            "    @property\n    def w(self): return 1\n    @w.deleter\n    def w(self): pass\n    def _m(self): pass\n    def __d__(self): pass\n    class _n:\n        x = 1\n"
            "class _h:\n    def m(self): pass\ndef f(): pass\n_v = 1\n")
BUILD_RULES: List[List[Tuple[str, str]]] = [
    [],
    [("PRIVATE", "pkg.*"), ("PUBLIC", "pkg.c"), ("HIDDEN", "**._n")],
    [("HIDDEN", "pkg._impl.**"), ("PUBLIC", "**.__*__")],
    [("PUBLIC", "**._*"), ("PRIVATE", "pkg._h"), ("HIDDEN", "pkg.?")],
    [("HIDDEN", "pkg._impl.c"), ("PRIVATE", "pkg.c._m"), ("PUBLIC", "pkg.c.*")],
]


owns: Dict[str, str] = {}          # qualified name -> own name, as seen in the last recorded build


def observe_build(ctx: Ctx, rules: List[Tuple[str, str]], rng: random.Random) -> Tuple[List[str], List[str], int]:
    """Build the package with the real System; log every System.privacyClass() answer (name, level)."""
    from pydoctor import model
    root = ctx.scratch / "build" / "pkg"
    root.mkdir(parents=True, exist_ok=True)
    (root / "__init__.py").write_text(PKG_INIT)
    (root / "_impl.py").write_text(PKG_IMPL)
    log: List[Tuple[str, str]] = []
    moved = {"n": 0}
    orig_pc, orig_rep = model.System.privacyClass, model.Documentable.reparent

    def pc(self: Any, ob: Any) -> Any:
        r = orig_pc(self, ob)
        log.append((ob.fullName(), r.name, ob.name))
        return r

    def subtree(o: Any) -> List[Any]:
        out = [o]
        for ch in list(o.contents.values()):
            out.extend(subtree(ch))
        return out

    def rep(self: Any, new_parent: Any, new_name: str) -> None:
        for o in subtree(self):                  # fill the cache under the old names
            o.privacyClass
        orig_rep(self, new_parent, new_name)
        moved["n"] += 1
        for o in subtree(self):                  # ask again under the new names
            o.isVisible

    model.System.privacyClass, model.Documentable.reparent = pc, rep
    try:
        with contextlib.redirect_stdout(io.StringIO()):      # "moving 'pkg._impl.c' into 'pkg'"
            system = model.System(make_options(rules, rng))
            system.addPackage(root)
            system.process()
            for o in list(system.allobjects.values()):
                o.privacyClass
                o.isVisible
    finally:
        model.System.privacyClass, model.Documentable.reparent = orig_pc, orig_rep
    owns.clear()
    owns.update({n: own for n, _, own in log})
    return [n for n, _, _ in log], [v for _, v, _ in log], moved["n"]


def part_build(ctx: Ctx, rng: random.Random) -> int:
    rows, namesets, moves = [], [], 0
    ns_json: List[List[Dict[str, Any]]] = []
    for rules in BUILD_RULES:
        names, res, mv = observe_build(ctx, rules, rng)
        moves += mv
        namesets.append(names)
        ns_json.append([name_json(n, owns[n]) for n in names])
        rows.append({"rules": rules_json(rules), "ns": len(namesets), "res": res})
    if moves < 2 * len(BUILD_RULES):
        raise MachineryError(f"the recorded builds reparented {moves} objects, expected {2 * len(BUILD_RULES)}")
    table = {"namesets": ns_json, "universe": [], "maxrules": 0, "rows": rows}
    reports = run_table(ctx, "rules", table, exhaustive=False, tag="build")
    judge_rules_reports(ctx, reports, namesets, "real-build")
    ctx.traces += len(rows)
    ctx.evaluations += sum(len(ns) for ns in namesets)
    ctx.extra["real_builds"] = {"builds": len(rows), "privacyClass_answers_recorded": sum(len(ns) for ns in namesets),
                                "reparent_calls": moves}
    return sum(len(ns) for ns in namesets)


# ------------------------------------------------------------------ part 4: cache state machine
CACHE_CFG = """SPECIFICATION Spec
CONSTANTS RuleSetIds = {{1, 2, 3, 4, 5}}
          KindlessStart = {kl}
          MaxMoves = {moves}
          MaxDepth = {depth}
          CacheKey = "{key}"
VIEW View
CONSTRAINT Bound
{emit}
INVARIANT ObservedRight
INVARIANT VisibleRight
INVARIANT CacheSound
"""


def replay_behaviour(rec: Dict[str, Any], refs: Dict[str, str] | None) -> Dict[str, Any]:
    """Run one behaviour of PrivacyCache.tla on a real System. Returns failed clauses + drift."""
    from pydoctor import model
    rules = [(r["lv"], "".join(r["pat"])) for r in rec["rules"]]
    system = model.System(make_options(rules))
    mods = {}
    for m in ("a", "b"):
        mods[m] = model.Module(system, m)
        system.addObject(mods[m])
    K = model.Class(system, "c", mods["a"])
    system.addObject(K)
    F = model.Function(system, "_m", K)
    system.addObject(F)
    L = model.Class(system, "c", mods["b"])
    system.addObject(L)
    objs = {"a": mods["a"], "b": mods["b"], "K": K, "F": F, "L": L}
    kindless = bool(rec.get("kl0"))
    if kindless:
        F.kind = None                                # a Documentable has no kind until the builder gives it one
    bad: List[Dict[str, Any]] = []
    drift: List[Dict[str, Any]] = []
    for i, st in enumerate(rec["h"]):
        o = objs[st["o"]]
        if st["op"] == "givekind":
            F.kind = model.DocumentableKind.FUNCTION
            kindless = False
            continue
        name = "".join(st["name"])
        if o.fullName() != name:
            drift.append({"step": i, "what": "fullName", "spec": name, "real": o.fullName()})
        try:
            if st["op"] == "query":
                real = o.privacyClass.name
            elif st["op"] == "visible":
                real = "yes" if o.isVisible else "no"
        except Exception as ex:
            real = "raised " + type(ex).__name__
        if st["op"] == "reparent":
            o.reparent(mods[st["mod"]], "".join(st["nm"]))
            continue
        if st["exp"] != "-" and real != st["exp"]:   # "-": an object without a kind is outside the statement
            bad.append({"step": i, "op": st["op"], "name": o.fullName(), "expected": st["exp"], "observed": real})
        elif real != st["got"]:
            drift.append({"step": i, "what": st["op"], "spec": st["got"], "real": real})
    real_cache = observe_cache(system)               # None: representation not the expected one, not looked into
    spec_cache = {"".join(e["k"]): e["v"] for e in rec["cache"]}
    # the content of the private cache is never a verdict by itself (what it makes the System ANSWER is, below);
    # a difference with the model's cache is model drift
    if real_cache is not None and real_cache != spec_cache and not bad:
        drift.append({"what": "cache", "spec": spec_cache, "real": real_cache})
    if refs is not None:
        # ObservedRight as the spec states it, on the real final state and through behaviour only: what a query
        # answers NOW is the documented privacy of the object's CURRENT qualified name, whatever was asked before
        for tag, o in objs.items():
            if tag == "F" and kindless:
                continue
            try:
                real = o.privacyClass.name
            except Exception as ex:
                real = "raised " + type(ex).__name__
            want = refs.get(o.fullName())
            if want is not None and real != want and not bad:
                bad.append({"step": len(rec["h"]), "op": "query", "name": o.fullName(), "expected": want, "observed": real,
                            "final_sweep": tag})
    return {"bad": bad, "drift": drift}


def part_cache(ctx: Ctx) -> int:
    moves, depth = (2, 3) if ctx.quick else (3, 5)
    r = ctx.tlc("PrivacyCache", CACHE_CFG.format(moves=moves, depth=depth, key="fullName", kl="{FALSE, TRUE}",
                                                 emit="ACTION_CONSTRAINT EmitEdge"),
                workers="auto", coverage=ctx.quick, timeout=1500)
    # deeper behaviours (stale keys taken over by another object ...), random walks of the same spec
    nsim = 150 if ctx.quick else 2500
    rs = ctx.tlc("PrivacyCache", CACHE_CFG.format(moves=4, depth=9, key="fullName", kl="{FALSE, TRUE}", emit="ACTION_CONSTRAINT EmitEdge"),
                 workers=1, simulate=f"num={nsim}", depth=9, seed=ctx.seed, timeout=1500)
    for x in (r, rs):
        if x.errors or (x.rc != 0 and not x.violated):
            raise MachineryError(f"TLC failed on PrivacyCache: {x.errors[:3]} rc={x.rc}\n" + "\n".join(x.out.splitlines()[-25:]))
        if x.violated:
            ctx.extra.setdefault("design_level_invariants_violated", []).append({"cache": x.violated})
    refs_rec = [x for x in r.printed if isinstance(x, dict) and "refs" in x]
    if not refs_rec:
        raise MachineryError("PrivacyCache did not print the reference table")
    refs = [{"".join(e["k"]): e["v"] for e in per} for per in refs_rec[0]["refs"]]
    recs = [x for x in r.printed if isinstance(x, dict) and "h" in x]
    if not recs:
        raise MachineryError("PrivacyCache emitted no behaviour")
    n_exh = len(recs)
    seen = set()
    for x in rs.printed:
        if isinstance(x, dict) and "h" in x:
            k = json.dumps([x["rid"], x.get("kl0"), [[st["op"], st["o"], st["mod"], st["nm"]] for st in x["h"]]])
            if k not in seen:
                seen.add(k)
                recs.append(x)
    nontrivial = 0
    for n, rec in enumerate(recs):
        out = replay_behaviour(rec, refs[rec["rid"] - 1])
        ctx.traces += 1
        if any(st["op"] == "reparent" for st in rec["h"]):
            nontrivial += 1
        for b in out["bad"][:1]:
            hist = [[st["op"], st["o"], st["mod"], "".join(st["nm"])] for st in rec["h"]]
            ctx.violation({"invariant": "ObservedRight" if b["op"] == "query" else
                           ("VisibleRight" if b["op"] == "visible" else "CacheSound"),
                           "kind": "cache", "behaviour": rec, "refs": refs[rec["rid"] - 1], "failed": out["bad"],
                           "expected": b["expected"], "observed": b["observed"],
                           "key": f"cache:{rec['rid']}:{b['op']}:{b['name']}:{[h[0] for h in hist]}"})
        for d in out["drift"]:
            ctx.drift_note({"kind": "cache", "rid": rec["rid"], **d})
        if n % max(1, len(recs) // 2) == 1:
            sample(ctx, {"kind": "cache", "rules": [f"{x['lv']}:{''.join(x['pat'])}" for x in rec["rules"]],
                        "behaviour": [[st["op"], st["o"], "".join(st["name"]), st["mod"] + "." + "".join(st["nm"])
                                       if st["op"] == "reparent" else st["got"]] for st in rec["h"]]})
    ctx.extra["cache_machine"] = {"MaxMoves": moves, "MaxDepth": depth, "behaviours_replayed": len(recs),
                                  "from_exhaustive_exploration": n_exh, "from_random_walks_depth_9": len(recs) - n_exh,
                                  "with_reparent": nontrivial}
    if ctx.quick:
        # core's coverage parser does not know the "(l c l c)" suffix TLC prints for actions whose body is a LET
        cov = {m.group(1): int(m.group(2)) for m in
               re.finditer(r"^<(\w+) line [^>]*?of module PrivacyCache(?: \([\d ]+\))?>: (\d+):\d+", r.out, re.M)}
        ctx.extra["action_coverage"] = cov
        ctx.extra["actions_never_taken"] = [a for a in ("Query", "QueryVisible", "Reparent", "GiveKind") if not cov.get(a)]
        if ctx.extra["actions_never_taken"]:
            raise MachineryError(f"vacuous action in PrivacyCache: {ctx.extra['actions_never_taken']}")
    # design-level negative control: a cache keyed by object identity must break ObservedRight in the model
    r2 = ctx.tlc("PrivacyCache", CACHE_CFG.format(moves=1, depth=3, key="object", kl="{FALSE}", emit=""), workers=4, count=False,
                 timeout=600)
    okc = "ObservedRight" in r2.violated
    ctx.extra.setdefault("negative_control", {})["identity_keyed_cache_violates_model_invariant"] = okc
    if not okc:
        raise MachineryError("negative control (cache keyed by object identity) was not rejected by TLC")
    # second control: keyed by object, reparent() forgets the moved object only (members keep their old privacy)
    r3 = ctx.tlc("PrivacyCache", CACHE_CFG.format(moves=1, depth=3, key="objectPop", kl="{FALSE}", emit=""), workers=4, count=False,
                 timeout=600)
    okc = "ObservedRight" in r3.violated
    ctx.extra["negative_control"]["object_keyed_cache_forgetting_only_the_moved_object_violates_model_invariant"] = okc
    if not okc:
        raise MachineryError("negative control (object-keyed cache, entry of the moved object dropped) was not rejected by TLC")
    # third control: the HIDDEN answered for an object without a kind is remembered under its name
    r4 = ctx.tlc("PrivacyCache", CACHE_CFG.format(moves=0, depth=3, key="kindCached", kl="{TRUE}", emit=""), workers=4, count=False,
                 timeout=600)
    okc = "ObservedRight" in r4.violated
    ctx.extra["negative_control"]["hidden_of_a_kindless_object_cached_violates_model_invariant"] = okc
    if not okc:
        raise MachineryError("negative control (answer for a kindless object cached) was not rejected by TLC")
    return nontrivial


# ------------------------------------------------------------- part 5: several Systems in one process
SYS_CFG = """SPECIFICATION Spec
CONSTANTS MaxSystems = {ms}
          MaxSteps = {steps}
          Sharing = "{sharing}"
CONSTRAINT Bound
{emit}
INVARIANT OwnRulesOnly
"""


def replay_systems(hist: List[Dict[str, Any]]) -> List[Dict[str, Any]]:
    """One behaviour of PrivacySystems.tla with real Systems, in a forked child (Systems of other behaviours, and of the
    rest of the check, are not in its past). Returns the observed answer of every query step."""
    from pydoctor import model                    # imported in the parent: the children only fork
    from pydoctor.options import Options
    from pydoctor.utils import parse_privacy_tuple
    rd, wr = os.pipe()
    pid = os.fork()
    if pid == 0:
        try:
            os.close(rd)
            systems: List[Any] = []
            objs: List[Dict[str, Any]] = []
            out = []
            for st in hist:
                rules = [(r["lv"], "".join(r["pat"])) for r in st["rules"]]
                if st["op"] == "new":
                    system = model.System(Options.from_args(rule_args(rules))) if rules else model.System()
                    systems.append(system)
                    objs.append(build_objects(system, ["a", "a.c"]))
                elif st["op"] == "append":
                    lv, pat = rules[0]
                    systems[st["s"] - 1].options.privacy.append(parse_privacy_tuple(f"{lv}:{pat}", "--privacy"))
                else:
                    try:
                        real = objs[st["s"] - 1]["".join(st["name"])].privacyClass.name
                    except Exception as ex:
                        real = "raised " + type(ex).__name__
                    out.append(real)
            with os.fdopen(wr, "w") as f:
                json.dump(out, f)
        finally:
            os._exit(0)
    os.close(wr)
    with os.fdopen(rd) as f:
        data = f.read()
    os.waitpid(pid, 0)
    if not data:
        raise MachineryError("the child process replaying a PrivacySystems behaviour returned nothing")
    got = json.loads(data)
    res, k = [], 0
    for i, st in enumerate(hist):
        if st["op"] == "query":
            res.append({"step": i, "system": st["s"], "name": "".join(st["name"]), "expected": st["exp"], "spec": st["got"],
                        "observed": got[k]})
            k += 1
    return res


def show_systems(hist: List[Dict[str, Any]]) -> List[Any]:
    return [[st["op"], st["s"], [f"{r['lv']}:{''.join(r['pat'])}" for r in st["rules"]] or "".join(st["name"])] for st in hist]


def part_systems(ctx: Ctx) -> int:
    ms, steps = (2, 4) if ctx.quick else (3, 5)
    r = ctx.tlc("PrivacySystems", SYS_CFG.format(ms=ms, steps=steps, sharing="none", emit="CONSTRAINT Emit"),
                workers=1, timeout=900)
    if r.errors or r.violated or r.rc != 0:
        raise MachineryError(f"TLC failed on PrivacySystems: {r.errors[:3]} {r.violated} rc={r.rc}")
    uniq = {json.dumps(show_systems(x["h"])): x for x in r.printed if isinstance(x, dict) and "h" in x}
    # a history is judged at every query step, so one that is a prefix of another printed history need not be run alone
    keys = sorted(uniq)
    recs = [uniq[k] for k in keys if not any(o != k and o.startswith(k[:-1] + ",") for o in keys)]
    if not recs:
        raise MachineryError("PrivacySystems emitted no behaviour with a query")
    nontrivial = 0
    for n, rec in enumerate(recs):
        res = replay_systems(rec["h"])
        ctx.traces += 1
        nontrivial += sum(1 for st in rec["h"] if st["op"] == "new") > 1
        bad = [x for x in res if x["observed"] != x["expected"]]
        if bad:
            ctx.violation({"invariant": "OwnRulesOnly", "kind": "systems", "behaviour": rec["h"], "history": show_systems(rec["h"]),
                           "failed": bad, "expected": bad[0]["expected"], "observed": bad[0]["observed"],
                           "key": f"systems:{show_systems(rec['h'])}"})
        else:
            for x in res:
                if x["observed"] != x["spec"]:
                    ctx.drift_note({"kind": "systems", "history": show_systems(rec["h"]), **x})
        if n == len(recs) - 1:
            sample(ctx, {"kind": "systems", "history": show_systems(rec["h"]), "answers": [x["observed"] for x in res]})
    ctx.extra["systems_machine"] = {"MaxSystems": ms, "MaxSteps": steps, "histories_ending_in_a_query_each_replayed_in_a_forked_child": len(recs),
                                    "with_two_or_more_systems": nontrivial}
    r2 = ctx.tlc("PrivacySystems", SYS_CFG.format(ms=2, steps=4, sharing="defaultList", emit=""), workers=1, count=False, timeout=600)
    okc = "OwnRulesOnly" in r2.violated
    ctx.extra.setdefault("negative_control", {})["shared_default_rule_list_violates_model_invariant"] = okc
    if not okc:
        raise MachineryError("negative control (default rule list shared between Systems) was not rejected by TLC")
    r3 = ctx.tlc("PrivacySystems", SYS_CFG.format(ms=2, steps=4, sharing="classCache", emit=""), workers=1, count=False, timeout=600)
    okc = "OwnRulesOnly" in r3.violated
    ctx.extra["negative_control"]["one_answer_cache_for_all_live_systems_violates_model_invariant"] = okc
    if not okc:
        raise MachineryError("negative control (one answer cache shared by all live Systems) was not rejected by TLC")
    return nontrivial


# -------------------------------------------------------------------------------------------- check
def run(ctx: Ctx) -> int:
    rng = random.Random(ctx.seed)
    n5 = part_systems(ctx)            # first: forks are cheap while the process is small
    n1 = part_match(ctx, rng)
    n2 = part_rules(ctx, rng)
    n3 = part_build(ctx, rng)
    n4 = part_cache(ctx) + n5
    ctx.extra.pop("_sampled", None)
    ctx.exhaustive = True
    ctx.assumptions += [
        "a '-' that is neither first nor last inside [...] is ambiguous in the manual (range or literal): such patterns "
        "are evaluated and compared with the transcription (drift only) but excluded from the verdict",
        "modules named __main__ (always private) and objects whose kind is None (hidden) are code-level special cases "
        "outside the comparison; names made only of underscores are not enumerated",
        "the rule list does not change while a System is alive",
        "exhaustive within: patterns <= 4 (thorough 5) over 10 characters x names <= 3 over {a b .}; rule lists <= 2 "
        "(thorough 3); cache machine up to MaxMoves/MaxDepth; sampled above",
    ]
    return ctx.finish(
        rule="(pattern, name) pairs and (rule list, qualified name) pairs evaluated by the real code over the whole "
             "bounded space and judged row by row by TLC against QnMatch / PrivacyOf (PrivacyTable.tla); behaviours of "
             "PrivacyCache.tla (one per edge) replayed on a real System; non-trivial = pattern with a wildcard or set, "
             "non-empty rule list, behaviour with at least one reparent",
        distinct_nontrivial=n1 + n2 + n3 + n4)


# ------------------------------------------------------------------------------------------- replay
def replay(ctx: Ctx, path: str) -> int:
    w = json.load(open(path))
    bad: List[Any] = []
    if w.get("kind") == "match":
        names = w["names"]
        row = real_match_row(w["pattern"], names)
        if w["expected"] == "no error":
            if row["e"]:
                bad.append("re.error")
        else:
            for i, n in enumerate(names):
                if n in w["expected"] and ((i + 1) in row["m"]) != w["expected"][n]:
                    bad.append({n: (i + 1) in row["m"]})
    elif w.get("kind") == "sets":
        pos, neg = real_match_row("[" + w["body"] + "]", w["names"]), real_match_row("[!" + w["body"] + "]", w["names"])
        if pos["e"] != neg["e"] or (not pos["e"] and (set(pos["m"]) & set(neg["m"])
                                                     or set(pos["m"]) | set(neg["m"]) != set(range(1, len(w["names"]) + 1)))):
            bad.append({"pos": pos, "neg": neg})
        lit = [i + 1 for i, c in enumerate(w["names"]) if c in w["body"]]
        if not pos["e"] and "-" not in w["body"][1:-1] and pos["m"] != lit:
            bad.append({"pos": pos["m"], "expected": lit})
    elif w.get("kind") == "rules":
        rules = [tuple(r) for r in w["rules"]]
        got = real_rules_row(rules, w["names"])
        bad = [{n: g} for n, g, e in zip(w["names"], got, w["expected"]) if g != e]
    elif w.get("kind") == "build":
        names, res, _ = observe_build(ctx, [tuple(r) for r in w["rules"]], random.Random(w.get("seed", 0)))
        bad = sorted({(n, g) for n, g in zip(names, res) if n in w["expected"] and w["expected"][n] != g})
    elif w.get("kind") == "systems":
        bad = [x for x in replay_systems(w["behaviour"]) if x["observed"] != x["expected"]]
    elif w.get("kind") == "cache":
        bad = replay_behaviour(w["behaviour"], w.get("refs"))["bad"]
    else:
        raise MachineryError("unknown witness kind")
    print("replay:", f"still violated: {bad}" if bad else "holds now")
    if bad:
        print(f"VIOLATION property=C13 replay={path}")
    ctx.cleanup()
    return 1 if bad else 0
