"""
C01 - a run never aborts: any Python source tree is analysed and rendered to the end.

spec -> code : Lifecycle.tla (Source = "enum") enumerates small projects with the fault lattice (per file: parses / syntax
               error / null byte; per module docstring: none / fine / recoverable problem / fatal markup error; -W) and
               generates the complete run; each one is realised as a tree on disk, the real driver.main is run in-process
               under run-time wrappers and its recorded event list and exit status are compared with the model's.
code -> spec : runs of the real driver on trees that do not come from the spec - generated modules over the statement
               grammar, line/token mutations of pydoctor's own sources and test packages (many no longer parse), nasty
               docstrings under every docformat - are recorded as event traces and validated in batch by TLC
               (Source = "file"): a run is accepted iff it is a complete life cycle ending in Exit(c), c = the documented
               status for the observed counters.  An uncaught exception / timeout is an event no action accepts.
Verdict      : on every observed run (Python side): no exception, no timeout, exit status in {0,2,3} and equal to the
               documented function of (-W, problems counted, parse errors), every module left UNPROCESSED-free, every
               unparsable file named in a message, index/summary/search/inventory files and one page per visible
               own-page object present.
"""
from __future__ import annotations

import concurrent.futures as cf
import json
import os
import random
import shutil
import signal
import sys
import tempfile
import traceback
from pathlib import Path
from typing import Sequence, Any, Dict, List, Optional, Tuple

from ..core import Ctx, MachineryError, chunks, NCPU
from ..projects import waiting_modules as P_waiting
from .. import pygen

CFG_ENUM = """SPECIFICATION Spec
CONSTANTS Source = "enum"
          MaxMods = {maxn}
CONSTRAINT EmitEnum
INVARIANT ExitIsDocumented
INVARIANT NobodyLeftBehind
INVARIANT UnparsableIsolated
PROPERTY AlwaysEnds
"""
CFG_FILE = """SPECIFICATION Spec
CONSTANTS Source = "file"
          MaxMods = 0
CONSTRAINT Accept
POSTCONDITION Post
"""
DOCFORMATS = ["epytext", "restructuredtext", "google", "numpy", "plaintext"]
NASTY = [
    "Plain words.", "L{unclosed", "Bad } brace.", "@param nothere: x", "*emph", "``code", ":param x: y\n:type: z", "Args:\n  x (int: broken",
    "Parameters\n----------\nx : int\n  desc\n\nReturns\n-----", "tab\there \x0b vertical \x0c formfeed", "nul-free control \x01\x02\x7f",
    "unicode \u2028 line sep \ufeff bom \U0001f600", "lone \\ud800 surrogate", "<b>html</b> &amp; &#60; ]]> -->",
    "    indented\n  weird\n      more\n", ">>> doctest(\n... broken", "- list\n - nested\n- x\n  @return: in list", "L{a.b.c} L{..} L{} C{} U{}",
    "See `undefined`_ and |subst| and [1]_", ".. raw:: html\n\n   <x>", ".. include:: /etc/passwd", "@type x: L{int", "=====\nTitle\n===", "x" * 3000,
]


# -------------------------------------------------------------------------------- one observed run (worker side)
class RunTimeout(BaseException):
    """The run did not end within the time the harness gives it."""


def observed_run(roots: List[str], out: str, docformat: str, W: bool, timeout: int = 120, extra: Sequence[str] = ()) -> Dict[str, Any]:
    """Run the real driver.main in this process under run-time wrappers; returns the event trace and observations."""
    import io
    import contextlib
    from pydoctor import driver, model, sphinx
    from pydoctor.templatewriter import writer as tw

    ev: List[Dict[str, Any]] = []
    st: Dict[str, Any] = {"system": None, "order": {}, "msgs": []}
    o_pm, o_pp, o_bm = model.System.processModule, model.System.postProcess, model.SystemBuilder.buildModules
    o_sum, o_one, o_inv, o_msg = (tw.TemplateWriter.writeSummaryPages, tw.TemplateWriter._writeDocsForOne,
                                  sphinx.SphinxInventoryWriter.generate, model.System.msg)

    def bm(self):
        st["system"] = self.system
        for i, m in enumerate(P_waiting(self.system), 1):
            st["order"][id(m)] = i
        ev.append({"k": "discover", "m": len(P_waiting(self.system))})
        return o_bm(self)

    def pm(self, mod):
        i = st["order"].get(id(mod), 0)
        ev.append({"k": "start", "m": i})
        try:
            return o_pm(self, mod)
        finally:
            ev.append({"k": "finish" if mod.state.name == "PROCESSED" else "parse_failed", "m": i})

    def pp(self):
        ev.append({"k": "postprocess", "m": 0})
        return o_pp(self)

    def su(self, system):
        ev.append({"k": "summary", "m": 0})
        return o_sum(self, system)

    def one(self, ob, fobj):
        ev.append({"k": "page", "m": ob.fullName()})
        return o_one(self, ob, fobj)

    def inv(self, subjects, basepath):
        ev.append({"k": "inventory", "m": 0})
        return o_inv(self, subjects, basepath)

    def msg(self, section, msg, thresh=0, topthresh=100, nonl=False, wantsnl=True, once=False):
        st["msgs"].append(msg)
        return o_msg(self, section, msg, thresh, topthresh, nonl, wantsnl, once)

    model.System.processModule, model.System.postProcess, model.SystemBuilder.buildModules = pm, pp, bm
    tw.TemplateWriter.writeSummaryPages, tw.TemplateWriter._writeDocsForOne = su, one
    sphinx.SphinxInventoryWriter.generate, model.System.msg = inv, msg
    res: Dict[str, Any] = {"exception": "", "code": None}

    def on_alarm(signum, frame):
        # not an Exception: the broad handlers around docstring parsing must not swallow it; the timer keeps firing for the same reason
        raise RunTimeout("run exceeded the harness timeout")

    old = signal.signal(signal.SIGALRM, on_alarm)
    signal.setitimer(signal.ITIMER_REAL, timeout, 2)
    args = [f"--html-output={out}", f"--docformat={docformat}", "--project-name=proj", "--quiet", "--quiet", *extra, *roots]
    if W:
        args.insert(0, "--warnings-as-errors")
    buf = io.StringIO()
    try:
        with contextlib.redirect_stdout(buf), contextlib.redirect_stderr(buf):
            try:
                res["code"] = driver.main(args)
            except SystemExit as e:
                res["exception"] = f"SystemExit({e.code})"
            except BaseException as e:            # the thing the property forbids
                res["exception"] = f"{type(e).__name__}: {e}"
                res["traceback"] = traceback.format_exc()[-1500:]
    finally:
        signal.setitimer(signal.ITIMER_REAL, 0)
        signal.signal(signal.SIGALRM, old)
        model.System.processModule, model.System.postProcess, model.SystemBuilder.buildModules = o_pm, o_pp, o_bm
        tw.TemplateWriter.writeSummaryPages, tw.TemplateWriter._writeDocsForOne = o_sum, o_one
        sphinx.SphinxInventoryWriter.generate, model.System.msg = o_inv, o_msg
    system = st["system"]
    n = len(st["order"])
    if res["code"] is not None and system is not None:
        ev.append({"k": "exit", "m": [res["code"], system.violations > 0, any(system.parse_errors.values())]})
    elif res["exception"]:
        ev.append({"k": "exception", "m": res["exception"][:80]})
    res.update({"n": n, "W": W, "ev": ev})
    # ---- observations for the Python-side verdict
    problems: List[str] = []
    if system is not None and not res["exception"]:
        from pydoctor import model as M
        left = [m.fullName() for m in system.allobjects.values() if isinstance(m, M.Module) and m.state.name == "UNPROCESSED"]
        if left:
            problems.append(f"ModulesLeftUnprocessed:{left[:3]}")
        allmsgs = "\n".join(st["msgs"])
        for m in system.allobjects.values():
            if isinstance(m, M.Module) and m.state.name == "PROCESSING" and m.source_path is not None and str(m.source_path) not in allmsgs:
                problems.append(f"UnparsableFileNotNamed:{m.source_path}")
        outp = Path(out)
        for f in ("index.html", "searchindex.json", "fullsearchindex.json", "all-documents.html", "objects.inv",
                  "classIndex.html", "moduleIndex.html", "nameIndex.html"):
            if not (outp / f).exists():
                problems.append(f"MissingFile:{f}")

        def walk(o: Any) -> None:
            if not o.isVisible:
                return
            if o.documentation_location is M.DocLocation.OWN_PAGE:
                from urllib.parse import unquote
                u = unquote(o.url.split("#")[0])          # the page is written under the name its url designates
                if not (outp / u).exists():
                    problems.append(f"MissingPage:{o.fullName()}")
            for c in o.contents.values():
                walk(c)
        for r in system.rootobjects:
            walk(r)
        if res["code"] not in (0, 2, 3):
            problems.append(f"UndocumentedExitStatus:{res['code']}")
    res["problems"] = problems
    res["messages_tail"] = st["msgs"][-3:]
    return res


def _worker(job: Dict[str, Any]) -> Dict[str, Any]:
    d = Path(tempfile.mkdtemp(prefix="c01-", dir=job["scratch"]))
    try:
        src = d / "src"
        src.mkdir()
        roots = job.get("roots")
        for rel, content in job["files"].items():
            p = src / rel if roots else src / "pk" / rel
            p.parent.mkdir(parents=True, exist_ok=True)
            if isinstance(content, dict) and "symlink" in content:
                os.symlink(content["symlink"], p)
            elif isinstance(content, str):
                p.write_text(content, encoding="utf-8", errors="surrogateescape")
            else:
                p.write_bytes(bytes(content))
        r = observed_run([str(src / x) for x in (roots or ["pk"])], str(d / "out"), job["docformat"], job["W"], extra=job.get("extra") or ())
        r["job"] = {k: v for k, v in job.items() if k != "scratch"}
        return r
    finally:
        shutil.rmtree(d, ignore_errors=True)


def run_jobs(ctx: Ctx, jobs: List[Dict[str, Any]]) -> List[Dict[str, Any]]:
    for j in jobs:
        j["scratch"] = str(ctx.scratch)
    workers = min(NCPU, 12)
    with cf.ProcessPoolExecutor(max_workers=workers) as ex:
        return list(ex.map(_worker, jobs, chunksize=4))


# ------------------------------------------------------------------------------------------ inputs
def enum_files(rec: Dict[str, Any]) -> Dict[str, Any]:
    names = ["__init__", "ma", "mb", "mc"]
    files: Dict[str, Any] = {}
    for i in range(rec["n"]):
        doc = {"none": "", "good": '"""Fine text."""\n', "warn": '"""See L{nonexistent_thing_xyz}."""\n',
               "fatal": '"""Bad } brace."""\n'}[rec["doc"][i]]
        qn = ["pk", "pk.ma", "pk.mb", "pk.mc"]
        j = (rec.get("imp") or [0] * rec["n"])[i]
        body = doc + ("" if not j else "import pk\n" if j == 1 else f"from {qn[j - 1]} import f as imported\n") + "def f():\n    pass\n"
        if rec["fault"][i] == "syntax":
            body = "def broken(:\n    pass\n"
        elif rec["fault"][i] == "nullbyte":
            body = "x = 1\n\0\ny = 2\n"
        files[names[i] + ".py"] = body
    return files


def mutate(src: str, rng: random.Random) -> str:
    lines = src.split("\n")
    for _ in range(rng.randint(1, 3)):
        if not lines:
            break
        op = rng.choice(["del", "dup", "swap", "char", "trunc", "indent", "join", "tok"])
        i = rng.randrange(len(lines))
        if op == "del":
            del lines[i]
        elif op == "dup":
            lines.insert(i, lines[i])
        elif op == "swap" and len(lines) > 1:
            j = rng.randrange(len(lines))
            lines[i], lines[j] = lines[j], lines[i]
        elif op == "char":
            s = lines[i]
            k = rng.randrange(len(s) + 1)
            lines[i] = s[:k] + rng.choice(list("()[]{}:'\"\\#@,.=*\t \0\x0c") + ["'''", '"""', "lambda", "\u00e9"]) + s[k:]
        elif op == "trunc":
            lines = lines[: max(1, i)]
        elif op == "indent":
            lines[i] = "    " + lines[i]
        elif op == "join" and i + 1 < len(lines):
            lines[i] = lines[i] + lines.pop(i + 1)
        elif op == "tok":
            toks = lines[i].split(" ")
            rng.shuffle(toks)
            lines[i] = " ".join(toks)
    return "\n".join(lines)


def source_pool() -> List[Tuple[str, str]]:
    import pydoctor
    base = Path(pydoctor.__file__).parent
    out: List[Tuple[str, str]] = []
    for p in sorted(base.glob("*.py")) + sorted((base / "test" / "testpackages").rglob("*.py")) + sorted((base / "extensions").glob("*.py")):
        try:
            t = p.read_text()
        except Exception:
            continue
        if 0 < len(t) < 40000:
            out.append((p.name, t))
    return out


def random_jobs(rng: random.Random, count: int) -> List[Dict[str, Any]]:
    pool = source_pool()
    jobs: List[Dict[str, Any]] = []
    for k in range(count):
        kind = rng.choice(["pygen", "mutant", "mutant", "docstrings"])
        files: Dict[str, Any] = {"__init__.py": ""}
        if kind == "pygen":
            for j in range(rng.randint(1, 3)):
                files[f"g{j}.py"] = pygen.gen_module(rng, depth=3, max_stmts=4)
        elif kind == "mutant":
            for j in range(rng.randint(1, 2)):
                name, text = rng.choice(pool)
                files[f"x{j}_{name}"] = mutate(text, rng) if rng.random() < 0.85 else text
            if rng.random() < 0.3:
                files["__init__.py"] = mutate(rng.choice(pool)[1], rng)
        else:
            parts = []
            for j in range(rng.randint(2, 6)):
                doc = rng.choice(NASTY)
                if rng.random() < 0.3:
                    doc = mutate(doc + "\n" + rng.choice(NASTY), rng)
                where = rng.choice(["func", "class", "attr", "method"])
                lit = repr(doc)
                if where == "func":
                    parts.append(f"def f{j}(x, y=1):\n    {lit}\n")
                elif where == "class":
                    parts.append(f"class C{j}:\n    {lit}\n")
                elif where == "attr":
                    parts.append(f"v{j} = {j}\n{lit}\n")
                else:
                    parts.append(f"class K{j}:\n    def m(self, a):\n        {lit}\n")
            files["d.py"] = repr(rng.choice(NASTY)) + "\n" + "\n".join(parts)
        jobs.append({"kind": kind, "files": files, "docformat": rng.choice(DOCFORMATS), "W": rng.random() < 0.4, "id": k})
    return jobs


# ------------------------------------------------------------------------------------------- check
def judge(ctx: Ctx, r: Dict[str, Any], origin: str) -> List[str]:
    bad: List[str] = []
    if r["exception"]:
        bad.append("NoUncaughtException" if "RunTimeout" not in r["exception"] else "Terminates")
    bad += [p.split(":")[0] for p in r["problems"]]
    if not r["exception"] and r["code"] is not None:
        last = r["ev"][-1]
        expected = 3 if (r["W"] and last["m"][1]) else (2 if last["m"][2] else 0)
        if r["code"] != expected:
            bad.append("ExitStatusIsTheDocumentedFunction")
    if bad:
        where = (r.get("traceback") or "").strip().splitlines()
        site = next((ln.strip() for ln in reversed(where) if ln.strip().startswith("File ") and "pydoctor" in ln), "")
        ctx.violation({"invariant": bad[0], "failed": sorted(set(bad)), "origin": origin, "exception": r["exception"],
                       "traceback": r.get("traceback", ""), "problems": r["problems"], "job": r["job"],
                       "key": f"{sorted(set(bad))}:{r['exception'].split(':')[0]}:{site[-90:]}"})
    return bad


def kf_index_collision(w: Dict[str, Any]) -> bool:
    """Known finding: several roots, one of them a module or package named 'index': its page and the project index (IndexPage) want
    the same file name index.html, the module's page is written last.  Matches only IndexIsTheIndex in a complete run whose roots
    are several and include 'index'."""
    if w.get("failed") != ["IndexIsTheIndex"] or not w.get("collision"):
        return False
    h = w.get("origin", {}).get("history") or []
    k = w.get("run", 0)
    return 0 < k <= len(h) and len(h[k - 1]["roots"]) > 1 and "index" in h[k - 1]["roots"] and h[k - 1]["mode"] == "full"


def ast_depth(src: str) -> int:
    """Nesting depth of the AST, computed without recursion (0 if the text does not parse)."""
    import ast
    try:
        tree = ast.parse(src)
    except BaseException:
        return 0
    best, stack = 0, [(tree, 1)]
    while stack:
        node, d = stack.pop()
        best = max(best, d)
        stack.extend((c, d + 1) for c in ast.iter_child_nodes(node))
    return best


def kf_deep_expression(w: Dict[str, Any]) -> bool:
    """Known finding: a source file that CPython compiles but whose expression nesting exceeds the interpreter's recursion
    limit for Python-level recursive AST walkers (astutils.Parentage, ast.NodeVisitor...)."""
    if not w.get("exception", "").startswith("RecursionError"):
        return False
    return any(isinstance(t, str) and ast_depth(t) >= 300 for t in w["job"]["files"].values())


def kf_import_chain(w: Dict[str, Any]) -> bool:
    """Known finding: a chain of more than ~100 modules each importing the next one is analysed recursively
    (getProcessedModule -> processModule -> ...), so the interpreter's recursion limit is reached."""
    import re
    if not w.get("exception", "").startswith("RecursionError"):
        return False
    chain = sum(1 for t in w["job"]["files"].values() if isinstance(t, str) and re.match(r"from \.\w+ import \w+\n", t))
    return chain >= 100


def kf_long_name(w: Dict[str, Any]) -> bool:
    """Known finding: pages are named after the qualified name of the object; a class or module whose qualified name plus '.html'
    is longer than the file system allows for one file name (255 bytes) cannot be written: OSError ENAMETOOLONG."""
    import re
    exc = w.get("exception", "")
    if not (exc.startswith("OSError") and "File name too long" in exc):
        return False
    return any(isinstance(t, str) and re.search(r"\bclass\s+\w{200,}", t) for t in w["job"]["files"].values()) or \
        any(len(Path(rel).stem) >= 200 for rel in w["job"]["files"])


def run(ctx: Ctx) -> int:
    rng = random.Random(ctx.seed)
    ctx.register_matcher("page-file-name-too-long", kf_long_name)
    ctx.register_matcher("expression-nested-deeper-than-recursion-limit", kf_deep_expression)
    ctx.register_matcher("import-chain-deeper-than-recursion-limit", kf_import_chain)
    # ---- spec -> code
    r = ctx.tlc("Lifecycle", CFG_ENUM.format(maxn=2 if ctx.quick else 3), workers="auto", check=True, coverage=ctx.quick, timeout=1800)
    ctx.extra["design_level"] = {"violated": r.violated}
    recs = r.printed
    if ctx.quick:
        recs = [x for i, x in enumerate(recs) if i % 2 == 0]
    jobs = [{"kind": "enum", "files": enum_files(rec), "docformat": "epytext", "W": rec["W"], "id": i} for i, rec in enumerate(recs)]
    outs = run_jobs(ctx, jobs)
    mism = 0
    for rec, o in zip(recs, outs):
        ctx.traces += 1
        judge(ctx, o, "enum")
        names = {"proj": 1, "pk": 1, "pk.ma": 2, "pk.mb": 3, "pk.mc": 4}
        real = [[e["k"], names.get(e["m"], e["m"]) if e["k"] == "page" else e["m"]] for e in o["ev"]]
        spec = [[e["k"], e["m"]] for e in rec["events"]]
        if real != spec:
            mism += 1
            ctx.drift_note({"cfg": {k: rec[k] for k in ("n", "fault", "doc", "W", "imp")}, "spec": spec, "real": real})
    ctx.extra["enum_behaviours"] = len(recs)
    ctx.extra["enum_mismatches"] = mism
    ctx.exhaustive = not ctx.quick
    if r.coverage:
        ctx.extra["actions_never_taken"] = [a for a, c in r.coverage.items() if c == 0 and a[0].isupper() and a not in ("Init", "InitFile", "NextFile")]
    # ---- code -> spec
    count = 70 if ctx.quick else 5000
    rjobs = random_jobs(rng, count)
    routs = run_jobs(ctx, rjobs)
    traces = []
    stats = {"runs": 0, "with_unparsable_file": 0, "exit0": 0, "exit2": 0, "exit3": 0, "exceptions": 0}
    for o in routs:
        stats["runs"] += 1
        judge(ctx, o, o["job"]["kind"])
        if any(e["k"] == "parse_failed" for e in o["ev"]):
            stats["with_unparsable_file"] += 1
        if o["exception"]:
            stats["exceptions"] += 1
        elif o["code"] in (0, 2, 3):
            stats[f"exit{o['code']}"] += 1
        traces.append({"n": max(o["n"], 1), "W": o["W"], "ev": o["ev"]})
    ctx.extra["random_runs"] = stats
    # ---- adversarial corpus (hand-written seams), every case under several docformats
    from .. import adversarial, adversarial2, adversarial3, adversarial4
    fmts = ["epytext", "restructuredtext", "google"] if ctx.quick else DOCFORMATS
    ajobs = [{"kind": "adversarial:" + c["name"], "files": c["files"], "roots": c["roots"], "docformat": f, "W": (i % 2 == 1), "id": i, "extra": c.get("extra")}
             for c in adversarial.cases() + adversarial2.cases2() + adversarial3.cases3() + adversarial4.cases4() for i, f in enumerate(fmts)]
    aouts = run_jobs(ctx, ajobs)
    astats = {"runs": 0, "exceptions": 0}
    for o in aouts:
        astats["runs"] += 1
        if judge(ctx, o, o["job"]["kind"]):
            astats["exceptions"] += 1
        traces.append({"n": max(o["n"], 1), "W": o["W"], "ev": o["ev"]})
        routs.append(o)
    ctx.extra["adversarial_runs"] = astats
    rejected = 0
    for off, batch in enumerate(chunks(traces, 400)):
        f = ctx.scratch / f"lc_{off}.json"
        f.write_text(json.dumps(batch))
        rt = ctx.tlc("Lifecycle", CFG_FILE, workers=1, env={"TRACE_FILE": str(f)}, check=True, timeout=1800)
        acc = set(rt.printed[-1]["accepted"])
        for i, t in enumerate(batch, 1):
            ctx.traces += 1
            o = routs[off * 400 + i - 1]
            if i not in acc:
                rejected += 1
                # TLC is the acceptor: a run without exception whose trace is not a complete life cycle of Lifecycle.tla
                # (a page written twice, a step out of order, a wrong exit status) violates the property
                if not o["exception"]:
                    ctx.violation({"invariant": "LifecycleTraceAccepted", "origin": o["job"]["kind"], "job": o["job"],
                                   "exception": "", "traceback": "", "problems": o["problems"], "failed": ["LifecycleTraceAccepted"],
                                   "events": [[e["k"], e["m"]] for e in t["ev"]][-16:],
                                   "key": "rejected:" + o["job"]["kind"].split(":")[0] + ":" + str([e["k"] for e in t["ev"]][-4:])})
    ctx.extra["traces_rejected_by_tlc"] = rejected
    if routs:
        o = routs[0]
        ctx.sample({"kind": o["job"]["kind"], "docformat": o["job"]["docformat"], "W": o["W"], "files": list(o["job"]["files"]),
                    "events": [[e["k"], e["m"]] for e in o["ev"]][:14], "exit": o["code"]})
    # ---- histories of runs into one output directory (OutDir.tla, every history replayed)
    from .. import outdircheck
    ctx.register_matcher("root-module-named-index-among-several-roots", kf_index_collision)
    if ctx.quick:
        ctx.extra["outdir"] = outdircheck.run(ctx, 2, [["a"], ["a", "b"], ["index"]], ["full", "summary", "subject"], ["link", "pages"])
        one = outdircheck.run(ctx, 1, [["index", "b"]], ["full", "summary"], [], negative=False)
    else:
        ctx.extra["outdir"] = outdircheck.run(ctx, 2, [["a"], ["b"], ["a", "b"], ["index"], ["index", "b"]], ["full", "summary", "subject"],
                                              ["summ", "link", "pages", "inv"])
        one = outdircheck.run(ctx, 3, [["a"], ["a", "b"], ["index"]], ["full", "summary", "subject"], ["link", "pages"])
    ctx.extra["outdir"] = {k: v + one[k] for k, v in ctx.extra["outdir"].items()}
    # what is asked for: neither option (pages and inventory), --make-html (the same: it implies the inventory), --make-intersphinx alone
    one = outdircheck.run(ctx, 2, [["a"], ["a", "b"]], ["full", "summary"], ["pages"] if ctx.quick else ["link", "pages", "inv"], negative=False,
                          outputs=["both", "html", "inv"])
    ctx.extra["outdir"] = {k: v + one[k] for k, v in ctx.extra["outdir"].items()}
    # ---- the template lookup over a history of additions (Templates.tla, every history replayed into TemplateLookup, a sample end to end)
    from .. import templatescheck
    if ctx.quick:
        ctx.extra["templates"] = templatescheck.run(ctx, 3, ["a.html", "A.HTML", "a.css", "d", "d/x.css", "D/x.css"], [0, 1, 2], 25)
    else:
        ctx.extra["templates"] = templatescheck.run(ctx, 4, ["a.html", "A.HTML", "a.css", "A.css", "d", "D", "d/x.css", "d/x.html"], [0, 1, 2], 400)
    # ---- negative control: a run cut before the inventory must be rejected by TLC
    good = next((t for t in traces if t["ev"] and t["ev"][-1]["k"] == "exit"), None)
    if good is None:
        raise MachineryError("no complete run recorded")
    cut = {"n": good["n"], "W": good["W"], "ev": [e for e in good["ev"] if e["k"] != "inventory"]}
    f = ctx.scratch / "neg.json"
    f.write_text(json.dumps([good, cut]))
    rn = ctx.tlc("Lifecycle", CFG_FILE, workers=1, env={"TRACE_FILE": str(f)}, check=True, count=False)
    acc = set(rn.printed[-1]["accepted"])
    ctx.extra["negative_control"] = {"complete_run_accepted": 1 in acc, "run_without_inventory_rejected": 2 not in acc}
    if acc != {1}:
        raise MachineryError(f"negative control failed: accepted={acc}")
    ctx.assumptions += ["totality over all Python programs is sampled (generated, mutated, unparsable trees x 5 docformats), decided per observed run",
                        "termination is a timeout observation (120 s per run)"]
    return ctx.finish(rule="run = one execution of driver.main on a tree; enumerated fault-lattice projects (TLC) + random/mutated trees; "
                           "non-trivial = the tree contains at least one module with statements or a fault",
                      distinct_nontrivial=len(recs) + stats["runs"])


def replay(ctx: Ctx, path: str) -> int:
    w = json.load(open(path))
    if w.get("origin", {}).get("family") == "templates":
        from .. import templatescheck
        bad = templatescheck.replay_witness(ctx, w["origin"]["history"])
        print("replay:", "still violated: " + ",".join(bad) if bad else "holds now")
        if bad:
            print(f"VIOLATION property=C01 replay={path}")
        ctx.cleanup()
        return 1 if bad else 0
    if w.get("origin", {}).get("family") == "outdir":
        from .. import outdircheck
        bad = outdircheck.replay_witness(ctx, w["origin"]["history"])
        print("replay:", "still violated: " + ",".join(bad) if bad else "holds now")
        if bad:
            print(f"VIOLATION property=C01 replay={path}")
        ctx.cleanup()
        return 1 if bad else 0
    job = dict(w["job"])
    job["scratch"] = str(ctx.scratch)
    o = _worker(job)
    n0 = len(ctx.violations)
    bad = judge(ctx, o, "replay")
    print("replay:", "still violated: " + ",".join(bad) + " " + o["exception"] if bad else "holds now")
    if bad:
        print(f"VIOLATION property=C01 replay={path}")
    ctx.cleanup()
    return 1 if bad else 0
