"""
C04 - a name resolves to what Python would bind it to, or not at all.

Reference  : PyBind.tla executes the abstract project the way the interpreter does (module namespaces, class
             namespaces, relative imports, star imports, sub-module attributes, aliases).
Model      : Processing.tla + Registry.tla (alias tables, expandName / resolveName transcription).
TLC        : for every project of the C04 family (every pair of import forms x module/class scope x sibling/nested
             consumer) and every admissible schedule, computes for every name bound at run time (and the dotted names
             reached through module values) the pair (PyBind value, model's Resolve) and checks
             ResolvesRightOrNot as an invariant (design level).
spec->code : every row is replayed: the real Documentable.resolveName in the real scope object of the real build of the
             same (project, schedule).  Verdict: real result in {reference, None}, and the two 'always resolves'
             clauses.  Model vs real = drift.
Validation : PyBind vs CPython importing the generated files (every bound name that is a project definition or
             module): a disagreement is a defect of the specification -> exit 2.
"""
from __future__ import annotations

import collections
import itertools
import json
import random
from typing import Any, Dict, List, Optional, Tuple

from ..core import Ctx, MachineryError, chunks
from .. import families, procrun
from .. import projects as P

CFG = """SPECIFICATION Spec
CONSTANTS Source = "file"
CONSTRAINT EmitNamesX
INVARIANT XRefDesign
"""


def c04_projects(quick: bool, rng: random.Random) -> List[Dict[str, Any]]:
    ps = list(families.t_c04())
    if quick:
        head, tail = ps[:-2], ps[-2:]
        ps = head[::5] + tail
    ps += list(families.t_c04_pkginit())
    ps += list(families.t_c04_class_members()) + list(families.t_c04_generations())
    ps += list(families.t8_prefix_roots()) + list(families.t14_two_roots_facade())
    ps += [p for p in families.t3_reexport() if p["meta"].get("idiom") in ("moved-module", "module-alias-handed-on", "names-inside-moved-class", "names-inside-twice-moved-class", "package-moved-to-another-depth", "moved-module-with-relative-imports", "reexporter-renamed-by-its-package")
           or (p["meta"].get("form") == "plain" and p["meta"].get("consumers") in (["o"], ["o2"], ["o", "r"]))]
    ps += list(families.t1_base_chains())[:: (6 if quick else 1)] + list(families.t6_nested_packages())
    ps += list(families.t15_rebinding()) + list(families.t_c04_cycles()) + list(families.t17_how_all_is_written())
    for p in families.rnd2_corpus(quick):
        if p["meta"].get("cyclic"):
            # what a name denotes depends on the module imported first: evaluate every entry order (rotations for larger projects)
            n = len(p["mods"])
            p["entries"] = [list(x) for x in itertools.permutations(range(1, n + 1))] if n <= 4 else \
                           [list(range(k, n + 1)) + list(range(1, k)) for k in range(1, n + 1)] + [list(range(n, 0, -1))]
        ps.append(p)
    ps += [p for p in families.t5_duplicates() if p["meta"].get("shape") == "move-then-redefine"]
    if not quick:
        ps += [families.random_project(rng, rng.randint(3, 5)) for _ in range(150)]
    return [p for p in ps if len(P.schedules(p)) <= 24]


def scope_obj(real: Dict[str, Any], proj: Dict[str, Any], key: List[int]) -> Any:
    system = real["system"]
    if key[1] == 0:
        return system.allobjects.get(".".join(P.mod_path(proj, key[0] - 1)))
    for k, e in real["dump"].items():
        if e["site"] == key and e["cls"] == "Class" and " " not in k:
            return system.allobjects[k]
    return None


def site_of_real(obj: Any, real: Dict[str, Any]) -> Optional[List[int]]:
    from pydoctor import model
    if obj is None:
        return None
    if isinstance(obj, model.Module):
        s = P.site_of(obj, real["modidx"])          # the module docstring carries the site (the module may have been moved)
        if s is not None:
            return s
        i = real["modidx"].get(obj.fullName())
        return [i, 0] if i else None
    return P.site_of(obj, real["modidx"])


def must_resolve(proj: Dict[str, Any]) -> Dict[Tuple[int, int, Tuple[str, ...]], str]:
    """Rows the property says ALWAYS resolve: a name imported directly from the module that defines the object,
       and a name reached through a module alias (import a.b [as c]; c.X)."""
    idx = P.module_index_by_qname(proj)
    out: Dict[Tuple[int, int, Tuple[str, ...]], str] = {}
    for mi, m in enumerate(proj["mods"], 1):
        scopes: List[int] = [0]
        for pc, op in enumerate(m["ops"], 1):
            if op["k"] == "class":
                scopes.append(pc)
            elif op["k"] == "endclass":
                scopes.pop()
            elif op["k"] == "from":
                tq = P.resolve_import_target(proj, mi, op["lvl"], op["m"])
                oi = idx.get(tq or "")
                if oi and op["orig"] in P.top_level_defs(proj, oi) and not proj["mods"][oi - 1]["broken"]:
                    out[(mi, scopes[-1], (op["as"],))] = "direct-import-from-defining-module"
            elif op["k"] == "import":
                oi = idx.get(".".join(op["m"]))
                if oi:
                    for n in P.top_level_defs(proj, oi):
                        name = (op["as"], n) if op["as"] else tuple(op["m"]) + (n,)
                        if len(name) <= 3:
                            out[(mi, scopes[-1], name)] = "module-alias"
    return out


def judge_rows(ctx: Ctx, proj: Dict[str, Any], sched: List[int], rows: List[Dict[str, Any]], real: Dict[str, Any],
               counters: Dict[str, int]) -> None:
    must = must_resolve(proj)
    # "reached through a module alias": any local name that denotes a project module (import a.b as c, from p import a,
    # from .hub import engine ...), followed by a name that module itself defines
    single = {(r["scope"][0], r["scope"][1], r["name"][0]): r["py"] for r in rows if len(r["name"]) == 1}
    for r in rows:
        if len(r["name"]) == 2:
            v = single.get((r["scope"][0], r["scope"][1], r["name"][0]))
            if v and v[1] == 0 and r["name"][1] in P.top_level_defs(proj, v[0]) and not proj["mods"][v[0] - 1]["broken"]:
                must.setdefault((r["scope"][0], r["scope"][1], tuple(r["name"])), "module-alias")
    # what the name denotes under each way of importing the project (one way for acyclic projects)
    refs: Dict[Tuple[int, int, Tuple[str, ...]], List[List[int]]] = collections.defaultdict(list)
    for r in rows:
        k0 = (r["scope"][0], r["scope"][1], tuple(r["name"]))
        if r["py"] not in refs[k0]:
            refs[k0].append(r["py"])
    seen_rows = set()
    n_entries = len({r.get("e", 1) for r in rows}) or 1
    for row in rows:
        k0 = (row["scope"][0], row["scope"][1], tuple(row["name"]))
        if k0 in seen_rows:
            continue
        seen_rows.add(k0)
        so = scope_obj(real, proj, row["scope"])
        if so is None:
            counters["scope_missing"] += 1
            continue
        name = ".".join(row["name"])
        got_obj = so.resolveName(name)
        got = site_of_real(got_obj, real)
        ref = row["py"]
        counters["rows"] += 1
        spec_res = row["res"] or None
        if got != spec_res:
            ctx.drift_note({"what": "resolve", "family": proj["family"], "meta": proj["meta"], "sched": sched,
                            "scope": row["scope"], "name": name, "spec": spec_res, "real": got})
        origin = {"family": proj["family"], **proj["meta"], "sched": sched, "project": procrun.strip(proj)}
        if got_obj is not None and got not in refs[k0]:
            ctx.violation({"invariant": "ResolvesRightOrNot", "scope": row["scope"], "name": name, "expected_site": ref, "expected_sites": refs[k0],
                           "got": repr(got_obj), "got_site": got, "origin": origin,
                           "key": f"wrong:{proj['family']}:{proj['meta'].get('forms')}:{proj['meta'].get('scope')}:{name}"})
        k = (row["scope"][0], row["scope"][1], tuple(row["name"]))
        # (random projects with an import cycle: pydoctor's own analysis order may enter the cycle where Python could not, and leave a
        #  name unresolved; the always-resolves clauses are evaluated on the acyclic ones and on the hand-made cyclic family)
        if got_obj is None and k in must and (n_entries == 1 or len(refs[k0]) == 1) and not (proj["family"] == "RND2" and proj["meta"].get("cyclic")):
            ctx.violation({"invariant": "AlwaysResolves(" + must[k] + ")", "scope": row["scope"], "name": name,
                           "expected_site": ref, "origin": origin,
                           "key": f"must:{proj['family']}:{proj['meta'].get('forms')}:{proj['meta'].get('scope')}:{proj['meta'].get('nested')}:{name}"})
        if got_obj is not None:
            counters["resolved"] += 1
        if k in must:
            counters["must_rows"] += 1


def key_of(fn: List[Dict[str, Any]]) -> str:
    """Registry key string of a qualified name printed by the spec ([b, d] components; d = i + 1 is 'name i')."""
    return ".".join(c["b"] if c["d"] == 0 else f"{c['b']} {c['d'] - 1}" for c in fn)


class _Reports:
    """Stands in for the linker's reporting object: counts 'ambiguous ref' / 'Cannot find link target' reports."""
    def __init__(self) -> None:
        self.amb = 0
        self.notfound = 0

    def report(self, descr: str, section: str = "", lineno_offset: int = 0, thresh: int = -1) -> None:
        if descr.startswith("ambiguous ref"):
            self.amb += 1
        elif descr.startswith("Cannot find link target"):
            self.notfound += 1


def judge_xrefs(ctx: Ctx, proj: Dict[str, Any], sched: List[int], xrefs: List[Dict[str, Any]], real: Dict[str, Any],
                counters: Dict[str, int]) -> None:
    """Linker.tla (extension of the specification, no listed property): every (context, identifier) row of the model is
       replayed into the real linker; a difference is reported in the evidence as xref_drift, never as a verdict."""
    from pydoctor import linker
    system = real["system"]
    for n, row in enumerate(xrefs):
        if ctx.quick and row["step"] in (1, 3) and row["amb"] == 0 and n % 6:
            continue                     # quick tier: every row of the DWIM steps, a sixth of the plain ones
        co = system.allobjects.get(key_of(row["ctx"]))
        if co is None:
            counters["xref_ctx_missing"] += 1
            continue
        lk = linker._EpydocLinker(co)
        rep = _Reports()
        lk.reporting_obj = rep          # type: ignore[assignment]
        ident = ".".join(row["name"])
        try:
            t = lk._resolve_identifier_xref(ident, 0)
            got = t if isinstance(t, str) else t.fullName()
        except LookupError:
            got = None
        want = key_of(row["t"]) if row["t"] else None
        counters["xref_rows"] += 1
        counters[f"xref_step{row['step']}"] += 1
        counters["xref_ambiguous"] += 1 if row["amb"] else 0
        if got != want or rep.amb != row["amb"] or (want is None) != (rep.notfound == 1):
            counters["xref_drift"] += 1
            if len(ctx.extra.setdefault("xref_drift_examples", [])) < 10:
                ctx.extra["xref_drift_examples"].append({"family": proj["family"], "meta": proj["meta"], "sched": sched, "ctx": key_of(row["ctx"]),
                                                         "name": ident, "spec": [want, row["amb"], row["step"]], "real": [got, rep.amb, rep.notfound]})


def kf_definition_then_import(w: Dict[str, Any]) -> bool:
    """Known finding: a name defined in a module (class / def / assignment) and LATER bound again by an import in the same
       scope: pydoctor's lookup prefers the members of the module over its import table whatever the order, so the name
       (seen from inside, through `from m import name` or through a module alias) leads to the shadowed definition."""
    if w.get("invariant") != "ResolvesRightOrNot" or not w.get("got_site"):
        return False
    mi, pc = w["got_site"]
    mods = w.get("origin", {}).get("project", {}).get("mods", [])
    if not (0 < mi <= len(mods)) or not (0 < pc <= len(mods[mi - 1]["ops"])):
        return False
    ops = mods[mi - 1]["ops"]
    d = ops[pc - 1]
    if d["k"] not in ("class", "def", "var") or d.get("ann"):
        return False
    depth = 0
    for op in ops[pc - 1:]:
        if op["k"] == "class":
            depth += 1
        elif op["k"] == "endclass":
            depth -= 1
        elif depth == 0 and op["k"] == "from" and op["as"] == d["n"]:
            return True
    return False


def kf_moved_then_redefined(w: Dict[str, Any]) -> bool:
    """Known finding: module R imports a name from module O, lists it in __all__ (so the object is moved to R) and LATER defines
       a class / function of the same name: the moved object is superseded ('R.name 0'), but the alias left in O still says
       'R.name', which is now the new definition: the name inside O, and every path through O, leads to R's own definition."""
    if w.get("invariant") != "ResolvesRightOrNot" or not w.get("got_site"):
        return False
    mods = w.get("origin", {}).get("project", {}).get("mods", [])
    ri, pc = w["got_site"]
    if not (0 < ri <= len(mods)) or not (0 < pc <= len(mods[ri - 1]["ops"])):
        return False
    R = mods[ri - 1]
    d = R["ops"][pc - 1]
    if d["k"] not in ("class", "def", "var") or d.get("ann") or not R["hasAll"] or d["n"] not in R["all"]:
        return False
    depth = 0
    for op in R["ops"][:pc - 1]:
        depth += 1 if op["k"] == "class" else -1 if op["k"] == "endclass" else 0
        if depth == 0 and op["k"] in ("from", "star") and (op["k"] == "star" or op["as"] == d["n"]):
            return True
    return False


def kf_multi_reexported(w: Dict[str, Any]) -> bool:
    """Known finding (same root cause as C06 base-reexported-by-several-modules): an object listed in __all__ by TWO importing modules
       is moved twice; the alias left in the defining module points at the intermediate location, so a name imported from the
       defining module does not resolve any more (it never resolves to a wrong object)."""
    if not str(w.get("invariant", "")).startswith("AlwaysResolves") or not w.get("expected_site"):
        return False
    proj = {**w.get("origin", {}).get("project", {}), "family": "", "meta": {}}
    if not proj.get("mods"):
        return False
    return list(w["expected_site"]) in [list(x["site"]) for x in P.expected_reexports(proj, multi=True)]


def kf_all_not_read(w: Dict[str, Any]) -> bool:
    """Known finding: a module whose __all__ is not ONE top-level assignment of a list / tuple literal (a concatenation, an
       assignment nested in an `if`) is read as having no __all__: a star import of it brings in every public name, also those
       Python leaves out, and a name the importing module had bound before is taken over by the star import.
       Matches only a name that resolved to an object DEFINED in such a module and NOT listed in its __all__, read in (or through)
       a module that star-imports it."""
    if w.get("invariant") != "ResolvesRightOrNot" or not w.get("got_site") or not w.get("scope"):
        return False
    proj = w.get("origin", {}).get("project", {})
    mods = proj.get("mods", [])
    li = w["got_site"][0]
    if not (0 < li <= len(mods)):
        return False
    L = mods[li - 1]
    if not L.get("hasAll") or L.get("allform") not in ("concat", "conditional"):
        return False
    op = L["ops"][w["got_site"][1] - 1] if 0 < w["got_site"][1] <= len(L["ops"]) else {}
    if op.get("n") in L["all"] or op.get("k") not in ("class", "def", "var"):
        return False
    lq = ".".join(P.mod_path(proj, li - 1))
    stars = [mi for mi, m in enumerate(mods, 1) if any(o["k"] == "star" and P.resolve_import_target(proj, mi, o["lvl"], o["m"]) == lq for o in m["ops"])]
    first = str(w.get("name", "")).split(".")[0]
    return bool(stars) and (w["scope"][0] in stars or any(mods[mi - 1]["name"] == first for mi in stars))


def kf_reexport_superseded(w: Dict[str, Any]) -> bool:
    """Known finding: an object re-exported into a package under a name that the package binds AGAIN further down (a second
       re-export, a star import, a definition): the newcomer takes the name, the moved object is set aside as 'name 0' - and the
       alias left in the module that defined it still reads 'pkg.name', which now designates the newcomer.  Matches only a name
       that should denote an object whose re-export is followed, in the re-exporting module, by another binding of the same name,
       and that resolved to the site of that later binding's object."""
    if w.get("invariant") != "ResolvesRightOrNot" or not w.get("expected_site") or not w.get("got_site"):
        return False
    proj = w.get("origin", {}).get("project", {})
    mods = proj.get("mods", [])
    mi, pc = w["expected_site"]
    if not (0 < mi <= len(mods)) or not (0 < pc <= len(mods[mi - 1]["ops"])):
        return False
    defined = mods[mi - 1]["ops"][pc - 1].get("n")
    eq = ".".join(P.mod_path(proj, mi - 1))
    for ri, R in enumerate(mods, 1):
        if not R.get("hasAll"):
            continue
        ops = R["ops"]
        for i, op in enumerate(ops):
            if op["k"] == "from" and op.get("orig") == defined and op["as"] in R["all"] and P.resolve_import_target(proj, ri, op["lvl"], op["m"]) == eq:
                later = [o for o in ops[i + 1:] if (o["k"] in ("class", "def", "var") and o.get("n") == op["as"]) or (o["k"] == "from" and o.get("as") == op["as"])
                         or o["k"] == "star"]
                if later:
                    return True
    return False


def kf_reexporter_renamed(w: Dict[str, Any]) -> bool:
    """Known finding (C07 reexporter-renamed-by-its-package): an object re-exported by a module that its package re-exports under
       another name: the alias left in the defining module names a location that is outdated itself, so a name imported directly from
       the defining module does not resolve.  Matches only a name that must resolve, denotes such an object, and is unresolved."""
    if not str(w.get("invariant", "")).startswith("AlwaysResolves") or not w.get("expected_site"):
        return False
    proj = w.get("origin", {}).get("project")
    if not proj:
        return False
    exp = P.expected_reexports({**proj, "family": "", "meta": {}})
    renamed = {e["new"] for e in exp if e["kind"] == "module"}
    return any(e["kind"] != "module" and e["site"] == list(w["expected_site"]) and any(e["new"].startswith(r + ".") for r in renamed) for e in exp)


def kf_nested_class_scope(w: Dict[str, Any]) -> bool:
    """Known finding: a bare name read in the body of a NESTED class is looked up in the enclosing class before the module
       (Class._localNameToFullName delegates to its parent, whatever the parent is); Python never looks in the enclosing class.
       Also matches the same name read back through the nested class (Outer.Inner.alias) from outside."""
    if w.get("invariant") != "ResolvesRightOrNot" or not w.get("got_site") or not w.get("scope"):
        return False
    mods = w.get("origin", {}).get("project", {}).get("mods", [])
    mi = w["got_site"][0]
    if not (0 < mi <= len(mods)):
        return False
    ops = mods[mi - 1]["ops"]
    stacks: Dict[int, List[int]] = {}          # class statement -> the classes open around it
    owner: Dict[int, int] = {}                 # statement -> the class it is a direct member of (0: module)
    open_: List[int] = []
    for pc, op in enumerate(ops, 1):
        owner[pc] = open_[-1] if open_ else 0
        if op["k"] == "class":
            stacks[pc] = list(open_)
            open_.append(pc)
        elif op["k"] == "endclass":
            open_.pop()
    parts = str(w.get("name", "")).split(".")
    if len(parts) == 1:
        readers = [w["scope"][1]] if w["scope"][0] == mi else []
    else:
        readers = [pc for pc, op in enumerate(ops, 1) if op["k"] == "class" and op["n"] == parts[-2]]
    got_owner = owner.get(w["got_site"][1])
    return any(stacks.get(r) and got_owner in stacks[r] for r in readers)


def check_pybind_vs_cpython(ctx: Ctx, proj: Dict[str, Any], rows: List[Dict[str, Any]], pid: int, invalid: List[int] = ()) -> int:
    """PyBind.tla against CPython importing the generated files, for every entry order of the project (one for acyclic projects).
       For cyclic projects the orders in which the interpreter raises must be exactly those PyBind marks invalid."""
    entries = proj.get("entries") or [list(range(1, len(proj["mods"]) + 1))]
    total = 0
    for e, order in enumerate(entries, 1):
        d = ctx.scratch / f"cpy_{pid}_{e}"
        d.mkdir()
        P.write_project(proj, d)
        o = P.cpython_oracle(proj, d, order if len(entries) > 1 else None)
        failed = "failed" in o or bool(o.get("errors"))
        if len(entries) > 1 and failed != (e in invalid):
            raise MachineryError(f"PyBind.tla and CPython disagree on whether {proj['family']} {proj['meta']} can be imported in the order {order}: "
                                 f"spec invalid={e in invalid}, CPython errors={o.get('errors') or o.get('failed')}")
        if failed:
            continue
        total += _compare_entry(proj, [r for r in rows if r.get("e", 1) == e], o, order)
    return total


def _compare_entry(proj: Dict[str, Any], rows: List[Dict[str, Any]], o: Dict[str, Any], order: List[int]) -> int:
    pb: Dict[Tuple[int, int], Dict[str, List[int]]] = collections.defaultdict(dict)
    for r in rows:
        if len(r["name"]) == 1 and not r.get("g"):      # (g: a module global seen from inside a class - not part of the class namespace)
            pb[(r["scope"][0], r["scope"][1])][r["name"][0]] = r["py"]
    idx = P.module_index_by_qname(proj)
    n = 0
    for key, ns in o["ns"].items():
        if key.startswith("m:"):
            sk = (idx[key[2:]], 0)
        else:
            s = json.loads(key[2:])
            sk = (s[0], s[1])
        cp = {name: ([t[1], 0] if t[0] == "mod" else [t[1], t[2]]) for name, t in ns.items() if t}
        # names reached through a class value (C.member along the MRO)
        pb2: Dict[str, Dict[str, List[int]]] = collections.defaultdict(dict)
        for r in rows:
            if len(r["name"]) == 2 and (r["scope"][0], r["scope"][1]) == sk and r["name"][0] in o.get("cattrs", {}).get(key, {}):
                pb2[r["name"][0]][r["name"][1]] = r["py"]
        for cname, attrs in o.get("cattrs", {}).get(key, {}).items():
            cp2 = {a: ([t[1], 0] if t[0] == "mod" else [t[1], t[2]]) for a, t in attrs.items() if t}
            if cp2 != pb2.get(cname, {}):
                raise MachineryError(f"PyBind.tla (class attribute lookup) disagrees with CPython for {cname} in scope {sk} of "
                                     f"{proj['family']} {proj['meta']} (order {order}): spec {pb2.get(cname, {})} vs CPython {cp2}")
            n += len(cp2)
        if cp != pb.get(sk, {}):
            raise MachineryError(f"PyBind.tla disagrees with CPython in scope {sk} of project {proj['family']} {proj['meta']} (order {order}): "
                                 f"spec {pb.get(sk, {})} vs CPython {cp}")
        n += len(cp)
    return n


def run(ctx: Ctx) -> int:
    rng = random.Random(ctx.seed)
    ctx.register_matcher("definition-then-import-of-same-name", kf_definition_then_import)
    ctx.register_matcher("reexported-then-redefined-in-reexporter", kf_moved_then_redefined)
    ctx.register_matcher("object-reexported-by-several-modules-unresolved", kf_multi_reexported)
    ctx.register_matcher("nested-class-sees-enclosing-class-names", kf_nested_class_scope)
    ctx.register_matcher("all-not-one-literal-read-as-absent", kf_all_not_read)
    ctx.register_matcher("reexported-by-a-renamed-module-unresolved", kf_reexporter_renamed)
    ctx.register_matcher("reexported-then-superseded-alias-names-the-newcomer", kf_reexport_superseded)
    projs = c04_projects(ctx.quick, rng)
    counters: Dict[str, int] = collections.Counter()
    validated_names = 0
    seen_pid = set()
    design = []
    for off, part in enumerate(chunks(projs, 150)):
        pf = ctx.scratch / f"p_{off}.json"
        pf.write_text(json.dumps([procrun.strip(p) for p in part]))
        r = ctx.tlc("Processing", CFG, workers="auto", env={"PROJECT_FILE": str(pf)}, check=True, timeout=2400)
        design += r.violated
        expected = sum(len(P.schedules(p)) for p in part)
        if len(r.printed) != expected:
            raise MachineryError(f"TLC printed {len(r.printed)} behaviours, expected {expected}")
        for rec in r.printed:
            design += ["ResolvesRightOrNot"] if any(row["res"] and row["res"] != row["py"] for row in rec["rows"]) else []
            proj = part[rec["pid"] - 1]
            gp = off * 150 + rec["pid"]
            if gp not in seen_pid:
                seen_pid.add(gp)
                validated_names += check_pybind_vs_cpython(ctx, proj, rec["rows"], gp, rec.get("invalid", []))
            real = P.real_build(proj, rec["sched"], ctx.scratch)
            ctx.traces += 1
            judge_rows(ctx, proj, rec["sched"], rec["rows"], real, counters)
            judge_xrefs(ctx, proj, rec["sched"], rec["xrefs"], real, counters)
            if len(ctx.samples) < 3 and rec["rows"]:
                ctx.sample({"family": proj["family"], "meta": proj["meta"], "sched": rec["sched"], "rows": rec["rows"][:8]})
    ctx.extra["projects"] = len(projs)
    ctx.extra["design_level_invariants_violated"] = sorted(set(design))
    ctx.extra["counters"] = dict(counters)
    ctx.extra["pybind_names_validated_against_cpython"] = validated_names
    if counters["rows"] == 0 or counters["must_rows"] == 0 or validated_names == 0:
        raise MachineryError(f"vacuous run: {dict(counters)} validated={validated_names}")
    if counters["xref_drift"]:
        ctx.notes.append(f"Linker.tla (cross-reference search, no listed property): {counters['xref_drift']} of {counters['xref_rows']} rows differ between "
                         "model and code - see xref_drift_examples")
    ctx.extra["negative_control"] = "PyBind/CPython comparison raises on any differing binding; wrong-object detection exercised by mutants/C04"
    ctx.exhaustive = True
    ctx.assumptions += ["projects are acyclic, definitions have globally unique names, one binding per name per scope (the property's quantifier)",
                        "PyBind.tla is validated against CPython on every enumerated project; classes/functions are identified by definition-site markers in their docstrings"]
    return ctx.finish(rule="row = (project, schedule, scope, bound name or dotted name through a module value); TLC computes PyBind and the "
                           "model's Resolve for every row, the real resolveName is evaluated for every row; non-trivial = rows whose name is bound by an import or alias",
                      distinct_nontrivial=counters["rows"])


def replay(ctx: Ctx, path: str) -> int:
    w = json.load(open(path))
    o = w["origin"]
    proj = {**o["project"], "family": o.get("family", ""), "meta": {}}
    real = P.real_build(proj, o["sched"], ctx.scratch)
    so = scope_obj(real, proj, w["scope"])
    got = so.resolveName(w["name"]) if so is not None else None
    gs = site_of_real(got, real)
    bad = (got is not None and gs != w["expected_site"]) or (got is None and w["invariant"].startswith("AlwaysResolves"))
    print("replay:", f"still violated (resolves to {got!r})" if bad else "holds now")
    if bad:
        print(f"VIOLATION property=C04 replay={path}")
    ctx.cleanup()
    return 1 if bad else 0
