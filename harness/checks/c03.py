"""
C03 - what is documented in each namespace is what Python defines there.

TLC enumerates every statement tree up to MaxN statements (Builder.tla) and evaluates both the reference PyExec
(the namespaces the interpreter builds) and Documented (the transcription of the AST builder); each program is
rendered to source, built by the real ASTBuilder and executed by CPython:
    verdict     real builder  = PyExec   (names, winner definition, kind, docstring, literal type)
    conformance real builder  = Documented (drift)
    validation  CPython       = PyExec   (a disagreement is a defect of the spec: exit 2)
"""
from __future__ import annotations

import ast
import inspect
import json
import random
import subprocess
import sys
from typing import Any, Dict, List, Optional, Tuple

from ..core import Ctx, MachineryError, chunks, tla

KINDS = ["docstr", "def", "adef", "cm", "sm", "prop", "setter", "class", "exc", "assign", "oldcm", "oldsm", "if", "ifmain", "try", "with", "for", "while", "mivar", "mivard", "del", "ifelse", "tryelse", "tryexcept", "finally", "forelse"]
CFG = """SPECIFICATION Spec
CONSTANTS MaxN = {maxn}
  Names = {names}
  KindSet = {kinds}
CONSTRAINT Emit
"""
DEFK = {"def", "adef", "cm", "sm", "prop", "setter"}
ELSEK = {"ifelse", "tryelse", "tryexcept", "finally", "forelse"}


# ------------------------------------------------------------------------------------------ rendering
def literal(i: int) -> str:
    return [f"{i}", f"'s{i}'", f"[{i}]", f"({i},)", f"{{{i}: 0}}", f"{i}.5"][i % 6]


def lit_id(v: Any) -> Optional[int]:
    try:
        if isinstance(v, bool):
            return None
        if isinstance(v, int):
            return v
        if isinstance(v, str) and v.startswith("s"):
            return int(v[1:])
        if isinstance(v, (list, tuple)) and len(v) == 1:
            return int(v[0])
        if isinstance(v, dict) and len(v) == 1:
            return int(next(iter(v)))
        if isinstance(v, float):
            return int(v - 0.5)
    except (ValueError, TypeError):
        return None
    return None


def docstring_lines(i: int, sp: str) -> List[str]:
    lay = i % 3
    if lay == 0:
        return [f"{sp}'''site:{i}'''"]
    if lay == 1:
        return [f"{sp}'''site:{i}", f"{sp}    indented more", f"{sp}  and less", f"{sp}'''"]
    return [f"{sp}'''", f"{sp}site:{i}", "", f"{sp}    code-ish", f"{sp}'''"]


def render(p: Dict[str, Any]) -> str:
    n, parent, kind, nm = p["n"], p["parent"], p["kind"], p["nm"]
    kids: Dict[int, List[int]] = {i: [] for i in range(0, n + 1)}
    for i in range(1, n + 1):
        kids[parent[i - 1]].append(i)
    out: List[str] = []

    def emit(i: int, ind: int) -> None:
        sp = "    " * ind
        k, name = kind[i - 1], nm[i - 1]
        if k in DEFK:
            deco = {"cm": "@classmethod", "sm": "@staticmethod", "prop": "@property", "setter": f"@{name}.setter"}.get(k)
            if deco:
                out.append(sp + deco)
            out.append(f"{sp}{'async ' if k == 'adef' else ''}def {name}(*args):")
            out.extend(docstring_lines(i, sp + "    "))
        elif k in ("class", "exc"):
            out.append(f"{sp}class {name}{'(Exception)' if k == 'exc' else ''}:")
            out.extend(docstring_lines(i, sp + "    "))
        elif k == "assign":
            out.append(f"{sp}{name} = {literal(i)}")
            return
        elif k in ("oldcm", "oldsm"):
            out.append(f"{sp}{name} = {'classmethod' if k == 'oldcm' else 'staticmethod'}({name})")
            return
        elif k == "docstr":
            out.append(f"{sp}'''adoc:{i}'''")
            return
        elif k == "del":
            out.append(f"{sp}del {name}")
            return
        elif k in ("mivar", "mivard"):
            # a method named after its node whose body assigns the instance variable (and documents it with a bare string)
            out.append(f"{sp}def _m{i}(self):")
            out.extend(docstring_lines(i, sp + "    "))
            out.append(f"{sp}    self.{name} = {literal(i)}")
            if k == "mivard":
                out.append(f"{sp}    '''adoc:{i}'''")
            return
        elif k in ELSEK:
            # the children stand in the branch that is NOT the body of the statement (and runs when the module is imported)
            head = {"ifelse": ["if False:", "    pass", "else:"], "tryelse": ["try:", "    pass", "except ImportError:", "    pass", "else:"],
                    "tryexcept": ["try:", "    raise ImportError('x')", "except ImportError:"], "finally": ["try:", "    pass", "finally:"],
                    "forelse": ["for _i in ():", "    pass", "else:"]}[k]
            out.extend(sp + h for h in head)
            if not kids[i]:
                out.append(sp + "    pass")
            for c in kids[i]:
                emit(c, ind + 1)
            return
        else:
            out.append(sp + {"if": ["if True:", "if 1 == 1:", "if __name__ != '__main__':", "if __name__ == 'm' or True:"][i % 4],
                             "ifmain": "if __name__ == '__main__':", "try": "try:",
                             "with": "with open(__file__):", "for": "for _i in (1,):", "while": "while True:"}[k])
        if not kids[i] and k not in DEFK and k not in ("class", "exc"):
            out.append(sp + "    pass")
        for c in kids[i]:
            emit(c, ind + 1)
        if k == "try":
            # four spellings of a try statement whose BODY holds the children (the third one is an ast.TryStar node)
            out.append([f"{sp}finally:\n{sp}    pass", f"{sp}except Exception:\n{sp}    pass", f"{sp}except* Exception:\n{sp}    pass",
                        f"{sp}except (ImportError, ValueError) as _e:\n{sp}    pass\n{sp}else:\n{sp}    pass"][i % 4])
        if k == "while":
            out.append(f"{sp}    break")

    for c in kids[0]:
        emit(c, 0)
    return "\n".join(out) + "\n"


def capsify(p: Dict[str, Any]) -> Dict[str, Any]:
    """The same program with every name in upper case (AA, BB): pydoctor treats such variables as constants, Python does not care."""
    def up(n: str) -> str:
        if n.startswith("_m"):          # the method a mivar statement defines is named after its node
            return n
        head, _, tail = n.partition(".")
        return head.upper() * 2 + (("." + tail) if tail else "")
    q = json.loads(json.dumps(p))
    q["nm"] = [up(n) for n in q["nm"]]
    for key in ("py", "pd"):
        for e in q[key]:
            for x in e["names"]:
                x["name"] = up(x["name"])
    for key in ("pydoc", "pddoc"):
        for e in q[key]:
            for x in e["docs"]:
                x["name"] = up(x["name"])
    q["caps"] = True
    return q


def doc_site(doc: Optional[str]) -> Optional[int]:
    if not doc:
        return None
    for line in doc.splitlines():
        line = line.strip()
        if line.startswith("site:"):
            try:
                return int(line.split(":")[1].split()[0])
            except ValueError:
                return None
    return None


# ------------------------------------------------------------------------------------- real builder
def pd_tables(sources: List[str]) -> List[Dict[str, Any]]:
    """Build all sources in one System; if the builder raises, build them one by one and mark the culprits."""
    try:
        return _pd_tables(sources)
    except Exception:
        if len(sources) == 1:
            import traceback
            return [{"crash": traceback.format_exc()[-1200:]}]
        out: List[Dict[str, Any]] = []
        for s in sources:
            out.extend(pd_tables([s]))
        return out


def _pd_tables(sources: List[str]) -> List[Dict[str, Any]]:
    from pydoctor import model
    system = model.System()
    system.options.quietness = 0
    msgs: List[str] = []
    orig = model.System.msg
    model.System.msg = lambda self, section, msg, thresh=0, topthresh=100, nonl=False, wantsnl=True, once=False: msgs.append(msg)
    try:
        b = system.systemBuilder(system)
        for j, src in enumerate(sources):
            b.addModuleString(src, modname=f"m{j}")
        b.buildModules()
    finally:
        model.System.msg = orig
    K = model.DocumentableKind

    def kindof(o: Any) -> str:
        if isinstance(o, model.Class):
            return "exception" if o.kind is K.EXCEPTION else "class"
        if isinstance(o, model.Function):
            base = {K.FUNCTION: "function", K.METHOD: "method", K.CLASS_METHOD: "class method",
                    K.STATIC_METHOD: "static method"}.get(o.kind, str(o.kind))
            return ("async " + base) if o.is_async and o.kind in (K.FUNCTION, K.METHOD) else base
        if isinstance(o, model.Attribute):
            return "property" if o.kind is K.PROPERTY else "ivar" if o.kind is K.INSTANCE_VARIABLE else "variable"
        return type(o).__name__

    def nodeof(o: Any) -> Optional[int]:
        if isinstance(o, model.Attribute) and o.kind is not K.PROPERTY:
            try:
                return lit_id(ast.literal_eval(o.value)) if o.value is not None else None
            except Exception:
                return None
        return doc_site(o.docstring)

    def adoc(o: Any) -> int:
        d = o.docstring or ""
        return int(d.split(":")[1]) if d.startswith("adoc:") else 0

    def extra(o: Any) -> Dict[str, Any]:
        e: Dict[str, Any] = {"doc": o.docstring}
        if isinstance(o, model.Attribute):
            e["adoc"] = adoc(o)
        if isinstance(o, model.Attribute) and o.kind is not K.PROPERTY and o.annotation is not None:
            try:
                e["type"] = ast.unparse(o.annotation)
            except Exception:
                e["type"] = "?"
        return e

    out = []
    for j in range(len(sources)):
        mod = system.allobjects[f"m{j}"]
        tables: Dict[int, Dict[str, Any]] = {}

        def walk(scope_obj: Any, sid: int) -> None:
            tables[sid] = {name: {"node": nodeof(o), "kind": kindof(o), **extra(o)} for name, o in scope_obj.contents.items()}
            for name, o in scope_obj.contents.items():
                if isinstance(o, model.Class):
                    s = doc_site(o.docstring)
                    if s is not None:
                        walk(o, s)
        walk(mod, 0)
        out.append(tables)
    return out


# ------------------------------------------------------------------------------------------ CPython
_EXEC = r'''
import sys, json, inspect, types
srcs = json.load(open(sys.argv[1]))
def doc_site(doc):
    if not doc: return None
    for line in doc.splitlines():
        line = line.strip()
        if line.startswith("site:"):
            try: return int(line.split(":")[1].split()[0])
            except ValueError: return None
    return None
def lit_id(v):
    try:
        if isinstance(v, bool): return None
        if isinstance(v, int): return v
        if isinstance(v, str) and v.startswith("s"): return int(v[1:])
        if isinstance(v, (list, tuple)) and len(v) == 1: return int(v[0])
        if isinstance(v, dict) and len(v) == 1: return int(next(iter(v)))
        if isinstance(v, float): return int(v - 0.5)
    except (ValueError, TypeError): return None
    return None
def entry(v, in_class):
    raw = v
    if isinstance(v, (classmethod, staticmethod)):
        k = "class method" if isinstance(v, classmethod) else "static method"
        f = v.__func__
        return {"node": doc_site(f.__doc__), "kind": k, "doc": inspect.getdoc(f)}
    if isinstance(v, property):
        return {"node": doc_site(v.fget.__doc__ if v.fget else None), "kind": "property", "doc": inspect.getdoc(v.fget) if v.fget else None}
    if isinstance(v, types.FunctionType):
        k = "method" if in_class else "function"
        if inspect.iscoroutinefunction(v): k = "async " + k
        return {"node": doc_site(v.__doc__), "kind": k, "doc": inspect.getdoc(v)}
    if isinstance(v, type):
        return {"node": doc_site(v.__doc__), "kind": "exception" if issubclass(v, BaseException) else "class", "doc": inspect.getdoc(v)}
    return {"node": lit_id(v), "kind": "variable", "type": type(v).__name__}
out = []
for j, src in enumerate(srcs):
    g = {"__name__": "m%d" % j, "__file__": sys.argv[1]}
    try:
        exec(compile(src, "m%d.py" % j, "exec"), g)
    except BaseException as e:
        out.append({"error": type(e).__name__ + ": " + str(e)}); continue
    tables = {}
    def walk(ns, sid, in_class):
        t = {}
        for name, v in ns.items():
            if name.startswith("__") or name == "_i": continue
            t[name] = entry(v, in_class)
        tables[str(sid)] = t
        for name, v in ns.items():
            if isinstance(v, type) and not name.startswith("__"):
                s = doc_site(v.__doc__)
                if s is not None and v.__module__ == g["__name__"]:
                    walk(dict(vars(v)), s, True)
    walk(g, 0, False)
    out.append(tables)
print(json.dumps(out))
'''


def cpython_tables(ctx: Ctx, sources: List[str]) -> List[Dict[str, Any]]:
    f = ctx.scratch / "srcs.json"
    f.write_text(json.dumps(sources))
    r = subprocess.run([sys.executable, "-I", "-c", _EXEC, str(f)], capture_output=True, text=True, timeout=600)
    if r.returncode != 0:
        raise MachineryError("CPython oracle failed: " + r.stderr[-800:])
    return json.loads(r.stdout)


# -------------------------------------------------------------------------------------------- check
def spec_table(t: List[Dict[str, Any]]) -> Dict[int, Dict[str, Any]]:
    return {e["scope"]: {x["name"]: {"node": x["node"], "kind": x["kind"]} for x in e["names"]} for e in t}


def slim(t: Dict[Any, Dict[str, Any]]) -> Dict[int, Dict[str, Any]]:
    return {int(s): {n: {"node": e["node"], "kind": e["kind"]} for n, e in ns.items()} for s, ns in t.items()}


def kf_assign_after_def(w: Dict[str, Any]) -> bool:
    """Known finding: an assignment that rebinds a name already defined as function / class / property in the same scope
    is ignored by the builder (astbuilder._handleModuleVar / _handleClassVar: "we ignore it to document the original
    object").  Matches only when EVERY difference is of that shape, or lies inside the namespace of a class that survived
    because of it."""
    p = w["program"]
    # differences that are exactly the other open finding (extra 'x.setter' member) may accompany this one
    diffs = [d for d in w["diff"] if not (d.get("expected") is None and d.get("got") and d["name"].endswith(".setter")
                                          and d["got"].get("node") and p["kind"][d["got"]["node"] - 1] == "setter")]
    parent = p["parent"]
    kinds, nms = p["kind"], p["nm"]

    def scope_of(i: int) -> int:
        q = parent[i - 1]
        while q and kinds[q - 1] not in ("class", "exc", "def", "adef", "cm", "sm", "prop", "setter"):
            q = parent[q - 1]
        return q

    def shape(scope: int, name: str) -> bool:
        """a definition (def / class / property) of the name followed, in the same scope, by an assignment of it"""
        defs = [k for k in range(1, p["n"] + 1) if nms[k - 1] == name and scope_of(k) == scope and kinds[k - 1] in ("def", "adef", "cm", "sm", "prop", "class", "exc")]
        return any(kinds[k - 1] == "assign" and nms[k - 1] == name and scope_of(k) == scope and any(j < k for j in defs) for k in range(1, p["n"] + 1))
    survivors = set()
    rest = []
    for d in diffs:
        exp, got = d.get("expected"), d.get("got")
        if d.get("what") == "attribute docstring" and shape(d["scope"], d["name"]):
            continue          # which string documents the name follows from which object holds it
        if d.get("what") or not exp or not got or exp.get("kind") != "variable" or got.get("kind") in ("variable", None):
            rest.append(d)
            continue
        i, j = exp.get("node"), got.get("node")      # i: the assignment that wins in Python, j: the definition pydoctor kept
        if j is None and got.get("kind") == "property" and i is not None:
            # the property's own docstring (which carries its site) was replaced by a string that follows it (the other open
            # finding): the property kept is the last one of that name before the assignment
            cands = [k for k in range(1, i) if kinds[k - 1] == "prop" and nms[k - 1] == d["name"] and scope_of(k) == d["scope"]]
            j = max(cands) if cands and "docstr" in kinds else None
        if i is None or j is None or p["kind"][i - 1] != "assign" or j >= i or p["nm"][i - 1] != p["nm"][j - 1]:
            return False
        survivors.add(j)
    if not survivors:
        # (upper-case names: the constant handling gives the kept property the kind of a variable, so only the docstring shows it)
        return bool(diffs) and not rest and all(d.get("what") == "attribute docstring" and shape(d["scope"], d["name"]) for d in diffs)

    def under(s: int) -> bool:
        while s:
            if s in survivors:
                return True
            s = parent[s - 1]
        return False
    return all(d.get("expected") is None and under(d["scope"]) for d in rest)


def kf_setter_member(w: Dict[str, Any]) -> bool:
    """Known finding: '@x.setter def x' is documented as an additional method named 'x.setter' (Python binds only x)."""
    p = w["program"]
    ds = w["diff"]
    return bool(ds) and all(d.get("expected") is None and d.get("got") and d["name"].endswith(".setter")
                            and d["got"].get("node") and p["kind"][d["got"]["node"] - 1] == "setter" for d in ds)


def kf_del_ignored(w: Dict[str, Any]) -> bool:
    """Known finding: `del name` is not seen by the builder (no visit_Delete): what the name designated before stays documented,
    with everything below it when it is a class.  Matches only when EVERY difference is a documented object (or lies in the
    namespace of a class) that a later `del` of the same scope removes and that Python does not bind again."""
    p = w["program"]
    if not w["diff"] or "del" not in p["kind"]:
        return False
    parent, kind, nm = p["parent"], p["kind"], p["nm"]

    def scope_of(i: int) -> int:
        q = parent[i - 1]
        while q and kind[q - 1] not in ("class", "exc", "def", "adef", "cm", "sm", "prop", "setter"):
            q = parent[q - 1]
        return q
    deleted = set()
    for d in w["diff"]:
        exp, got = d.get("expected"), d.get("got")
        if d.get("what") or exp is not None or not got or got.get("node") is None:
            continue
        j = got["node"]
        if any(kind[k - 1] == "del" and nm[k - 1] == d["name"] and scope_of(k) == d["scope"] and k > j for k in range(1, p["n"] + 1)):
            deleted.add(j)

    def under(s: int) -> bool:
        while s:
            if s in deleted:
                return True
            s = parent[s - 1]
        return False
    for d in w["diff"]:
        exp, got = d.get("expected"), d.get("got")
        if exp is None and got and got.get("node") in deleted and not d.get("what"):
            continue
        if exp is None and under(d["scope"]):
            continue
        return False
    return bool(deleted)


def kf_else_branches(w: Dict[str, Any]) -> bool:
    """Known finding: the builder walks the `body` of if / try / for / while statements only (astutils.NodeVisitor.get_children):
    what is defined in an else branch, an except handler or a finally block is not seen, although these blocks run when the module is
    imported.  Matches only when EVERY difference disappears once the statements in such blocks are taken out of the program on
    Python's side: the documented object is the definition that wins among the statements OUTSIDE such blocks (or nothing), and what
    Python binds instead stands inside one."""
    p = w["program"]
    if not w["diff"] or not (set(p["kind"]) & ELSEK):
        return False
    parent, kind = p["parent"], p["kind"]

    def in_else(i: Optional[int]) -> bool:
        while i:
            if kind[i - 1] in ELSEK:
                return True
            i = parent[i - 1]
        return False
    # classes pydoctor keeps although Python rebinds their name in such a block: their namespaces exist for pydoctor only
    survivors = {d["got"]["node"] for d in w["diff"] if d.get("expected") and d.get("got") and not d.get("what")
                 and in_else(d["expected"].get("node")) and d["got"].get("node") and not in_else(d["got"]["node"])
                 and kind[d["got"]["node"] - 1] in ("class", "exc")}

    def under(s0: int) -> bool:
        while s0:
            if s0 in survivors:
                return True
            s0 = parent[s0 - 1]
        return False
    for d in w["diff"]:
        exp, got = d.get("expected"), d.get("got")
        if d.get("what") == "attribute docstring":
            if exp and exp.get("adoc") and in_else(exp["adoc"]) and not (got or {}).get("adoc"):
                continue                      # the documenting string stands in such a block: not walked either
            return False
        if d["scope"] and in_else(d["scope"]):
            if got is None:
                continue                      # a namespace that only exists for Python: the class stands in such a block
            return False
        if exp is None and d["scope"] and under(d["scope"]):
            continue                          # a namespace that only exists for pydoctor: the class was replaced from such a block
        if exp is None or not in_else(exp.get("node")):
            return False                      # Python's binding does not come from such a block: not this finding
        if got is not None and (got.get("node") is None or in_else(got["node"])):
            return False
    return True


def kf_adoc_not_adjacent(w: Dict[str, Any]) -> bool:
    """Known finding: ASTBuilder.currentAttr survives flow statements, `pass`, imports and property definitions, so a bare
    string that does NOT immediately follow the assignment still documents the variable, and a string after a property
    definition replaces the property's docstring.  Matches only when every difference is such an attachment."""
    p = w["program"]
    if not w["diff"]:
        return False
    # differences that are exactly the other open finding (extra 'x.setter' member) may accompany this one
    diffs = [d for d in w["diff"] if not (d.get("expected") is None and d.get("got") and d["name"].endswith(".setter")
                                          and d["got"].get("node") and p["kind"][d["got"]["node"] - 1] == "setter")]
    if not diffs:
        return False
    for d in diffs:
        exp, got = d.get("expected") or {}, d.get("got") or {}
        if d.get("what") == "attribute docstring":
            j = got.get("adoc")
            if not j or p["kind"][j - 1] != "docstr" or exp.get("adoc") == j:
                return False
            continue
        if exp.get("kind") == "property" and got.get("kind") == "property" and got.get("node") is None:
            i = exp.get("node")
            if i and any(k == "docstr" for k in p["kind"][i:]):
                continue
        return False
    return True


KNOWN = [("attribute-docstring-not-adjacent", kf_adoc_not_adjacent), ("assignment-after-definition-ignored", kf_assign_after_def),
         ("property-setter-documented-as-extra-member", kf_setter_member), ("del-statement-not-seen", kf_del_ignored),
         ("else-except-finally-blocks-not-walked", kf_else_branches)]


def explain(w: Dict[str, Any]) -> Optional[List[str]]:
    """One program can show several of the open findings at once (a `del` next to an assignment after a definition ...).  The
    differences are partitioned: for each finding in turn, the largest set of the differences not explained yet that the
    finding's own predicate accepts ON ITS OWN.  Returns the findings used, or None when some difference stays unexplained
    (then the witness is a violation, whatever else it contains)."""
    import itertools
    if not w.get("diff") or not w.get("program"):
        return None
    remaining = list(range(len(w["diff"])))
    used: List[str] = []
    for fid, fn in KNOWN:
        if not remaining:
            break
        found = None
        for size in range(len(remaining), 0, -1):
            for sub in itertools.combinations(remaining, size):
                try:
                    ok = fn({**w, "diff": [w["diff"][i] for i in sub]})
                except Exception:
                    ok = False
                if ok:
                    found = sub
                    break
            if found:
                break
        if found:
            used.append(fid)
            remaining = [i for i in remaining if i not in found]
    return used if not remaining else None


def kf_inherited_member_overridden(w: Dict[str, Any]) -> bool:
    """Known finding: a class-level assignment `name = value` in a subclass whose BASE defines `name` as a function or class is
    ignored (astbuilder._maybeAttribute looks the name up along the MRO; the repository's test_assignment_to_method_in_class pins it
    for `base_method = wrap_method(base_method)`): the variable the subclass binds is not documented.  Matches only the side
    check's witnesses of exactly that shape (a missing class variable whose name a base class defines as function / class)."""
    return w.get("what_side") == "__doc__ assignment" and str(w.get("what", "")) == "overriding variables: missing" \
        and bool(w.get("known_shape")) and w.get("expected") == "variable"


def kf_rebound_by_for_or_with(w: Dict[str, Any]) -> bool:
    """Known finding: a variable assigned a literal and bound again as the target of a `for` loop or of `with ... as` keeps the
    value and the inferred type of the literal (the builder does not look at those targets).  Matches only the side check's
    witnesses for exactly these two variables of its source (lit2: for, lit3: with)."""
    return w.get("what_side") == "__doc__ assignment" and w.get("what") == "rebound variables: inferred type" \
        and w.get("object") in ("lit2", "lit3") and w.get("got") == "int"


def run(ctx: Ctx) -> int:
    ctx.register_matcher("inherited-member-overridden-by-variable", kf_inherited_member_overridden)
    ctx.register_matcher("literal-type-stale-after-for-or-with", kf_rebound_by_for_or_with)
    for fid, _fn in KNOWN:
        ctx.register_matcher(fid, lambda w, fid=fid: (explain(w) or [None])[0] == fid)
    maxn = 2 if ctx.quick else 3
    names = ["a", "b"]
    r = ctx.tlc("Builder", CFG.format(maxn=maxn, names=tla(set(names)), kinds=tla(set(KINDS))), workers="auto", check=True,
                timeout=3000)
    progs = r.printed
    if ctx.quick:
        # a sample of 3-statement programs on top of the exhaustive 2-statement space
        r3 = ctx.tlc("Builder", CFG.format(maxn=3, names=tla({"a"}), kinds=tla({"docstr", "def", "cm", "prop", "setter", "class", "assign", "oldsm", "if", "ifmain", "try"})),
                     workers="auto", check=True, timeout=3000)
        progs = progs + r3.printed
        # the same name at module level and inside a class: every 3-statement program over two names
        r3b = ctx.tlc("Builder", CFG.format(maxn=3, names=tla({"a", "b"}), kinds=tla({"def", "class", "assign", "cm"})), workers="auto", check=True, timeout=3000)
        progs = progs + [p for p in r3b.printed if p["n"] == 3]
        # re-assignments and their docstrings: every 4-statement program over assignments, strings, a block and a def
        r4 = ctx.tlc("Builder", CFG.format(maxn=4, names=tla({"a", "b"}), kinds=tla({"assign", "docstr", "try"})), workers="auto", check=True, timeout=3000)
        progs = progs + [p for p in r4.printed if p["n"] == 4]
        # instance variables: methods assigning self.<name> before and after definitions / class variables / properties of that name
        # names unbound again by `del`
        r3d = ctx.tlc("Builder", CFG.format(maxn=3, names=tla({"a", "b"}), kinds=tla({"class", "assign", "del", "docstr"})), workers="auto", check=True, timeout=3000)
        progs = progs + [p for p in r3d.printed if "del" in p["kind"]]
        # blocks that run but are not the body of their statement: else / except / finally
        r3e = ctx.tlc("Builder", CFG.format(maxn=3, names=tla({"a", "b"}), kinds=tla({"class", "def", "assign", "ifelse", "tryelse", "tryexcept", "finally", "forelse"})),
                      workers="auto", check=True, timeout=3000)
        progs = progs + [p for p in r3e.printed if set(p["kind"]) & ELSEK]
        r4i = ctx.tlc("Builder", CFG.format(maxn=4, names=tla({"a"}), kinds=tla({"class", "def", "assign", "prop", "mivar", "mivard"})), workers="auto", check=True, timeout=3000)
        progs = progs + [p for p in r4i.printed if any(k in ("mivar", "mivard") for k in p["kind"])]
    else:
        # every 4-statement program over one name and the kinds that interact (duplicates, wrapping, properties, blocks)
        r4 = ctx.tlc("Builder", CFG.format(maxn=4, names=tla({"a"}), kinds=tla({"docstr", "def", "cm", "prop", "setter", "class", "assign", "oldsm", "if", "ifmain"})),
                     workers="auto", check=True, timeout=6000)
        progs = progs + [p for p in r4.printed if p["n"] == 4]
        r4d = ctx.tlc("Builder", CFG.format(maxn=4, names=tla({"a", "b"}), kinds=tla({"class", "def", "assign", "del", "docstr", "if"})), workers="auto", check=True, timeout=6000)
        progs = progs + [p for p in r4d.printed if "del" in p["kind"]]
        r4e = ctx.tlc("Builder", CFG.format(maxn=4, names=tla({"a", "b"}), kinds=tla({"class", "def", "assign", "docstr", "if", "ifelse", "tryexcept", "finally"})),
                      workers="auto", check=True, timeout=6000)
        progs = progs + [p for p in r4e.printed if set(p["kind"]) & ELSEK]
        r5i = ctx.tlc("Builder", CFG.format(maxn=5, names=tla({"a"}), kinds=tla({"class", "def", "assign", "prop", "setter", "docstr", "mivar", "mivard"})), workers="auto", check=True, timeout=6000)
        progs = progs + [p for p in r5i.printed if any(k in ("mivar", "mivard") for k in p["kind"])]
    ctx.extra["programs_with_instance_variables"] = sum(1 for p in progs if any(k in ("mivar", "mivard") for k in p["kind"]))
    ctx.exhaustive = True
    if not progs:
        raise MachineryError("TLC emitted no program")
    caps = [capsify(p) for p in progs if sum(1 for k in p["kind"] if k == "assign") >= 2]
    ctx.extra["programs_also_rendered_with_upper_case_names"] = len(caps)
    progs = progs + caps
    design_disagree = sum(1 for p in progs if not p["agree"])
    ctx.extra["programs"] = len(progs)
    ctx.extra["design_level_programs_where_transcription_differs_from_reference"] = design_disagree
    mism_cpy = 0
    for part in chunks(progs, 2000):
        sources = [render(p) for p in part]
        for s in sources:
            try:
                ast.parse(s)
            except SyntaxError as e:
                raise MachineryError(f"renderer produced invalid source: {e}\n{s}")
        cp = cpython_tables(ctx, sources)
        pd = pd_tables(sources)
        for p, src, c, d in zip(part, sources, cp, pd):
            ctx.traces += 1
            py = spec_table(p["py"])
            if "error" in c:
                raise MachineryError(f"program marked Importable by the spec fails in CPython: {c['error']}\n{src}")
            if slim(c) != py:
                raise MachineryError(f"PyExec (Builder.tla) disagrees with CPython:\n{src}\nspec {py}\ncpython {slim(c)}")
            if "crash" in d:
                last = d["crash"].strip().splitlines()[-1]
                ctx.violation({"invariant": "BuilderDoesNotAbort", "program": {k: p[k] for k in ("n", "parent", "kind", "nm")},
                               "source": src, "exception": d["crash"], "diff": [], "key": "crash:" + last[:80]})
                continue
            real = slim(d)
            pdm = spec_table(p["pd"])
            for s0, ns0 in real.items():          # a property documented by a later string lost its site marker
                for n0, e0 in ns0.items():
                    if e0["kind"] == "property" and e0["node"] is None and d[s0][n0].get("adoc") and pdm.get(s0, {}).get(n0, {}).get("kind") == "property":
                        real_for_drift = True
            real_cmp = {s0: {n0: (pdm[s0][n0] if (e0["kind"] == "property" and e0["node"] is None and d[s0][n0].get("adoc") and n0 in pdm.get(s0, {})) else e0)
                             for n0, e0 in ns0.items()} for s0, ns0 in real.items()}
            if real_cmp != pdm:
                ctx.drift_note({"source": src, "spec_documented": pdm, "real": real})
            diffs = []
            ivar_nodes = {(p["nm"][i0], i0 + 1) for i0 in range(p["n"]) if p["kind"][i0] in ("mivar", "mivard")}
            for s in sorted(set(py) | set(real)):
                a, b = py.get(s, {}), real.get(s, {})
                for name in sorted(set(a) | set(b)):
                    ea, eb = a.get(name), b.get(name)
                    if eb is not None and eb["kind"] == "ivar":
                        # instance variables are documented on purpose although the class statement binds nothing for them;
                        # a class variable also assigned through self is ONE documented variable (value of either assignment)
                        if ea is None or (ea["kind"] == "variable" and (eb["node"] == ea["node"] or (name, eb["node"]) in ivar_nodes)):
                            continue
                    if ea != eb:
                        diffs.append({"scope": s, "name": name, "expected": ea, "got": eb})
            # attribute docstrings: which string statement documents which variable (reference: Builder.tla RefVarDoc)
            want = {e["scope"]: {x["name"]: x["doc"] for x in e["docs"]} for e in p["pydoc"]}
            model_says = {e["scope"]: {x["name"]: x["doc"] for x in e["docs"]} for e in p["pddoc"]}
            got_docs = {int(s): {nme: e.get("adoc", 0) for nme, e in ns.items() if e["kind"] in ("variable", "ivar", "property")} for s, ns in d.items()}
            for s in want:
                for nme, dj in want[s].items():
                    g = got_docs.get(s, {}).get(nme)
                    rk, pk = real.get(s, {}).get(nme), py.get(s, {}).get(nme)
                    same = rk == pk or (rk and pk and rk["kind"] == "ivar" and pk["kind"] == "variable")
                    if g is not None and same and g != dj:
                        diffs.append({"scope": s, "name": nme, "expected": {"adoc": dj}, "got": {"adoc": g}, "what": "attribute docstring"})
            for s in model_says:
                for nme, dj in model_says[s].items():
                    g = got_docs.get(s, {}).get(nme)
                    if g is not None and g != dj:
                        ctx.drift_note({"what": "attribute docstring", "source": src, "scope": s, "name": nme, "spec": dj, "real": g})
            # docstrings and literal types (text level, CPython is the reference)
            for s, ns in c.items():
                for name, e in ns.items():
                    g = d.get(int(s), {}).get(name)
                    if not g or g["node"] != e["node"] or g["kind"] != e["kind"]:
                        continue
                    if "doc" in e and e["doc"] != g.get("doc") and not (g.get("adoc") and e["kind"] == "property"):
                        diffs.append({"scope": int(s), "name": name, "expected": {"doc": e["doc"]}, "got": {"doc": g.get("doc")}, "what": "docstring"})
                    if "type" in e and g.get("type") is not None and g["type"].split("[")[0] != e["type"]:
                        diffs.append({"scope": int(s), "name": name, "expected": {"type": e["type"]}, "got": {"type": g["type"]}, "what": "literal type"})
            if diffs:
                ctx.violation({"invariant": "DocumentedIsPyExec", "program": {k: p[k] for k in ("n", "parent", "kind", "nm")},
                               "source": src, "diff": diffs,
                               "key": "diff:" + json.dumps([[d0["name"], (d0["expected"] or {}).get("kind"), (d0["got"] or {}).get("kind"), d0.get("what")] for d0 in diffs])[:200]})
            if ctx.traces % 700 == 1:
                ctx.sample({"source": src, "pyexec": py, "real": real})
    # ---- multi-module packages: class vs exception class when the exception-ness comes through another module
    from .. import families, procrun
    from .. import projects as P
    mm = list(families.t1_exceptions()) + list(families.t1_base_chains())[::9] + [q for q in families.t4_cycles() if q["meta"].get("late") is not None or q["meta"].get("starcycle")]
    oracles: Dict[int, Any] = {}
    mm_classes = 0
    for res in procrun.explore(ctx, mm):
        pid = res["pid"]
        if pid not in oracles:
            d0 = ctx.scratch / f"mm_{pid}"
            d0.mkdir()
            P.write_project(res["project"], d0)
            oracles[pid] = P.cpython_oracle(res["project"], d0)
        o = oracles[pid]
        if "failed" in o or o.get("errors"):
            continue
        by_site = {json.dumps(e["site"]): (k, e) for k, e in res["real"]["dump"].items() if e["cls"] == "Class"}
        for skey, info in o["classes"].items():
            if skey not in by_site:
                continue
            k, e = by_site[skey]
            mm_classes += 1
            want = "EXCEPTION" if info["isexc"] else "CLASS"
            if e["kind"] != want:
                ctx.violation({"invariant": "KindIsWhatPythonGives", "class": k, "expected": want, "got": e["kind"], "diff": [],
                               "program": {}, "source": "", "origin": {"family": res["project"]["family"], **res["project"]["meta"],
                                                                          "sched": res["sched"], "project": procrun.strip(res["project"])},
                               "key": f"mmkind:{res['project']['family']}:{res['project']['meta']}:{k}"})
    ctx.extra["multi_module_classes_compared_with_cpython"] = mm_classes
    # ---- source files that are not plain UTF-8 (coding cookie, byte order mark)
    from .. import encodings_check
    try:
        enc_bad = encodings_check.check(ctx.scratch)
    except RuntimeError as e:
        raise MachineryError(str(e))
    for wit in enc_bad:
        ctx.violation({"invariant": "DocumentedIsPyExec", "what": "source encoding", **wit, "diff": [], "program": {}, "source": "",
                       "key": "encoding:" + wit["module"]})
    ctx.extra["encoded_modules_compared"] = 4
    # ---- docstrings replaced through an assignment to __doc__: model AND rendered text follow the interpreter
    from .. import docassign_check
    try:
        da_bad = docassign_check.check(ctx.scratch)
    except RuntimeError as e:
        raise MachineryError(str(e))
    for wit in da_bad:
        ctx.violation({"invariant": "DocumentedIsPyExec", "what_side": "__doc__ assignment", **wit, "diff": [], "program": {}, "source": "",
                       "key": "docassign:" + wit["object"] + ":" + wit["what"]})
    ctx.extra["doc_assignments_compared"] = len(docassign_check.FILES)
    # negative control: a corrupted real table must differ from the reference
    p0 = next(p for p in progs if p["py"][0]["names"])
    t = spec_table(p0["py"])
    t2 = json.loads(json.dumps(t))
    first_scope = next(iter(t2))
    nm0 = next(iter(t2[first_scope]))
    t2[first_scope][nm0]["kind"] = "CORRUPT"
    ctx.extra["negative_control"] = {"corrupted_kind_detected": {int(k): v for k, v in t2.items()} != t}
    ctx.assumptions += ["subset: definitions at module/class level and in bodies of taken if/try/with/for/while; decorators classmethod/"
                        "staticmethod/property; async; old-style wrapping; nested classes; function bodies and __main__ blocks excluded",
                        "attribute docstrings have no run-time counterpart and are not compared"]
    return ctx.finish(rule="program = statement tree (canonical pre-order numbering) over the kind alphabet x names {a,b}; "
                           "every program TLC enumerates is rendered, built by the real ASTBuilder and executed by CPython; "
                           "non-trivial = at least one namespace with a binding",
                      distinct_nontrivial=sum(1 for p in progs if any(e["names"] for e in p["py"])))


def replay(ctx: Ctx, path: str) -> int:
    w = json.load(open(path))
    if w.get("what") == "source encoding":
        from .. import encodings_check
        bad = bool(encodings_check.check(ctx.scratch))
        print("replay:", "still differs" if bad else "holds now")
        if bad:
            print(f"VIOLATION property=C03 replay={path}")
        ctx.cleanup()
        return 1 if bad else 0
    if w.get("what_side") == "__doc__ assignment":
        from .. import docassign_check
        bad = any(x["object"] == w["object"] for x in docassign_check.check(ctx.scratch))
        print("replay:", "still differs" if bad else "holds now")
        if bad:
            print(f"VIOLATION property=C03 replay={path}")
        ctx.cleanup()
        return 1 if bad else 0
    if w.get("invariant") == "KindIsWhatPythonGives":
        from .. import projects as P
        o = w["origin"]
        proj = {**o["project"], "family": "", "meta": {}}
        real = P.real_build(proj, o["sched"], ctx.scratch)
        bad = real["dump"].get(w["class"], {}).get("kind") != w["expected"]
        print("replay:", "still differs" if bad else "holds now")
        if bad:
            print(f"VIOLATION property=C03 replay={path}")
        ctx.cleanup()
        return 1 if bad else 0
    src = w["source"]
    cp = cpython_tables(ctx, [src])[0]
    pd = pd_tables([src])[0]
    bad = "crash" in pd or slim(cp) != slim(pd)
    print("replay:", "still differs" if bad else "holds now")
    if bad:
        print(f"VIOLATION property=C03 replay={path}")
    ctx.cleanup()
    return 1 if bad else 0
