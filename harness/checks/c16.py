"""
C16 - warnings point at the right place and every reported problem is counted.

spec -> code : TLC enumerates every docstring layout of spec/Lines.tla (object kind x opening-line text x leading
               blank lines x indentation x raw x vertical offset k x problem kind x position x docformat) and
               prints, per layout, the geometry of the file (ground truth), the lines the property accepts and
               the line pydoctor's arithmetic yields.  The harness renders one module per layout from those
               numbers, runs the real pydoctor (driver.main, in-process, one package per docformat batch) and
               reads the `path:line:` messages.  Verdict: printed line in the accepted set; printed line vs
               the model's line is conformance (drift).
               TLC enumerates runs of spec/ExitStatus.tla (objects x planted problem sets x -W x -q) with the
               exit status / violation count / printed lines of each; every run is realised as a project and
               executed through driver.main (all in-process, a sample through `python -m pydoctor`).
code -> spec : the observed (layout, printed lines) records go back to TLC (Lines, Source = "file") which judges
               them and evaluates the k-shift hyper-property over the whole file; every real run is recorded as
               an event trace (System.msg calls, reportErrors calls, main's return value) and validated by TLC
               against ExitStatus.tla in batches, with the property invariants evaluated on the traces.
"""
from __future__ import annotations

import contextlib
import io
import json
import os
import random
import re
import shutil
import subprocess
import sys
from concurrent.futures import ProcessPoolExecutor
from pathlib import Path
from typing import Any, Dict, List, Optional, Tuple

from ..core import Ctx, MachineryError, NCPU, chunks

PROBLEM_RE = re.compile(r"^(.*?):(\d+|\?\?\?): (.*)$")


# ------------------------------------------------------------------------------------- Lines: rendering
def token(fmt: str, prob: str) -> str:
    if prob == "xref":
        return "L{nosuch.name}" if fmt == "epytext" else "`nosuch.name`"
    if prob == "ambig":
        return "L{twin}" if fmt == "epytext" else "`twin`"
    if prob == "markup":
        return "B{unclosed" if fmt == "epytext" else "*unclosed"
    return ""


def doc_lines(L: Dict[str, Any]) -> List[str]:
    """The cleaned docstring of a layout (the template whose geometry Lines.tla states as Mark / DocLen)."""
    fmt, prob, pos = L["fmt"], L["prob"], L["pos"]
    tok = token(fmt, prob)
    t = lambda p: (" " + tok) if (pos == p and tok) else ""
    lead = ["Section Title", "=============", ""] if L.get("lead") == "title" else []
    # (written as an escape sequence: the character is in the docstring, not in the source line)
    sepc = {"nel": "\\x85", "ls": "\\u2028"}.get(L.get("sep", "none"), " ")
    lines = lead + ["Summary line one%s" % t("p1"), "summary%sline two." % sepc, "",
             "Second paragraph line one", "second line%s end." % t("p2l2"), ""]
    if fmt == "epytext":
        lines += ["  - item line one", "    item line two%s" % t("item"), ""]
    else:
        lines += ["- item line one", "  item line two%s" % t("item"), ""]
    has_args = L["kind"] in ("function", "method", "class")
    if fmt == "epytext":
        lines += ["@note: field body line one", "    field body two%s" % t("field")]
        if prob == "tfield":
            lines += ["@ivar y: the y", "@type y: nosuch.name" if L.get("pt") else "@type y: L{nosuch.name}"]
        if prob == "vfield":
            lines += ["@ivar y: the y L{nosuch.name}"]
        if prob == "unkfield":
            lines += ["@unknownfield: text"]
        if prob == "param":
            lines += ["@param nosuch: text"]
    elif fmt == "restructuredtext":
        lines += [":note: field body line one", "    field body two%s" % t("field")]
        if prob == "unkfield":
            lines += [":unknownfield: text"]
        if prob == "tfield":
            lines += [":ivar y: the y", ":type y: nosuch.name" if L.get("pt") else ":type y: `nosuch.name`"]
        if prob == "vfield":
            lines += [":ivar y: the y `nosuch.name`"]
        if prob == "consbad":
            lines += [":Parameters: a b c"]
        if prob == "param" and L.get("cons"):
            lines += [":Parameters:", "    a", "        the arg", "    nosuch", "        text"]
        elif prob == "param":
            lines += [":param nosuch: text"]
    elif fmt == "google":
        if prob == "unkfield":
            lines += [":unknownfield: text", ""]
        lines += ["Note:", "    note body line one", "    note body two%s" % t("field")]
        if L.get("typed"):
            lines += ["", "Args:", "    a (T): the arg", "    b (T): the b", "    c (T): the c", "    nosuch (T): text"]
        elif has_args:
            lines += ["", "Args:", "    a: the arg"]
            if prob == "param":
                lines += ["    nosuch: text"]
            if prob in ("btype", "btype2"):          # a malformed type; btype2: the same spelling once more, in the next section
                lines += ["", "Returns:", "    T(T: the value"]
                if prob == "btype2":
                    lines += ["", "Yields:", "    T(T: the same spelling again"]
    else:
        if prob == "unkfield":
            lines += [":unknownfield: text", ""]
        lines += ["Note", "----", "note body line one", "note body two%s" % t("field")]
        if L.get("typed"):
            lines += ["", "Parameters", "----------", "a : T", "    the arg", "b : T", "    the b", "c : T", "    the c", "nosuch : T", "    text"]
        elif has_args:
            lines += ["", "Parameters", "----------", "a", "    the arg"]
            if prob == "param":
                lines += ["nosuch", "    text"]
            if prob in ("btype", "btype2"):          # a malformed type; btype2: a second returned value, the same spelling
                lines += ["", "Returns", "-------", "first : T(T", "    the first value"]
                if prob == "btype2":
                    lines += ["second : T(T", "    the same spelling again"]
    return lines


def render(L: Dict[str, Any]) -> Tuple[str, Dict[str, int]]:
    """Source text of the module for a layout + the physical lines measured on the rendered text."""
    lines = doc_lines(L)
    kind, ind, k = L["kind"], L["indent"], L["k"]
    out: List[str] = []
    depth = {"module": 0, "function": 0, "class": ind, "method": ind + 1, "attribute": ind}[kind]
    if kind == "module":
        out += ["# comment %d" % i for i in range(k)]
    else:
        out.append('"""Module."""')
        out += [""] * k
        for d in range(depth):
            out.append("    " * d + "class W%d:" % d)
            out.append("    " * (d + 1) + '"""Wrapper."""')
    base = "    " * depth
    q_ind = ""
    if kind == "class":
        out.append(base + "class K:")
        q_ind = base + "    "
    elif kind in ("function", "method"):
        params = "a, b=1, c=2" if L.get("typed") else "a"
        out.append(base + ("def f(self, %s):" % params if kind == "method" else "def f(%s):" % params))
        q_ind = base + "    "
    elif kind == "attribute":
        out.append(base + "v = 1")
        q_ind = base
    body_ind = q_ind + (" " * (2 * ind) if kind in ("module", "function") else "")
    quote = len(out) + 1
    prefix = "r" if L["raw"] else ""
    if L["open"]:
        out.append(q_ind + prefix + '"""' + lines[0])
        rest = lines[1:]
        text0 = quote
    else:
        out.append(q_ind + prefix + '"""')
        for i in range(L["blanks"]):
            # the last leading blank line is white space only (longws: more of it than the indentation)
            out.append((body_ind + ("    " if L.get("longws") else "")) if i == L["blanks"] - 1 else "")
        rest = lines
        text0 = quote + 1 + L["blanks"]
    out += [(body_ind + s) if s else "" for s in rest]
    if L.get("tight"):
        out[-1] += '"""'                         # closing quotes on the last line of text
    else:
        out.append(body_ind + '"""')
    close = len(out)
    if L["prob"] in ("vfield", "tfield"):          # the documented attribute, and (ann) a callable with annotations
        out.append(q_ind + "y = 1")
        if L.get("inl"):
            out.append(q_ind + '"""Inline docstring of y."""')
        if L.get("ann"):
            out += [q_ind + ("def alpha(self, x: int) -> str:" if kind == "class" else "def alpha(x: int) -> str:"),
                    q_ind + '    """Alpha."""', q_ind + "    return str(x)"]
    if kind == "class":
        out += [q_ind + "def __init__(self, %s):" % ("a, b=1, c=2" if L.get("typed") else "a"), q_ind + '    """Init."""']
    if kind in ("function", "method"):
        out.append(q_ind + "return a")
    if L.get("typed") or L["prob"] in ("btype", "btype2"):
        out += ["class T:", '    """The type."""']         # below the object: moves nothing
    # where the planted token / field actually is in the rendered file
    needle = {"xref": "nosuch.name", "markup": "unclosed", "unkfield": "unknownfield", "param": "nosuch", "tfield": "nosuch.name", "vfield": "nosuch.name", "consbad": ":Parameters:", "ambig": "twin", "btype": "T(T", "btype2": "T(T"}[L["prob"]]
    at = [i + 1 for i, s in enumerate(out) if needle in s]
    return "\n".join(out) + "\n", {"quote": quote, "text0": text0, "close": close, "at": at[0] if (len(at) == 1 or (L["prob"] == "btype2" and len(at) == 2)) else -1,
                                   "doclen": len(lines)}


def check_geometry(rec: Dict[str, Any], meas: Dict[str, int], src: str) -> None:
    """Lines.tla's geometry must describe the file the harness wrote (a disagreement is OUR bug)."""
    for f in ("quote", "text0", "close", "at", "doclen"):
        if rec[f] != meas[f]:
            raise MachineryError(f"Lines.tla geometry != rendered file for {rec['lay']}: {f} spec={rec[f]} file={meas[f]}\n{src}")
    head = {"p1": "Summary line one", "p2l2": "Second paragraph line one", "item": "item line one",
            "field": "ote", "own": {"param": "nosuch", "tfield": "type y", "vfield": "ivar y", "consbad": ":Parameters:", "btype": "T(T", "btype2": "T(T"}.get(rec["lay"]["prob"], "unknownfield")}[rec["lay"]["pos"]]
    flines = src.split("\n")
    if head not in flines[rec["first"] - 1]:
        raise MachineryError(f"Lines.tla FirstLine is not the first line of the construct for {rec['lay']}: "
                             f"line {rec['first']} = {flines[rec['first'] - 1]!r}\n{src}")


# --------------------------------------------------------------------------- running pydoctor, recorded
def _install_recorders(events: List[Dict[str, Any]], buf: io.StringIO, expr_fault: bool):
    """Wrap System.msg / reportErrors so that a run leaves an ExitStatus trace. Returns an undo function."""
    from pydoctor import model, epydoc2stan
    from pydoctor.templatewriter import pages
    orig_msg, orig_re, orig_h2s = model.System.msg, epydoc2stan.reportErrors, pages.html2stan
    orig_reparent = model.Documentable.reparent
    orig_dup = model.System.handleDuplicate
    depth = {"re": 0}
    box: Dict[str, Any] = {}

    def msg(self, section, msg, thresh=0, topthresh=100, nonl=False, wantsnl=True, once=False):
        box["system"] = self
        skipped = once and (section, msg) in self.once_msgs
        before = buf.tell()
        r = orig_msg(self, section, msg, thresh, topthresh, nonl, wantsnl, once)
        if depth["re"] == 0 and not skipped:
            events.append({"op": "msg", "thresh": thresh, "top": topthresh, "v": self.violations,
                           "problem": bool(PROBLEM_RE.match(msg)) and section != "docstring-summary",
                           "shown": buf.tell() > before})
        return r

    def reportErrors(obj, errs, section="docstring"):
        depth["re"] += 1
        try:
            return orig_re(obj, errs, section=section)
        finally:
            depth["re"] -= 1
            if errs and depth["re"] == 0:
                events.append({"op": "reportErrors", "section": section, "o": obj.fullName(), "n": len(errs),
                               "v": obj.system.violations, "has": obj.fullName() in obj.system.parse_errors[section]})

    def html2stan(html):
        if "sigboom_param" in str(html):
            raise ValueError("injected: signature cannot be rendered")
        return orig_h2s(html)

    def reparent(self, new_parent, new_name):
        old = self.fullName()
        r = orig_reparent(self, new_parent, new_name)
        events.append({"op": "move", "o": old, "to": self.fullName(), "v": self.system.violations,
                       "perr": sum(len(v) for v in self.system.parse_errors.values())})
        return r

    def handleDuplicate(self, obj):
        prev = self.allobjects.get(obj.fullName())
        old = obj.fullName()
        r = orig_dup(self, obj)
        if prev is not None:
            events.append({"op": "supersede", "o": old, "to": prev.fullName(), "v": self.violations,
                           "perr": sum(len(v) for v in self.parse_errors.values())})
        return r

    model.System.msg = msg
    model.System.handleDuplicate = handleDuplicate
    model.Documentable.reparent = reparent
    epydoc2stan.reportErrors = reportErrors
    if expr_fault:
        pages.html2stan = html2stan

    def undo():
        model.System.msg, epydoc2stan.reportErrors, pages.html2stan = orig_msg, orig_re, orig_h2s
        model.Documentable.reparent = orig_reparent
        model.System.handleDuplicate = orig_dup
    return undo, box


def run_pydoctor(root: str, target: str, args: List[str], expr_fault: bool = False) -> Dict[str, Any]:
    """driver.main in this process on `target`; returns exit code, problem lines per file, the event trace."""
    from pydoctor import driver
    events: List[Dict[str, Any]] = []
    buf = io.StringIO()
    undo, box = _install_recorders(events, buf, expr_fault)
    err = io.StringIO()
    try:
        with contextlib.redirect_stdout(buf), contextlib.redirect_stderr(err):
            rc = driver.main(args + ["--html-output=" + os.path.join(root, "out"), "--project-name=x", target])
    finally:
        undo()
    system = box.get("system")
    nperr = sum(len(v) for v in system.parse_errors.values()) if system is not None else 0
    events.append({"op": "exit", "code": rc, "perr": nperr})
    per_file: Dict[str, List[List[Any]]] = {}
    nprob = 0
    for line in buf.getvalue().splitlines():
        m = PROBLEM_RE.match(line)
        if m and m.group(1).endswith(".py"):
            nprob += 1
            per_file.setdefault(os.path.basename(m.group(1)), []).append(
                [int(m.group(2)) if m.group(2).isdigit() else -1, m.group(3)[:120], m.group(1)])
    return {"rc": rc, "per_file": per_file, "events": events, "nprob": nprob,
            "violations": system.violations if system is not None else -1}


def job_has_history(root: str) -> bool:
    """Every fourth batch is also run through the other history."""
    return int(root.rsplit("_", 1)[1]) % 4 == 0


def render_only(pkg: str, fmt: str) -> Dict[str, List[int]]:
    """History "render": the bodies of all docstrings of the package rendered through the API, no summary extracted before
    (driver.main is the history "summary;render": summary tables are written before the bodies)."""
    from pydoctor import model, epydoc2stan
    system = model.System()
    system.options.docformat = fmt
    buf = io.StringIO()
    with contextlib.redirect_stdout(buf), contextlib.redirect_stderr(io.StringIO()):
        b = system.systemBuilder(system)
        b.addModule(Path(pkg))
        b.buildModules()
        for ob in list(system.allobjects.values()):
            if ob.isVisible:
                epydoc2stan.format_docstring(ob)
    out: Dict[str, List[int]] = {}
    for line in buf.getvalue().splitlines():
        m = PROBLEM_RE.match(line)
        if m and m.group(1).endswith(".py") and m.group(2).isdigit():
            out.setdefault(os.path.basename(m.group(1)), []).append(int(m.group(2)))
    return out


def _lines_batch(job: Tuple[str, str, List[Dict[str, Any]]]) -> Dict[str, Any]:
    """Worker: one package of modules (one per layout record) in one docformat, one pydoctor run."""
    root, fmt, recs = job
    pkg = os.path.join(root, "pkg")
    os.makedirs(pkg, exist_ok=True)
    Path(pkg, "__init__.py").write_text('"""Pkg."""\n')
    for helper in ("zz_a.py", "zz_b.py"):        # two modules defining the same name: what an "ambiguous ref" needs
        Path(pkg, helper).write_text('"""Helper module."""\n\ndef twin():\n    """Twin."""\n')
    names = {}
    for i, rec in enumerate(recs):
        src, meas = render(rec["lay"])
        try:
            compile(src, "m", "exec")
        except SyntaxError as e:
            raise MachineryError(f"generator produced invalid source for {rec['lay']}: {e}")
        check_geometry(rec, meas, src)
        name = "m%05d.py" % i
        Path(pkg, name).write_text(src)
        names[name] = rec
    pt = fmt.endswith("+pt")                  # the layouts of this batch need --process-types
    fmt = fmt[:-3] if pt else fmt
    r = run_pydoctor(root, pkg, ["--docformat=" + fmt] + (["--process-types"] if pt else []))
    alone = render_only(pkg, fmt) if (job_has_history(root) and not pt) else None
    shutil.rmtree(root, ignore_errors=True)
    obs = []
    for name, rec in names.items():
        got = r["per_file"].get(name, [])
        paths = {g[2] for g in got}
        obs.append({"lay": rec["lay"], "lines": [g[0] for g in got], "msgs": [g[1] for g in got],
                    "alone": None if alone is None else sorted(alone.get(name, [])),
                    "path_ok": all(p == os.path.join(pkg, name) for p in paths)})
    extra = sum(len(v) for k, v in r["per_file"].items() if k not in names)
    return {"obs": obs, "rc": r["rc"], "events": r["events"], "violations": r["violations"], "nprob": r["nprob"],
            "extra": extra, "W": False, "V": 0, "planted_unparsed": any(rc["lay"]["prob"] in ("markup", "btype", "btype2") for rc in recs),
            "planted": len(recs)}


# ------------------------------------------------------------------------------ ExitStatus: realisation
def exit_project(root: str, run: Dict[str, Any]) -> Tuple[str, int, bool]:
    """Write the project of an enumerated ExitStatus run. Returns (package dir, planted problem count, expr fault)."""
    pkg = os.path.join(root, "pkg")
    os.makedirs(pkg, exist_ok=True)
    planted = 0
    expr = False
    reexported: List[Tuple[int, str]] = []
    for i, c in enumerate(run["cfg"], 1):
        epy = c["fmt"] == "epy"
        shape = c.get("shape", "func")
        body = ["Summary line.", ""]
        if c["xref"]:
            body += ["Para with %s." % ("L{nosuch.name}" if epy else "`nosuch.name`"), ""]
            planted += 1
        for j in range(c["nerr"]):
            body += ["Bad %s%d para." % ("B{unclosed" if epy else "*unclosed", j), ""]
            planted += 1
        if c["field"]:
            body += ["@unknownfield: text" if epy else ":unknownfield: text"]
            planted += 1
        doc = ['    """'] + [("    " + b) if b else "" for b in body] + ['    """']
        head = ['"""Module."""', "import re", '__docformat__ = "%s"' % ("epytext" if epy else "restructuredtext"), ""]
        if shape == "reexpv":        # a module variable documented by a field of the module docstring, re-exported by the package
            link = "L{nosuch.name}" if epy else "`nosuch.name`"
            fld = ("@var LIMIT%d: upper bound, see %s" if epy else ":var LIMIT%d: upper bound, see %s") % (i, link)
            src = ['"""', "Private module.", "", "More about it.", "", fld, '"""', '__docformat__ = "%s"' % ("epytext" if epy else "restructuredtext"),
                   "", "LIMIT%d = 1" % i, ""]
        elif shape == "func":
            pre = []
            if c.get("crash"):      # a docstring that sets a default role and then makes the reST parser raise
                pre = ["def f0(a):", '    """', "    Summary line.", "", "    .. default-role:: emphasis", "", "    .. VersionAdded:: 1", '    """', ""]
                planted += 1
            src = head + pre + ["def f(a%s):" % (", sigboom_param" if c["expr"] else "")] + doc + [""]
        elif shape in ("inhF", "inhL"):     # a method whose docstring is inherited by an override in another module
            mdoc = ['        """'] + [("        " + b) if b else "" for b in body] + ['        """']
            src = head + ["class Base%d:" % i, '    """Base."""', "    def meth(self, a):"] + mdoc + [""]
            sub = ['"""Module of the subclass."""', "from .m%d import Base%d" % (i, i), "", "class Sub%d(Base%d):" % (i, i), '    """Subclass."""',
                   "    def meth(self, a):", "        return a", ""]
            # pages are written in the order of the module names: a<i> before m<i> before z<i>
            Path(pkg, ("a%d.py" if shape == "inhF" else "z%d.py") % i).write_text("\n".join(sub) + "\n")
            if c["field"]:
                planted += 1                 # the field is handled once for the method and once for the override
        elif shape == "dup3":                # both definitions have markup errors of their own
            doc2 = ['    """'] + [("    " + b.replace("unclosed", "unclosed2")) if b else "" for b in body] + ['    """']
            src = (head + ["class K%d:" % i] + doc + ["    def meth(self, a):", '        """Method."""', ""]
                   + ["class K%d:" % i] + doc2 + ["    def meth(self, a):", '        """Method."""', ""])
            planted += c["nerr"]
        elif shape in ("dup", "dup2"):      # the class is defined twice: one definition carries the problems, the other is clean
            clean = ['    """', "    Clean definition.", '    """']
            first, second = (doc, clean) if shape == "dup" else (clean, doc)
            src = (head + ["class K%d:" % i] + first + ["    def meth(self, a):", '        """Method."""', ""]
                   + ["class K%d:" % i] + second + ["    def meth(self, a):", '        """Method."""', ""])
        else:       # the problems sit in the class's own docstring
            src = head + ["class K%d:" % i] + doc + ["    def meth(self, a):", '        """Method."""', ""]
        if c["expr"]:
            planted += 1
            expr = True
        if c["regex"]:
            src += ['R = re.compile("(unclosed")', '"""Regex constant."""']
            planted += 1
        text = "\n".join(src) + "\n"
        compile(text, "m", "exec")
        if shape in ("reexp", "reexpv"):      # private implementation module, class / variable re-exported by the package
            Path(pkg, "_impl%d.py" % i).write_text(text)
            reexported.append((i, ("K%d" if shape == "reexp" else "LIMIT%d") % i))
        else:
            Path(pkg, "m%d.py" % i).write_text(text)
    init = ['"""Pkg."""'] + ["from ._impl%d import %s" % (i, k) for i, k in reexported]
    if reexported:
        init.append("__all__ = [%s]" % ", ".join(repr(k) for _, k in reexported))
    Path(pkg, "__init__.py").write_text("\n".join(init) + "\n")
    return pkg, planted, expr


def _exit_job(job: Tuple[str, Dict[str, Any]]) -> Dict[str, Any]:
    root, run = job
    pkg, planted, expr = exit_project(root, run)
    args = (["-W"] if run["W"] else []) + (["-q"] if run["V"] == -1 else [])
    r = run_pydoctor(root, pkg, args, expr_fault=expr)
    shutil.rmtree(root, ignore_errors=True)
    # which file each problem line names: object i's docstring lives in m<i>.py, or _impl<i>.py when it is re-exported
    named = []
    for i, c in enumerate(run["cfg"], 1):
        fn = ("_impl%d.py" if c.get("shape") in ("reexp", "reexpv") else "m%d.py") % i
        named.append(len(r["per_file"].get(fn, [])))
    return {"run": run, "rc": r["rc"], "violations": r["violations"], "nprob": r["nprob"], "events": r["events"],
            "planted": planted, "W": run["W"], "V": run["V"], "named": named,
            "misnamed": sorted({g[2] for k, v in r["per_file"].items() for g in v} - {os.path.join(pkg, ("_impl%d.py" if c.get("shape") in ("reexp", "reexpv") else "m%d.py") % i) for i, c in enumerate(run["cfg"], 1)}),
            "planted_unparsed": any(c["nerr"] > 0 or c["expr"] or c.get("crash") for c in run["cfg"])}


def judge_exit(rc: int, W: bool, nprob: int, violations: int, planted: int, planted_unparsed: bool) -> List[str]:
    """Python twin of ExitStatus.tla's property, on OBSERVED values and the planted ground truth."""
    bad = []
    if nprob > violations:
        bad.append("EveryReportCounted")
    if nprob != planted:
        bad.append("NothingLost")
    if W and ((rc == 3) != (nprob > 0)):
        bad.append("ExitW")
    if not W and rc != (2 if planted_unparsed else 0):
        bad.append("ExitNoW")
    return bad


# ---------------------------------------------------------------------------------------- known findings
def kf_rst_line_not_converted(w: Dict[str, Any]) -> bool:
    """Python twin of Lines.tla KF_RstLineNotConverted: reST markup message printed one line below the first
    line of the construct (docutils' 1-based line stored as a 0-based ParseError line)."""
    lay = w.get("layout") or {}
    return (w.get("invariant") == "ObsAcceptable" and lay.get("fmt") == "restructuredtext" and lay.get("prob") == "markup"
            and w.get("observed", {}).get("lines") == [w.get("expected", {}).get("first", -99) + 1])


def kf_leading_ws(w: Dict[str, Any]) -> bool:
    """Python twin of Lines.tla KF_LeadingWs: a white-space-only leading line longer than the indentation survives cleandoc
    but was skipped by extract_docstring_linenum: the printed line is exactly one too low."""
    lay, exp = w.get("layout") or {}, w.get("expected") or {}
    got = w.get("observed", {}).get("lines") or []
    return (w.get("invariant") == "ObsAcceptable" and bool(lay.get("longws")) and not lay.get("typed") and len(got) == 1
            and not (exp["lo"] <= got[0] <= exp["hi"]) and exp["lo"] <= got[0] - 1 <= exp["hi"])


def kf_docutils_sep(w: Dict[str, Any]) -> bool:
    """Python twin of Lines.tla KF_DocutilsSep: reST family, a character that str.splitlines() takes for a line boundary
    (U+2028, U+0085) before the problem: docutils counts one line more than the file has."""
    lay, exp = w.get("layout") or {}, w.get("expected") or {}
    got = w.get("observed", {}).get("lines") or []
    return (w.get("invariant") == "ObsAcceptable" and lay.get("sep", "none") != "none" and lay.get("fmt") in ("restructuredtext", "google", "numpy")
            and len(got) == 1 and not (exp["lo"] <= got[0] <= exp["hi"]) and exp["lo"] <= got[0] - 1 <= exp["hi"])


def kf_type_twice(w: Dict[str, Any]) -> bool:
    """Python twin of Lines.tla KF_TypeTwice: --process-types, unresolvable name in the type field of a field-documented
    attribute: besides the right line, it is reported at docstring_lineno(attribute) + line of the type field."""
    lay, exp = w.get("layout") or {}, w.get("expected") or {}
    got = sorted(w.get("observed", {}).get("lines") or [])
    return (w.get("invariant") == "ObsAcceptable" and lay.get("prob") == "tfield" and len(got) == 2
            and exp["lo"] <= got[0] <= exp["hi"] and got[1] == exp.get("impl2"))


def _exit_explained(w: Dict[str, Any]) -> Optional[set]:
    """Which known deviations account for EVERYTHING that is wrong with an ExitStatus run (None: something else is)."""
    failed = set(w.get("failed") or ["?"])
    if not failed <= {"NothingLost", "NamesTheFile"}:
        return None
    run = w.get("run") or {}
    obs, exp = w.get("observed") or {}, w.get("expected") or {}
    need = set()
    if "NothingLost" in failed:          # (the duplicate-definition deviation is repaired, b533082: nothing excuses a lost problem)
        return None
    mis = w.get("misnamed") or []
    if "NamesTheFile" in failed:
        if any(c.get("shape") == "reexpv" for c in run.get("cfg", [])) and len(mis) == 1 and mis[0].endswith(os.path.join("pkg", "__init__.py")):
            need.add("reexpv")
        else:
            return None
    elif mis:
        return None
    return need or None


def kf_var_in_package(w: Dict[str, Any]) -> bool:
    """Python twin of ExitStatus.tla NamesTheFileOrKF: the link problem of a re-exported field-documented module variable names
    the package's __init__.py; whatever else is wrong is the other known deviation."""
    need = _exit_explained(w)
    return need is not None and "reexpv" in need


def kf_cons_bad(w: Dict[str, Any]) -> bool:
    """Python twin of Lines.tla KF_ConsBad: 'Unable to split consolidated field' printed one line below the field."""
    lay, exp = w.get("layout") or {}, w.get("expected") or {}
    got = w.get("observed", {}).get("lines") or []
    f = exp.get("first", -9)
    return w.get("invariant") == "ObsAcceptable" and lay.get("prob") == "consbad" and sorted(got) == [f, f, f + 1]


def kf_napoleon_beyond(w: Dict[str, Any]) -> bool:
    """Python twin of Lines.tla KF_Napoleon: google / numpy section with typed entries: the line counted in the text napoleon
    produced (one extra :type: line per entry) lies past the closing quotes of the docstring."""
    lay, exp = w.get("layout") or {}, w.get("expected") or {}
    got = w.get("observed", {}).get("lines") or []
    return (w.get("invariant") == "ObsAcceptable" and bool(lay.get("typed") or lay.get("tight")) and lay.get("fmt") in ("google", "numpy")
            and len(got) == 1 and exp["hi"] < got[0] <= exp["hi"] + 4)


# ------------------------------------------------------------------------------------------------- cfgs
def lines_cfg(ctx: Ctx, source: str) -> str:
    if ctx.quick:
        ks, inds = "{0, 7}", "{0, 2}"
    else:
        ks, inds = "{0, 1, 7}", "{0, 1, 2}"
    inv = ("INVARIANT DocstringLineRight\nINVARIANT ImplAcceptable\nINVARIANT ImplShift\nINVARIANT HistoryIndependent\nINVARIANT ImplSecondAcceptable\n" if source == "enum"
           else "INVARIANT DocstringLineRight\n")
    return f"""SPECIFICATION Spec
CONSTANTS Source = "{source}"
  Kinds = {{"module", "class", "function", "method", "attribute"}}
  Fmts = {{"epytext", "restructuredtext", "google", "numpy"}}
  Ks = {ks}
  Indents = {inds}
  BlankCounts = {{0, 1, 2}}
  Seps = {{"none", "ls", "nel"}}
  RstLineNotConverted = {"TRUE" if os.environ.get("VERIF_C16_MODEL") == "prefix" else "FALSE"}
  LeadingWsKept = {"TRUE" if os.environ.get("VERIF_C16_LEADWS") == "prefix" else "FALSE"}
  InlineMovesOrigin = FALSE
CONSTRAINT Emit
{inv}"""


def exit_cfg(source: str, objs: str, rich: str, interleave: bool) -> str:
    inv = ("INVARIANT EveryReportCounted\nINVARIANT ExitW\nINVARIANT ExitNoW\nINVARIANT %s\n" % ("NothingLostOrKF" if source == "enum" else "NothingLost")
           + ("INVARIANT StaleStillCounts\nINVARIANT NamesTheFileOrKF\n" if source == "enum" else ""))
    tail = "CONSTRAINT EmitTerminal\n" if source == "enum" else "CONSTRAINT Accept\nPOSTCONDITION Post\n"
    return f"""SPECIFICATION Spec
CONSTANTS Source = "{source}"
  Objs = {objs}
  RichObjs = {rich}
  Interleave = {"TRUE" if interleave else "FALSE"}
  StaleNameKept = FALSE
  VarSourceIsNewParent = {"FALSE" if os.environ.get("VERIF_C16_VARSOURCE") == "fixed" else "TRUE"}
{tail}{inv}"""


# ------------------------------------------------------------------------------------------------ check
def run(ctx: Ctx) -> int:
    rng = random.Random(ctx.seed)
    ctx.register_matcher("rst-markup-line-off-by-one", kf_rst_line_not_converted)
    ctx.register_matcher("leading-ws-line-shift", kf_leading_ws)
    ctx.register_matcher("napoleon-line-beyond-docstring", kf_napoleon_beyond)
    ctx.register_matcher("docutils-extra-line-boundaries", kf_docutils_sep)
    ctx.register_matcher("type-field-offset-added-twice", kf_type_twice)
    ctx.register_matcher("consolidated-field-error-line", kf_cons_bad)
    ctx.register_matcher("reexported-variable-reported-in-package", kf_var_in_package)
    nproc = max(2, min(NCPU, 16))

    # ================================================================= Lines: spec -> code
    r = ctx.tlc("Lines", lines_cfg(ctx, "enum"), workers="auto", check=True, timeout=600)
    ctx.extra["lines_design_level_invariants_violated"] = list(r.violated)
    recs_by_key: Dict[str, Dict[str, Any]] = {}
    for rec in r.printed:
        recs_by_key[json.dumps(rec["lay"], sort_keys=True)] = rec
    recs = list(recs_by_key.values())
    if not recs:
        raise MachineryError("Lines: TLC emitted no layout")
    ctx.exhaustive = True
    ctx.extra["layouts"] = len(recs)
    by_fmt: Dict[str, List[Dict[str, Any]]] = {}
    for rec in recs:
        by_fmt.setdefault(rec["lay"]["fmt"] + ("+pt" if rec["lay"].get("pt") else ""), []).append(rec)
    jobs = []
    for fmt, rs in sorted(by_fmt.items()):
        rng.shuffle(rs)
        for bi, batch in enumerate(chunks(rs, 24)):
            jobs.append((str(ctx.scratch / f"L_{fmt}_{bi}"), fmt, list(batch)))
    with ProcessPoolExecutor(max_workers=nproc) as ex:
        results = list(ex.map(_lines_batch, jobs))

    observations: List[Dict[str, Any]] = []
    traces: List[Dict[str, Any]] = []
    drift = 0
    histories = 0
    drift_classes: Dict[str, int] = {}
    for res in results:
        if res["extra"]:
            raise MachineryError(f"problem lines for files the harness did not plant anything in: {res['extra']}")
        traces.append({"W": res["W"], "V": res["V"], "ev": res["events"], "planted": res["planted"],
                       "planted_unparsed": res["planted_unparsed"], "rc": res["rc"], "nprob": res["nprob"],
                       "violations": res["violations"], "origin": "lines-batch"})
        for o in res["obs"]:
            o["id"] = len(observations) + 1
            observations.append(o)
    for o in observations:
        rec = recs_by_key[json.dumps(o["lay"], sort_keys=True)]
        ctx.traces += 1
        exp = {"lo": rec["lo"], "hi": rec["hi"], "first": rec["first"], "at": rec["at"], "impl": rec["impl"], "impl2": rec["impl2"], "also": rec["also"], "count": rec["count"]}
        wit = {"layout": o["lay"], "expected": exp, "observed": {"lines": o["lines"], "msgs": o["msgs"]},
               "key": "lines:%s:%s:%s:%s:%s%s" % (o["lay"]["fmt"], o["lay"]["prob"], o["lay"]["pos"], o["lay"]["kind"],
                                                 "typed" if o["lay"]["typed"] else "", "longws" if o["lay"]["longws"] else "")
               + ("title" if o["lay"].get("lead") == "title" else "") + ("tight" if o["lay"].get("tight") else "")
               + (o["lay"].get("sep", "none") if o["lay"].get("sep", "none") != "none" else "") + ("cons" if o["lay"].get("cons") else "")
               + ("pt" if o["lay"].get("pt") else "") + ("ann" if o["lay"].get("ann") else "") + ("inl" if o["lay"].get("inl") else "")}
        want_n = rec["count"]
        if len(o["lines"]) != want_n:
            ctx.violation({"invariant": "ObsOne", **wit})          # the planted problem lost, or reported more often than the model says
        elif not o["path_ok"]:
            ctx.violation({"invariant": "NamesTheFile", **wit})
        elif not all(rec["lo"] <= x <= rec["hi"] or (rec["also"] and x == rec["also"]) for x in o["lines"]):
            ctx.violation({"invariant": "ObsAcceptable", **wit})
        if o.get("alone") is not None:
            histories += 1
            if o["alone"] != sorted(o["lines"]):          # the same docstring, the other order of summary / body
                ctx.violation({"invariant": "HistoryIndependent", **wit, "observed": {"lines": o["lines"], "render_alone": o["alone"], "msgs": o["msgs"]},
                               "key": "hist:" + wit["key"]})
        model_lines = sorted([rec["impl"]] + [rec["impl2"]] * (rec["count"] - 1))
        if len(o["lines"]) == want_n and sorted(o["lines"]) != model_lines:
            drift += 1
            ctx.drift_note({"layout": o["lay"], "model": model_lines, "real": o["lines"]})
            dk = "%s/%s/%s/args=%s/typed=%s/longws=%s: real-model=%d" % (
                o["lay"]["fmt"], o["lay"]["prob"], o["lay"]["pos"], o["lay"]["kind"] in ("function", "method", "class"),
                o["lay"]["typed"], str(o["lay"]["longws"]) + "/" + o["lay"].get("lead", "") + "/tight=%s/sep=%s/cons=%s" % (o["lay"].get("tight"), o["lay"].get("sep"), o["lay"].get("cons")),
                sorted(o["lines"])[-1] - model_lines[-1])
            drift_classes[dk] = drift_classes.get(dk, 0) + 1
        if o["id"] % 1500 == 1:
            ctx.sample({"layout": o["lay"], "accepted": [rec["lo"], rec["hi"]], "model": rec["impl"], "printed": o["lines"], "msg": o["msgs"][:1]})
    ctx.extra["lines_model_vs_code_mismatches"] = drift
    ctx.extra["layouts_run_in_both_histories"] = histories
    ctx.extra["lines_drift_classes"] = drift_classes

    # ================================================================= Lines: code -> spec (TLC judges the observations)
    obs_file = ctx.scratch / "obs.json"
    groups: Dict[str, List[int]] = {}
    for idx, o in enumerate(observations, 1):
        groups.setdefault(json.dumps({**o["lay"], "k": 0}, sort_keys=True), []).append(idx)
    obs_file.write_text(json.dumps({"obs": [{"id": o["id"], "lay": o["lay"], "lines": o["lines"]} for o in observations],
                                    "groups": [g for g in groups.values() if len(g) > 1]}))
    r2 = ctx.tlc("Lines", lines_cfg(ctx, "file"), workers="auto", env={"OBS_FILE": str(obs_file)}, check=True, timeout=900)
    verdicts = {v["id"]: v for v in r2.printed if "id" in v}
    shift = [v for v in r2.printed if "shift_bad" in v]
    if len(verdicts) != len(observations) or len(shift) != 1:
        raise MachineryError(f"Lines(file): {len(verdicts)} verdicts for {len(observations)} observations, {len(shift)} shift records")
    tlc_bad = 0
    for o in observations:
        v = verdicts[o["id"]]
        rec = recs_by_key[json.dumps(o["lay"], sort_keys=True)]
        py_ok = len(o["lines"]) == rec["count"] and all(rec["lo"] <= x <= rec["hi"] or (rec["also"] and x == rec["also"]) for x in o["lines"])
        if v["ok"] != py_ok:
            raise MachineryError(f"TLC and the Python twin disagree on observation {o}: {v}")
        if not v["ok"]:
            tlc_bad += 1
    ctx.extra["lines_observations_rejected_by_tlc"] = tlc_bad
    byid = {o["id"]: o for o in observations}
    for pair in shift[0]["shift_bad"]:
        a, b = byid[pair[0]], byid[pair[1]]
        ctx.violation({"invariant": "ShiftByK", "layout": a["lay"], "other": b["lay"],
                       "observed": {"lines": a["lines"], "other_lines": b["lines"]},
                       "expected": {"delta": b["lay"]["k"] - a["lay"]["k"]},
                       "key": "shift:%s:%s:%s" % (a["lay"]["fmt"], a["lay"]["prob"], a["lay"]["kind"])})
    ctx.extra["shift_pairs_violating"] = len(shift[0]["shift_bad"])
    ctx.extra["shift_pairs_checked_by_tlc"] = shift[0]["pairs"]

    # ================================================================= ExitStatus: spec -> code
    if ctx.quick:
        objs, rich, inter = "{1, 2}", "{1}", True
    else:
        objs, rich, inter = "{1, 2}", "{1, 2}", False
    r3 = ctx.tlc("ExitStatus", exit_cfg("enum", objs, rich, inter), workers="auto", check=True, coverage=ctx.quick, timeout=900)
    ctx.extra["exit_design_level_invariants_violated"] = list(r3.violated)
    runs: Dict[str, Dict[str, Any]] = {}
    nondet = 0
    for rec in r3.printed:
        key = json.dumps([rec["cfg"], rec["W"], rec["V"]], sort_keys=True)
        if key in runs and runs[key] != rec:
            nondet += 1                                   # two interleavings, two outcomes: design-level only
        runs[key] = rec
    ctx.extra["exit_runs_enumerated"] = len(runs)
    ctx.extra["exit_interleavings_with_different_outcome"] = nondet
    if r3.coverage:
        ctx.extra["exit_action_coverage"] = r3.coverage
    runlist = list(runs.values())
    if not ctx.quick:                      # symmetric halves carry nothing new: keep cfg[1] >= cfg[2] (as JSON text)
        runlist = [x for x in runlist if json.dumps(x["cfg"][0], sort_keys=True) >= json.dumps(x["cfg"][1], sort_keys=True)]
    ejobs = [(str(ctx.scratch / f"E_{i}"), x) for i, x in enumerate(runlist)]
    with ProcessPoolExecutor(max_workers=nproc) as ex:
        eres = list(ex.map(_exit_job, ejobs, chunksize=8))
    exit_drift = 0
    for er in eres:
        ctx.traces += 1
        x = er["run"]
        bad = judge_exit(er["rc"], er["W"], er["nprob"], er["violations"], er["planted"], er["planted_unparsed"])
        if er["misnamed"] or sum(er["named"]) != er["nprob"]:
            bad.append("NamesTheFile")            # a problem line names a file that does not contain the docstring at fault
        if bad:
            ctx.violation({"invariant": bad[0], "failed": bad, "run": x, "misnamed": er["misnamed"],
                           "observed": {"exit": er["rc"], "violations": er["violations"], "problem_lines": er["nprob"]},
                           "expected": {"planted": er["planted"], "unparsed": er["planted_unparsed"]},
                           "key": "exit:%s:W=%s:%s" % (bad, er["W"], sorted(str(k) + ("=" + v if k == "shape" else "") for c in x["cfg"] for k, v in c.items() if v and k != "fmt"))})
        if (er["rc"], er["violations"], er["nprob"], er["named"]) != (x["exit"], x["violations"], x["printed"], x["named"]):
            exit_drift += 1
            ctx.drift_note({"run": x, "real": {"exit": er["rc"], "violations": er["violations"], "printed": er["nprob"]}})
        traces.append({"W": er["W"], "V": er["V"], "ev": er["events"], "planted": er["planted"], "rc": er["rc"],
                       "planted_unparsed": er["planted_unparsed"], "nprob": er["nprob"], "violations": er["violations"],
                       "origin": "exit-run"})
    ctx.extra["exit_model_vs_code_mismatches"] = exit_drift
    if eres:
        ctx.sample({"exit_run": eres[len(eres) // 2]["run"], "real_exit": eres[len(eres) // 2]["rc"]})

    # the layout batches are runs too: judge their exit status against the planted ground truth
    for t in traces:
        if t["origin"] == "lines-batch":
            bad = judge_exit(t["rc"], t["W"], t["nprob"], t["violations"], t["nprob"], t["planted_unparsed"])
            if bad:
                ctx.violation({"invariant": bad[0], "failed": bad, "origin": "lines-batch",
                               "observed": {"exit": t["rc"], "violations": t["violations"], "problem_lines": t["nprob"]},
                               "key": "exit-batch:%s" % bad})

    # ---- a sample through the real command line (the real process exit status)
    nsub = 6 if ctx.quick else 24
    cand = [er for er in eres if not any(c["expr"] for c in er["run"]["cfg"])]
    rng.shuffle(cand)
    picked: List[Dict[str, Any]] = []
    seen_exit = set()
    for er in cand:                                        # one per (exit, W) first, then fill up
        if (er["rc"], er["W"]) not in seen_exit:
            seen_exit.add((er["rc"], er["W"]))
            picked.append(er)
    picked += [er for er in cand if er not in picked][: max(0, nsub - len(picked))]
    sub_mismatch = 0
    env = dict(os.environ)
    for i, er in enumerate(picked[:max(nsub, len(seen_exit))]):
        root = str(ctx.scratch / f"S_{i}")
        pkg, planted, _ = exit_project(root, er["run"])
        args = (["-W"] if er["W"] else []) + (["-q"] if er["V"] == -1 else [])
        p = subprocess.run([sys.executable, "-m", "pydoctor", *args, "--html-output=" + root + "/out", "--project-name=x", pkg],
                           capture_output=True, text=True, env=env, timeout=300)
        nprob = sum(1 for l in p.stdout.splitlines() if PROBLEM_RE.match(l) and PROBLEM_RE.match(l).group(1).endswith(".py"))
        ctx.traces += 1
        bad = judge_exit(p.returncode, er["W"], nprob, max(nprob, er["violations"]), planted, er["planted_unparsed"])
        if bad:
            ctx.violation({"invariant": bad[0], "failed": bad, "run": er["run"], "origin": "subprocess",
                           "observed": {"exit": p.returncode, "problem_lines": nprob, "stderr": p.stderr[-400:]},
                           "expected": {"planted": planted, "unparsed": er["planted_unparsed"]},
                           "key": "exit-sub:%s:W=%s" % (bad, er["W"])})
        if p.returncode != er["rc"] or nprob != er["nprob"]:
            sub_mismatch += 1
            ctx.drift_note({"subprocess_vs_inprocess": er["run"], "sub": [p.returncode, nprob], "inproc": [er["rc"], er["nprob"]]})
    ctx.extra["subprocess_runs"] = len(picked[:max(nsub, len(seen_exit))])
    ctx.extra["subprocess_vs_inprocess_mismatches"] = sub_mismatch

    # ================================================================= ExitStatus: code -> spec (trace validation)
    def validate(trs: List[Dict[str, Any]], count: bool = True) -> Tuple[set, List[str]]:
        f = ctx.scratch / "traces.json"
        f.write_text(json.dumps([{"W": t["W"], "V": t["V"], "ev": t["ev"]} for t in trs]))
        rr = ctx.tlc("ExitStatus", exit_cfg("file", "{}", "{}", False), workers=1, env={"TRACE_FILE": str(f)},
                     check=False, timeout=900, count=count, extra=["-continue"])
        hard = [e for e in rr.errors if "behavior up to this point" not in e]
        if hard or (rr.rc != 0 and not rr.violated):
            raise MachineryError(f"ExitStatus(file): TLC failed rc={rr.rc} {hard[:3]}\n" + "\n".join(rr.out.splitlines()[-20:]))
        acc = [v for v in rr.printed if "accepted" in v]
        if len(acc) != 1:
            raise MachineryError("ExitStatus(file): no acceptance record\n" + "\n".join(rr.out.splitlines()[-20:]))
        return set(acc[0]["accepted"]), list(rr.violated)

    rejected = 0
    inv_violated: List[str] = []
    for batch in chunks(traces, 400):
        accepted, viol = validate(list(batch))
        inv_violated += viol
        for i, t in enumerate(batch, 1):
            ctx.traces += 1
            if i not in accepted:
                rejected += 1
                # a real run that is not a behaviour of the model: conformance, unless the property fails too (judged above)
                ctx.drift_note({"trace_rejected": t["origin"], "W": t["W"], "V": t["V"], "events_tail": t["ev"][-4:]})
    ctx.extra["traces_validated"] = len(traces)
    ctx.extra["traces_rejected"] = rejected
    ctx.extra["trace_invariants_violated_in_tlc"] = sorted(set(inv_violated))
    if inv_violated and not ctx.violations and not ctx.known_seen:
        raise MachineryError(f"TLC reports {inv_violated} on recorded traces but the Python twin accepted every run")

    # ================================================================= negative controls
    nc: Dict[str, bool] = {}
    good = next((o for o in observations if len(o["lines"]) == 1 and verdicts[o["id"]]["ok"] and o["lay"]["fmt"] == "epytext"), None)
    if good is not None:
        rec = recs_by_key[json.dumps(good["lay"], sort_keys=True)]
        bad_obs = [{"id": 1, "lay": good["lay"], "lines": [rec["hi"] + 1]},
                   {"id": 2, "lay": good["lay"], "lines": []},
                   {"id": 3, "lay": {**good["lay"], "k": 7 if good["lay"]["k"] != 7 else 0}, "lines": good["lines"]}]
        f = ctx.scratch / "obs_nc.json"
        f.write_text(json.dumps({"obs": bad_obs, "groups": [[2, 3], [1, 3]]}))
        rn = ctx.tlc("Lines", lines_cfg(ctx, "file"), workers=1, env={"OBS_FILE": str(f)}, check=True, count=False)
        vv = {v["id"]: v for v in rn.printed if "id" in v}
        sh = [v for v in rn.printed if "shift_bad" in v]
        nc["lines_corrupted_line_rejected"] = not vv[1]["ok"] and not vv[2]["ok"] and not vv[2]["one"]
        nc["lines_shift_detected"] = bool(sh and sh[0]["shift_bad"])
    tr = next((t for t in traces if t["origin"] == "exit-run" and t["nprob"] > 0), None)
    if tr is not None:
        broken1 = json.loads(json.dumps(tr))
        for e in broken1["ev"]:
            if e["op"] == "msg" and e["thresh"] < 0:
                e["v"] -= 1                                  # a problem that was printed but not counted
                break
            if e["op"] == "reportErrors":
                e["v"] -= 1
                break
        broken2 = json.loads(json.dumps(tr))
        broken2["ev"][-1]["code"] = 0 if broken2["ev"][-1]["code"] else 3     # wrong exit status
        acc, _ = validate([tr, broken1, broken2], count=False)
        nc["trace_uncounted_problem_rejected"] = 2 not in acc
        nc["trace_wrong_exit_rejected"] = 3 not in acc
        nc["trace_genuine_accepted"] = 1 in acc
    ctx.extra["negative_control"] = nc
    if not nc or not all(nc.values()):
        raise MachineryError(f"negative control failed: {nc}")

    ctx.assumptions += [
        "reading: epytext/reST - any line from the first line of the paragraph / list item / field down to the line of the "
        "problem itself is accepted (pydoctor's reST cross-reference messages name the exact line); google/numpy - any line "
        "from the opening to the closing quotes",
        "default verbosity and -q; with -qq nothing is printed and the statement's 'reported' has no observable meaning",
        "exit status 2 <=> some object is in System.parse_errors (bad docstring: / bad signature:), DESIGN.md 5/C16; an "
        "unparsable regular expression in a constant is a counted warning, not a parse error",
        "the 'signature cannot be rendered' problem is produced by fault injection (pages.html2stan raising), in-process only",
        "one fixed docstring template per docformat; the parsers' own line attribution for it is an environment model "
        "(Lines.tla ParserFirst/ParserAt/ConvShift) bound by the conformance run",
    ]
    return ctx.finish(
        rule="layouts enumerated by TLC from Lines.tla, one generated module each, run through driver.main; runs enumerated by "
             "TLC from ExitStatus.tla, one project each; every real run recorded and validated by TLC. distinct = distinct "
             "layouts + distinct runs; non-trivial = all (every layout plants a problem), runs with at least one problem",
        distinct_nontrivial=len(recs) + sum(1 for x in runlist if x["printed"] > 0))


def replay(ctx: Ctx, path: str) -> int:
    w = json.load(open(path))
    bad: List[str] = []
    if "layout" in w and w.get("invariant") != "ShiftByK":
        L = w["layout"]
        src, meas = render(L)
        root = str(ctx.scratch / "R")
        pkg = os.path.join(root, "pkg")
        os.makedirs(pkg)
        Path(pkg, "__init__.py").write_text('"""Pkg."""\n')
        Path(pkg, "m.py").write_text(src)
        r = run_pydoctor(root, pkg, ["--docformat=" + L["fmt"]])
        got = [g[0] for g in r["per_file"].get("m.py", [])]
        exp = w["expected"]
        print("replay: printed lines", got, "accepted", [exp["lo"], exp["hi"]])
        if len(got) != exp.get("count", 1):
            bad.append("ObsOne")
        elif not all(exp["lo"] <= g <= exp["hi"] or g == exp.get("also") for g in got):
            bad.append("ObsAcceptable")
    elif w.get("invariant") == "ShiftByK":
        lines = []
        for L in (w["layout"], w["other"]):
            src, _ = render(L)
            root = str(ctx.scratch / ("R%d" % len(lines)))
            pkg = os.path.join(root, "pkg")
            os.makedirs(pkg)
            Path(pkg, "__init__.py").write_text('"""Pkg."""\n')
            Path(pkg, "m.py").write_text(src)
            r = run_pydoctor(root, pkg, ["--docformat=" + L["fmt"]])
            lines.append([g[0] for g in r["per_file"].get("m.py", [])])
        print("replay: printed lines", lines, "expected delta", w["expected"]["delta"])
        if len(lines[0]) != 1 or len(lines[1]) != 1 or lines[1][0] - lines[0][0] != w["expected"]["delta"]:
            bad.append("ShiftByK")
    elif "run" in w:
        er = _exit_job((str(ctx.scratch / "R"), w["run"]))
        bad = judge_exit(er["rc"], er["W"], er["nprob"], er["violations"], er["planted"], er["planted_unparsed"])
        if er["misnamed"] or sum(er["named"]) != er["nprob"]:
            bad.append("NamesTheFile")
        print("replay: files named that hold no planted docstring:", er["misnamed"])
        print("replay: exit", er["rc"], "violations", er["violations"], "problem lines", er["nprob"], "planted", er["planted"])
    else:
        print("replay: witness of a whole batch, re-run the check")
    print("replay:", "still violated: " + ",".join(bad) if bad else "holds now")
    if bad:
        print(f"VIOLATION property=C16 replay={path}")
    ctx.cleanup()
    return 1 if bad else 0
