"""
C05 - inheritance is computed as Python computes it.

spec -> code : TLC enumerates from spec/MRO.tla every hierarchy of <= 5 classes (10 400), every placement of a
               member / docstring on every hierarchy of <= 4 classes, and every base graph over 3 one-class modules
               (cycles included).  Each enumerated case is rendered to Python source (many cases per generated module,
               unique class names), built ONCE per batch by the real pydoctor, and Class.mro() / find() /
               docsources() / get_docstring() / the inherited-member tables / the 'mro' warnings are read back.
               verdict     : Real(x) vs the spec's REFERENCE (C3, attribute lookup along C3)
               conformance : Real(x) vs the spec's MODEL of pydoctor (PdMro, Dfs, AllBases ...) -> drift
               machinery   : the spec's C3 vs CPython's type(name, bases, {}) (and real attribute lookup)
thorough     : + the 'empty docstring' member state, + random larger hierarchies spread over three modules with import
               cycles (second pass of base resolution), handed to TLC through a JSON file, cross-checked by importing
               the generated modules in a CPython subprocess.
"""
from __future__ import annotations

import inspect
import json
import multiprocessing as mp
import os
import random
import re
import subprocess
import sys
import threading
from typing import Any, Dict, List, Optional, Tuple

from ..core import Ctx, MachineryError, chunks, load_known_findings

BAD, CYCLIC = [0], [0, 0]
IFACE = 99          # MRO.tla IFACE: the member as declared by the interface I
INVARIANTS = ["MroIsC3", "InconsistentReported", "RefLaws", "FindIsLookup", "BodyLookupIsLexical", "InheritedTable", "PageTables", "OverridesNote",
              "SourcesAreOverridden", "DocIsInherited",
              "EarlyIsLookupOrKF"]
KF_EARLY = "early-lookup-depth-first"
KF_LATE = "early-lookup-before-base-resolved"


def early_order() -> str:
    """What the model assumes Class.mro() answers before post-processing: the code as it is while the finding is open,
    the repaired behaviour once known_findings.json says it is fixed (VERIF_C05_EARLY overrides: used to try the fix)."""
    if os.environ.get("VERIF_C05_EARLY"):
        return os.environ["VERIF_C05_EARLY"]
    st = [f.get("status") for f in load_known_findings("C05") if f.get("id") == KF_EARLY]
    return "c3" if st and st[0] == "fixed" else "allbases"


def cfg_text(source: str, maxn: int, docstates: List[str], invariants: bool = True, late_orders: str = "all",
             late_backs: str = "upto1", split_sample: str = "all") -> str:
    inv = "".join(f"INVARIANT {i}\n" for i in INVARIANTS) if invariants else ""
    ds = "{" + ", ".join(json.dumps(d) for d in docstates) + "}"
    return (f"SPECIFICATION Spec\nCONSTANTS MaxN = {maxn}\n          Source = \"{source}\"\n"
            f"          DocStates = {ds}\n          EarlyOrder = \"{early_order()}\"\n          LateOrders = \"{late_orders}\"\n          LateBacks = \"{late_backs}\"\n          SplitSample = \"{split_sample}\"\n"
            f"CONSTRAINT Emit\n{inv}")


# ----------------------------------------------------------------------------------- rendering a case
def subscripted(h: int, c: int, j: int) -> bool:
    """generic-subscripted bases count as the class: a deterministic quarter of the bases is written `B[int]`"""
    return (h * 7 + c * 3 + j) % 4 == 0


def body_lines(tag: str, state: str, nested: bool = False) -> List[str]:
    if state == "absent":
        return ["    pass"]
    if nested:            # the member is a nested class
        return ["    class f:", {"nodoc": "        pass", "doc": f'        """doc of {tag}"""', "empty": '        ""'}[state]]
    if state == "nodoc":
        return ["    def f(self):", "        pass"]
    if state in ("doc", "hidden"):        # hidden: documented like any other, made HIDDEN by the privacy rules
        return ["    def f(self):", f'        """doc of {tag}"""']
    if state == "empty":
        return ["    def f(self):", '        ""']
    raise MachineryError(f"unknown member state {state}")


def layout_of(rec: Dict[str, Any]) -> Dict[str, Any]:
    """Where each class of a case lives. Enumerated cases: one module for the whole batch (layout None)."""
    return rec.get("layout") or {"kind": "single"}


def early_classes(rec: Dict[str, Any]) -> List[int]:
    """classes through which `C.f` is a legal Python expression (spec: consistent and the lookup finds a definition)"""
    if rec.get("early", "none") in ("none", "shadow"):
        return []
    return [c for c in range(1, rec["n"] + 1) if rec["c3"][c - 1] not in (BAD, CYCLIC) and rec["find_ref"][c - 1]]


def render_case(h: int, rec: Dict[str, Any]) -> Dict[str, Any]:
    """
    -> {"modules": [(modname | None, [lines])], "where": {c: (module key, class name, line offset in module text)}}
    modname None = append to the shared batch module.
    """
    n, bases, member = rec["n"], rec["bases"], rec["member"]
    lay = layout_of(rec)
    early = rec.get("early", "none")
    cname = lambda c: f"K{h}_{c}"
    if lay["kind"] == "single":
        lines: List[str] = []
        where: Dict[int, Tuple[Optional[str], str, int]] = {}
        impl = set((rec.get("lay") or {}).get("impl") or [])
        if impl:            # an interface that declares and documents the member
            lines += [f"class I{h}(Interface):", "    def f():", f'        """doc of I{h}"""']
        for c in range(1, n + 1):
            bs = [cname(b) + ("[int]" if subscripted(h, c, j) else "") for j, b in enumerate(bases[c - 1])]
            where[c] = (None, cname(c), len(lines) + 1)          # a decorated class is located at its first decorator
            if c in impl:
                lines.append(f"@implementer(I{h})")
            lines.append(f"class {cname(c)}({', '.join(bs)}):" if bs else f"class {cname(c)}:")
            if early == "names":
                # the class binds f by a nested class ("nodoc") or by an alias written in its body ("doc"), or not at all;
                # then a bare `f` is used in the class body: Python looks it up in the body, then in the module
                if member[c - 1] == "nodoc":
                    lines += ["    class f:", "        pass"]
                elif member[c - 1] != "absent":
                    lines.append(f"    f = A{h}_{c}")
                lines += ["    class Y(f):", "        pass"]
            else:
                lines += body_lines(cname(c), member[c - 1], nested=(early == "nested"))
        # early dotted lookups through every class Python can look the member up in, AFTER the class statements:
        # they are evaluated while the module is analysed, before any MRO is computed
        for c in early_classes(rec):
            if early == "alias":
                lines.append(f"a{h}_{c} = {cname(c)}.f")
            elif early in ("nested", "names"):
                lines += [f"class X{h}_{c}({cname(c)}.f):", "    pass"]
        if early == "names":       # the alias targets, defined before the hierarchy
            pre = [f"class A{h}_{c}: pass" for c in range(1, n + 1) if member[c - 1] not in ("absent", "nodoc")]
            lines = pre + lines
            where = {c: (mk, cn, ln + len(pre)) for c, (mk, cn, ln) in where.items()}
        return {"modules": [(None, lines)], "where": where}
    if lay["kind"] == "graph":
        # one class per module, plain `import`: no processing is triggered, modules are processed in the order added
        mods = []
        where = {}
        for c in range(1, n + 1):
            mn = f"g{h}_m{c}"
            lines = [f"import g{h}_m{b}" for b in sorted(set(bases[c - 1]))]
            bs = [f"g{h}_m{b}.{cname(b)}" + ("[int]" if subscripted(h, c, j) else "") for j, b in enumerate(bases[c - 1])]
            where[c] = (mn, cname(c), len(lines) + 1)
            lines.append(f"class {cname(c)}({', '.join(bs)}):" if bs else f"class {cname(c)}:")
            lines += body_lines(cname(c), member[c - 1])
            mods.append((mn, lines))
        return {"modules": mods, "where": where}
    if lay["kind"] == "split":
        # two modules importing each other (MRO.tla Source "split"): A = classes 1..sp ; import B ; classes sp+1..n-1,
        # B = import A ; class n.  A is added first.
        sp = rec["lay"]["split"]
        a, b_ = f"sa{h}", f"sb{h}"
        la: List[str] = []
        where = {}
        for c in range(1, n):
            if c == sp + 1:
                la.append(f"import {b_}")
            bs = [cname(x) + ("[int]" if subscripted(h, c, j) else "") for j, x in enumerate(bases[c - 1])]
            where[c] = (a, cname(c), len(la) + 1)
            la.append(f"class {cname(c)}({', '.join(bs)}):" if bs else f"class {cname(c)}:")
            la += body_lines(cname(c), member[c - 1])
        if sp + 1 >= n:
            la.append(f"import {b_}")
        bs = [f"{a}.{cname(x)}" + ("[int]" if subscripted(h, n, j) else "") for j, x in enumerate(bases[n - 1])]
        lb = [f"import {a}", f"class {cname(n)}({', '.join(bs)}):" if bs else f"class {cname(n)}:"] + body_lines(cname(n), member[n - 1])
        where[n] = (b_, cname(n), 2)
        return {"modules": [(a, la), (b_, lb)], "where": where}
    if lay["kind"] == "late":
        # one class per module; the modules are ADDED in lay.order; module c = [`if TYPE_CHECKING: import x` when
        # lay.back = [c, x]] ; `import` of the bases' modules ; class ; early lookups.  Every import has the imported
        # module analysed on the spot unless it is being analysed (cycle), so a base is unknown at the class statement
        # only through the TYPE_CHECKING cycle.  Legal Python from any entry point: the executed imports follow the
        # (acyclic) hierarchy.
        mods = []
        where = {}
        for c in rec["lay"]["order"]:
            mn = f"l{h}_m{c}"
            lines = []
            back = [x for (bc, x) in rec["lay"]["back"] if bc == c]
            if back:
                lines += ["from typing import TYPE_CHECKING", "if TYPE_CHECKING:"] + [f"    import l{h}_m{x}" for x in back]
            if early == "shadow":
                # the bases are imported BY NAME and the first of those names is bound again, after the class statement,
                # to a class of this module deriving from it: `from m import B ; class C(B) ; class B(B)`
                lines += [f"from l{h}_m{b} import {cname(b)}" for b in sorted(set(bases[c - 1]))]
                bs = [cname(b) + ("[int]" if subscripted(h, c, j) else "") for j, b in enumerate(bases[c - 1])]
            else:
                lines += [f"import l{h}_m{b}" for b in sorted(set(bases[c - 1]))]
                bs = [f"l{h}_m{b}.{cname(b)}" + ("[int]" if subscripted(h, c, j) else "") for j, b in enumerate(bases[c - 1])]
            where[c] = (mn, cname(c), len(lines) + 1)
            lines.append(f"class {cname(c)}({', '.join(bs)}):" if bs else f"class {cname(c)}:")
            lines += body_lines(cname(c), member[c - 1], nested=(early == "nested"))
            if early == "shadow" and bases[c - 1]:
                lines += [f"class {cname(bases[c - 1][0])}({cname(bases[c - 1][0])}):", "    pass"]
            if c in early_classes(rec):
                if early == "alias":
                    lines.append(f"a{h}_{c} = {cname(c)}.f")
                elif early == "nested":
                    lines += [f"class X{h}_{c}({cname(c)}.f):", "    pass"]
            mods.append((mn, lines))
        return {"modules": mods, "where": where}
    if lay["kind"] == "segments":
        return render_segments(h, rec, python=False)
    raise MachineryError(f"unknown layout {lay}")


def segments_plan(h: int, rec: Dict[str, Any]) -> Dict[str, Any]:
    """
    Classes 1..n in Python's execution order are cut into five runs living in m1, m2, m3, m2, m1:
        m1: run1 ; import m2 [; import m3] ; run5        m2: import m1 ; run2 ; import m3 ; run4       m3: import m1, m2 ; run3
    Entering at m1 Python executes the class statements in the order 1..n, so the program is legal whenever every base
    is an earlier class.  form[(a, b)] = "from" | "import" is how module a refers to module b.
    """
    n, bases = rec["n"], rec["bases"]
    cuts, form = rec["layout"]["cuts"], rec["layout"]["form"]
    run_mod = [1, 2, 3, 2, 1]
    modof, runof = {}, {}
    for c in range(1, n + 1):
        r = sum(1 for x in cuts if c > x)          # run index 0..4
        runof[c], modof[c] = r, run_mod[r]
    mn = lambda m: f"s{h}_m{m}"
    cname = lambda c: f"K{h}_{c}"
    runs = {r: [c for c in range(1, n + 1) if runof[c] == r] for r in range(5)}

    def needed(importer_run_set: List[int], target: int) -> List[int]:
        """classes of module `target` used as bases by classes in the given runs"""
        out = []
        for r in importer_run_set:
            for c in runs[r]:
                for b in bases[c - 1]:
                    if modof[b] == target and b not in out:
                        out.append(b)
        return sorted(out)

    # statements per module: ("import", importer, target, names) | ("class", c)
    prog = {1: [], 2: [], 3: []}
    prog[1] += [("class", c) for c in runs[0]]
    prog[1] += [("import", 1, 2, needed([4], 2)), ("import", 1, 3, needed([4], 3))]
    prog[1] += [("class", c) for c in runs[4]]
    prog[2] += [("import", 2, 1, needed([1, 3], 1))]
    prog[2] += [("class", c) for c in runs[1]]
    prog[2] += [("import", 2, 3, needed([3], 3))]
    prog[2] += [("class", c) for c in runs[3]]
    prog[3] += [("import", 3, 1, needed([2], 1)), ("import", 3, 2, needed([2], 2))]
    prog[3] += [("class", c) for c in runs[2]]

    def is_from(a: int, b: int, names: List[int]) -> bool:
        return bool(names) and form[f"{a}{b}"] == "from"

    # pydoctor's creation order: modules in the order added; any import processes the module first when still unprocessed
    born: Dict[int, int] = {}
    state = {1: "un", 2: "un", 3: "un"}

    def process(m: int) -> None:
        state[m] = "ing"
        for st in prog[m]:
            if st[0] == "class":
                born[st[1]] = len(born) + 1
            elif state[st[2]] == "un":          # `import x` and `from x import ..` alike (since /repo 54d0328)
                process(st[2])
        state[m] = "done"

    for m in (1, 2, 3):
        if state[m] == "un":
            process(m)
    return {"prog": prog, "modof": modof, "mn": mn, "cname": cname, "is_from": is_from, "born": [born[c] for c in range(1, n + 1)]}


def render_segments(h: int, rec: Dict[str, Any], python: bool) -> Dict[str, Any]:
    """python=True: the variant executed by CPython (no subscripts: plain classes are not subscriptable)"""
    plan = segments_plan(h, rec)
    bases, member = rec["bases"], rec["member"]
    mn, cname, modof = plan["mn"], plan["cname"], plan["modof"]
    mods, where = [], {}
    for m in (1, 2, 3):
        lines: List[str] = []
        from_imported: set = set()
        for st in plan["prog"][m]:
            if st[0] == "import":
                _, a, b, names = st
                if plan["is_from"](a, b, names):
                    lines.append(f"from {mn(b)} import {', '.join(cname(x) for x in names)}")
                    from_imported |= set(names)
                else:
                    lines.append(f"import {mn(b)}")
            else:
                c = st[1]
                bs = []
                for j, b in enumerate(bases[c - 1]):
                    ref = cname(b) if (modof[b] == m or b in from_imported) else f"{mn(modof[b])}.{cname(b)}"
                    bs.append(ref + ("[int]" if (subscripted(h, c, j) and not python) else ""))
                where[c] = (mn(m), cname(c), len(lines) + 1)
                lines.append(f"class {cname(c)}({', '.join(bs)}):" if bs else f"class {cname(c)}:")
                lines += body_lines(cname(c), member[c - 1])
        mods.append((mn(m), lines))
    return {"modules": mods, "where": where}


# ------------------------------------------------------------------------------ the real pydoctor on a batch
def binding_code(obj: Any, h: int, ix: Any) -> int:
    """variant "names": c for the nested class K_c.f, 100 + c for the alias target A_c, 200 for the module-level f"""
    if obj is None:
        return -1
    if obj.name == "f":
        return 200 if obj.parent is obj.module else ix(obj.parent)
    m_ = re.match(rf"^A{h}_(\d+)$", obj.name)
    return 100 + int(m_.group(1)) if m_ else -1


def binding_target(member: List[str], c: int) -> int:
    """what class c binds f to (variant "names"): its nested class, or the target of its alias"""
    return c if member[c - 1] == "nodoc" else 100 + c


def observe_batch(batch: List[Tuple[int, Dict[str, Any]]]) -> List[Dict[str, Any]]:
    """Build all cases of the batch in ONE System; return what the real code says per case."""
    from pydoctor import model, epydoc2stan
    from pydoctor.stanutils import flatten_text
    from pydoctor.templatewriter import util
    from pydoctor.templatewriter.pages import get_override_info, ClassPage
    from pydoctor.templatewriter import TemplateLookup
    from twisted.web.template import tags as _tags
    import importlib.resources as _ir
    lookup_ = TemplateLookup(_ir.files("pydoctor.themes") / "base")

    class S(model.System):
        def __init__(self, *a: Any, **k: Any) -> None:
            self.captured: List[Tuple[str, str]] = []
            super().__init__(*a, **k)

        def msg(self, section: str, msg: str, thresh: int = 0, topthresh: int = 100, nonl: bool = False,
                wantsnl: bool = True, once: bool = False) -> None:
            self.captured.append((section, msg))

        hidden_names: set = set()

        def privacyClass(self, ob: Any) -> Any:       # what `--privacy=HIDDEN:<full name>` does, for thousands of names
            if ob.fullName() in self.hidden_names:
                return model.PrivacyClass.HIDDEN
            return super().privacyClass(ob)

    shared = "b%d" % batch[0][0]
    shared_lines: List[str] = ["from zope.interface import Interface, implementer", "class f: pass"]
    modules: List[Tuple[str, List[str]]] = []
    wheres = []
    for h, rec in batch:
        r = render_case(h, rec)
        where = {}
        for mname, lines in r["modules"]:
            if mname is None:
                off = len(shared_lines)
                shared_lines += lines
                for c, (mk, cn, ln) in r["where"].items():
                    if mk is None:
                        where[c] = (shared, cn, ln + off)
            else:
                modules.append((mname, lines))
        for c, (mk, cn, ln) in r["where"].items():
            if mk is not None:
                where[c] = (mk, cn, ln)
        wheres.append(where)
    system = S()
    system.hidden_names = {f"{where[c][0]}.{where[c][1]}.f" for (h, rec), where in zip(batch, wheres)
                           for c in range(1, rec["n"] + 1) if rec["member"][c - 1] == "hidden"}
    builder = system.systemBuilder(system)
    if len(shared_lines) > 2:
        builder.addModuleString("\n".join(shared_lines) + "\n", modname=shared)
    for mname, lines in modules:
        builder.addModuleString("\n".join(lines) + "\n", modname=mname)
    builder.buildModules()
    # 'mro' warnings by (module, line)
    warned: Dict[Tuple[str, int], List[str]] = {}
    for section, text in system.captured:
        if section != "mro":
            continue
        m = re.match(r"^(.+?):(\d+): (.*)$", text, re.S)
        if not m:
            warned.setdefault(("?", 0), []).append(text)
            continue
        warned.setdefault((m.group(1), int(m.group(2))), []).append(m.group(3))
    out = []
    for (h, rec), where in zip(batch, wheres):
        n = rec["n"]
        objs = {}
        for c in range(1, n + 1):
            objs[c] = system.allobjects.get(f"{where[c][0]}.{where[c][1]}")
        idx = {id(o): c for c, o in objs.items() if o is not None}
        iface = system.allobjects.get(f"{where[1][0]}.I{h}")
        if iface is not None:
            idx[id(iface)] = IFACE
        ix = lambda o: idx.get(id(o), -1) if o is not None else 0
        o_mro, o_warn, o_find, o_src, o_doc, o_doctext, o_inh, o_ovr, o_first, o_present = [], [], [], [], [], [], [], [], [], []
        for c in range(1, n + 1):
            cls = objs[c]
            if not isinstance(cls, model.Class):
                o_present.append(False)
                for l in (o_mro, o_src, o_inh, o_first):
                    l.append([])
                for l in (o_find, o_doc, o_ovr):
                    l.append(-1)
                o_warn.append("none")
                o_doctext.append(None)
                continue
            has_f = rec["member"][c - 1] != "absent"
            o_present.append((not has_f) or "f" in cls.contents)
            o_mro.append([ix(x) for x in cls.mro()])
            ws = warned.get((where[c][0], where[c][2]), [])
            o_warn.append("none" if not ws else "cycle" if any(w.startswith("Cycle found") for w in ws)
                          else "linearization" if any(w.startswith("Cannot compute linearization") for w in ws) else "other")
            f = cls.find("f")
            o_find.append(ix(f.parent) if f is not None else 0)
            own = cls.contents.get("f")
            if own is not None:
                o_src.append([ix(s.parent) for s in own.docsources()])
                doc, src = model.get_docstring(own)
                o_doc.append(ix(src.parent) if (doc is not None and src is not None) else 0)
                o_doctext.append(doc)
                ov = -2
                for d in get_override_info(cls, "f", page_url="index.html"):
                    t = flatten_text(d)
                    if t.startswith("overrides "):
                        target = system.allobjects.get(t[len("overrides "):].strip())
                        ov = ix(target.parent) if target is not None else -1
                o_ovr.append(0 if ov == -2 else ov)
            else:
                o_src.append([])
                o_doc.append(0)
                o_doctext.append(None)
                o_ovr.append(0)
            # the class page's member tables: own members, then "Inherited from X" per chain of nested_bases
            o_inh.append([ix(chain[0]) for chain in util.nested_bases(cls)
                          if any(a.name == "f" for a in util.unmasked_attrs(chain))])
            o_first.append([b is not None for b in cls._initialbaseobjects])
        # rendering history: the members' docstrings are rendered one after the other (ascending class order for even
        # cases, descending for odd ones); what is rendered must not depend on what was rendered before
        o_render = [0] * n
        if rec.get("early", "none") not in ("nested", "names"):
            for c in (range(1, n + 1) if h % 2 == 0 else range(n, 0, -1)):
                own = objs[c].contents.get("f") if isinstance(objs[c], model.Class) else None
                if own is None:
                    continue
                epydoc2stan.ensure_parsed_docstring(own)
                pd = own.parsed_docstring
                text = pd.to_node().astext().strip() if pd is not None and pd.has_body else ""
                m_ = re.match(rf"^doc of (K|I){h}(?:_(\d+))?$", text)
                o_render[c - 1] = 0 if not text else (-1 if not m_ else (IFACE if m_.group(1) == "I" else int(m_.group(2))))
        # the class page: one "Inherited from X" table per entry of ClassPage.baseTables (X = first class named)
        o_page: List[List[int]] = [[] for _ in range(n)]
        if any(m != "absent" for m in rec["member"]):
            byname = {o.name: c for c, o in objs.items() if o is not None}
            for c in range(1, n + 1):
                if isinstance(objs[c], model.Class):
                    for t in ClassPage(objs[c], lookup_).baseTables(None, _tags.div):
                        nm = flatten_text(t.slotData["baseName"]).split(" (via")[0].strip()
                        o_page[c - 1].append(byname.get(nm, -1))
        o_body = [0] * n          # variant "names": what the bare `f` in the body of each class is bound to
        if rec.get("early") == "names":
            for c in range(1, n + 1):
                y = system.allobjects.get(f"{where[c][0]}.{where[c][1]}.Y")
                bo = y.baseobjects if isinstance(y, model.Class) else []
                o_body[c - 1] = binding_code(bo[0], h, ix) if len(bo) == 1 else -1
        o_early = [0] * n
        for c in early_classes(rec):
            modname = where[c][0]
            if rec["early"] == "alias":
                full = system.allobjects[modname].expandName(f"a{h}_{c}")
                tgt = system.allobjects.get(full)
                o_early[c - 1] = ix(tgt.parent) if tgt is not None else -1
            else:
                x = system.allobjects.get(f"{modname}.X{h}_{c}")
                bo = x.baseobjects if isinstance(x, model.Class) else []
                if rec["early"] == "names":
                    o_early[c - 1] = binding_code(bo[0], h, ix) if len(bo) == 1 else -1
                    continue
                o_early[c - 1] = ix(bo[0].parent) if (len(bo) == 1 and bo[0] is not None) else -1
                if o_early[c - 1] > 0 and [id(y) for y in x.mro()] != [id(x), id(bo[0])]:
                    o_early[c - 1] = -1
        out.append({"h": h, "body": o_body, "early": o_early, "render": o_render, "page": o_page, "mro": o_mro, "warn": o_warn, "find": o_find, "src": o_src, "doc": o_doc,
                    "doctext": o_doctext, "inherited": o_inh, "overrides": o_ovr, "first": o_first, "present": o_present,
                    "where": {str(c): list(w) for c, w in where.items()}})
    return out


def raised_obs(h: int, e: BaseException) -> Dict[str, Any]:
    """The observation of a case whose build / read-back raised INSIDE pydoctor.  An exception whose innermost frame is
    not pydoctor's (our rendering, our read-back) is a machinery failure and is re-raised as such."""
    import traceback
    tb = traceback.extract_tb(e.__traceback__)
    last = tb[-1] if tb else None
    if isinstance(e, MachineryError) or last is None or "/pydoctor/" not in last.filename.replace(os.sep, "/"):
        raise MachineryError(f"case {h}: {type(e).__name__}: {str(e)[:300]} raised outside pydoctor "
                             f"({last.filename}:{last.lineno} {last.name})" if last else f"case {h}: {e!r}")
    return {"h": h, "raised": {"type": type(e).__name__, "message": str(e)[:200],
                               "where": f"{'/'.join(last.filename.split('/')[-2:])}:{last.lineno} {last.name}"}}


def observe_safe(batch: List[Tuple[int, Dict[str, Any]]]) -> List[Dict[str, Any]]:
    """observe_batch made total: when the build of a batch raises inside pydoctor (say a RecursionError in the second pass
    of base resolution) every case of the batch is observed again ALONE, in a System of its own, and a case for which
    pydoctor still raises is observed as {"raised": ..} - judged against the reference like any other observation."""
    try:
        return observe_batch(batch)
    except MachineryError:
        raise
    except Exception as e:
        if len(batch) == 1:
            return [raised_obs(batch[0][0], e)]
        raised_obs(batch[0][0], e)            # not pydoctor's: machinery
    out = []
    for one in batch:
        try:
            out += observe_batch([one])
        except MachineryError:
            raise
        except Exception as e:
            out.append(raised_obs(one[0], e))
    return out


def observe_all(cases: List[Dict[str, Any]], per_batch: int) -> List[Dict[str, Any]]:
    numbered = list(enumerate(cases))
    batches = [list(b) for b in chunks(numbered, per_batch)]
    from pydoctor import model  # noqa: F401  (imported before forking)
    from pydoctor.templatewriter import pages  # noqa: F401
    if len(batches) <= 1:
        res = [observe_safe(b) for b in batches]
    else:
        with mp.get_context("fork").Pool(min(len(batches), max(1, (os.cpu_count() or 4) - 2))) as pool:
            res = pool.map(observe_safe, batches, chunksize=1)
    return [o for r in res for o in r]


# ------------------------------------------------------------------------------------ CPython as the oracle's oracle
def cpython_case(rec: Dict[str, Any]) -> Dict[str, Any]:
    """type(name, bases, {}) for every class whose bases exist; real attribute lookup for the member."""
    n, bases, member = rec["n"], rec["bases"], rec["member"]
    made: Dict[int, Any] = {}
    mro: List[Any] = []
    find: List[int] = []
    doc: List[int] = []
    getdoc_differs = 0
    for c in range(1, n + 1):
        if any(b not in made for b in bases[c - 1]):
            mro.append(None)         # the program stopped earlier: Python says nothing about this class
            find.append(-1)
            doc.append(-1)
            continue
        ns: Dict[str, Any] = {}
        st = member[c - 1]
        if st != "absent":
            def f(self):  # type: ignore[no-untyped-def]
                pass
            f.__doc__ = {"nodoc": None, "doc": f"doc of {c}", "hidden": f"doc of {c}", "empty": ""}[st]
            f.owner = c  # type: ignore[attr-defined]
            ns["f"] = f
        try:
            k = type(f"K{c}", tuple(made[b] for b in bases[c - 1]), ns)
        except TypeError:
            mro.append(BAD)
            find.append(-1)
            doc.append(-1)
            continue
        k.idx = c  # type: ignore[attr-defined]
        made[c] = k
        mro.append([x.idx for x in k.__mro__[:-1]])
        got = getattr(k, "f", None)
        find.append(got.owner if got is not None else 0)
        if st != "absent":
            # what lookup along __mro__ yields for the docstring: first definition that has one
            d = 0
            for x in k.__mro__[:-1]:
                fx = vars(x).get("f")
                if fx is not None and fx.__doc__ is not None:
                    d = fx.owner if fx.__doc__ else 0
                    break
            doc.append(d)
            g = inspect.getdoc(getattr(k(), "f"))
            if (g or None) != (f"doc of {d}" if d else None):
                getdoc_differs += 1
        else:
            doc.append(0)
    return {"mro": mro, "find": find, "doc": doc, "getdoc_differs": getdoc_differs}


def cross_check_cpython(ctx: Ctx, recs: List[Dict[str, Any]]) -> int:
    quirk = 0
    for rec in recs:
        if rec["c3"] and any(x == CYCLIC for x in rec["c3"]):
            continue
        py = cpython_case(rec)
        for c in range(1, rec["n"] + 1):
            pm = py["mro"][c - 1]
            if pm is None:
                if rec["c3"][c - 1] != BAD or rec["own"][c - 1]:
                    raise MachineryError(f"spec C3 disagrees with CPython (tainted) on {rec['bases']} class {c}")
                continue
            if pm != rec["c3"][c - 1] or (pm == BAD) != rec["own"][c - 1]:
                raise MachineryError(f"spec C3 disagrees with CPython on {rec['bases']} class {c}: {rec['c3'][c - 1]} vs {pm}")
            if pm == BAD:
                continue
            if py["find"][c - 1] != rec["find_ref"][c - 1]:
                raise MachineryError(f"spec RefFind disagrees with CPython on {rec['bases']} {rec['member']} class {c}")
            if rec["member"][c - 1] != "absent" and py["doc"][c - 1] != rec["doc_ref"][c - 1]:
                raise MachineryError(f"spec RefDocOwner disagrees with CPython on {rec['bases']} {rec['member']} class {c}")
        quirk += py["getdoc_differs"]
    return quirk


# ------------------------------------------------------------------------------------------- verdict per case
def evaluate_case(rec: Dict[str, Any], obs: Dict[str, Any]) -> Tuple[List[Tuple[str, int, Any, Any]], List[Tuple[str, int, Any, Any]]]:
    """-> (failed property clauses, model differences). Real vs REFERENCE is the verdict; Real vs MODEL is drift."""
    n = rec["n"]
    failed: List[Tuple[str, int, Any, Any]] = []
    drift: List[Tuple[str, int, Any, Any]] = []
    nested = rec.get("early", "none") == "nested"     # the member is a class: docsources / docstring inheritance do not apply
    if rec.get("early") == "names":
        return evaluate_names(rec, obs)
    for c in range(1, n + 1):
        i = c - 1
        ref = rec["c3"][i]
        real = obs["mro"][i]
        if not real or not obs["present"][i]:
            # whatever the hierarchy: the class and its members are still documented
            failed.append(("StillDocumented", c, "class with its members", real))
            continue
        if ref not in (BAD, CYCLIC):
            if real != ref:
                failed.append(("MroIsC3", c, ref, real))
            if obs["warn"][i] != "none":
                failed.append(("MroIsC3", c, "no 'mro' warning", obs["warn"][i]))
            if obs["find"][i] != rec["find_ref"][i]:
                failed.append(("FindIsLookup", c, rec["find_ref"][i], obs["find"][i]))
            want_inh = rec["inh_ref"][i]
            if obs["inherited"][i] != want_inh:
                failed.append(("InheritedTable", c, want_inh, obs["inherited"][i]))
            if c in early_classes(rec) and obs["early"][i] != rec["find_ref"][i]:
                failed.append(("EarlyAliasIsLookup" if rec["early"] == "alias" else "EarlyBaseIsLookup", c,
                               rec["find_ref"][i], obs["early"][i]))
            if obs["page"][i] != rec["page_ref"][i]:
                failed.append(("PageTables", c, rec["page_ref"][i], obs["page"][i]))
            if rec["member"][i] != "absent" and not nested:
                # an interface declaration is not on the MRO: it may only follow every definition along it
                if [x for x in obs["src"][i] if x != IFACE] != rec["src_ref"][i] or IFACE in obs["src"][i][:-1]:
                    failed.append(("SourcesAreOverridden", c, rec["src_ref"][i], obs["src"][i]))
                want_ov = rec["ovr_ref"][i]
                if obs["overrides"][i] != want_ov:
                    failed.append(("OverridesNote", c, want_ov, obs["overrides"][i]))
                # ... and may only document the member when nothing along the MRO does
                if obs["doc"][i] != rec["doc_ref"][i] and not (rec["doc_ref"][i] == 0 and obs["doc"][i] == IFACE):
                    failed.append(("DocIsInherited", c, rec["doc_ref"][i], obs["doc"][i]))
                if obs["render"][i] != rec["doc_ref"][i] and not (rec["doc_ref"][i] == 0 and obs["render"][i] == IFACE):
                    failed.append(("RenderedDocIsInherited", c, rec["doc_ref"][i], obs["render"][i]))
                if obs["doc"][i] == rec["doc_ref"][i] and rec["doc_ref"][i]:
                    want_text = f"doc of K{obs['h']}_{rec['doc_ref'][i]}"
                    if obs["doctext"][i] != want_text:
                        failed.append(("DocIsInherited", c, want_text, obs["doctext"][i]))
        elif ref == BAD and rec["own"][i]:
            # Python rejects exactly this class statement
            if obs["warn"][i] == "none" or real[0] != c:
                failed.append(("InconsistentReported", c, "warning of section 'mro' at the class, order starting with the class",
                               {"warn": obs["warn"][i], "mro": real}))
        # conformance with the model of pydoctor (all classes, Python-legal or not)
        if real != rec["mro"][i]:
            drift.append(("mro", c, rec["mro"][i], real))
        if obs["warn"][i] != rec["warn"][i]:
            drift.append(("warn", c, rec["warn"][i], obs["warn"][i]))
        if obs["find"][i] != rec["find_pd"][i]:
            drift.append(("find", c, rec["find_pd"][i], obs["find"][i]))
        if not nested and obs["src"][i] != rec["src_pd"][i]:
            drift.append(("docsources", c, rec["src_pd"][i], obs["src"][i]))
        if not nested and obs["doc"][i] != rec["doc_pd"][i]:
            drift.append(("get_docstring", c, rec["doc_pd"][i], obs["doc"][i]))
        if not nested and obs["render"][i] != rec["doc_pd"][i]:
            drift.append(("rendered_docstring", c, rec["doc_pd"][i], obs["render"][i]))
        if obs["inherited"][i] != rec["inh_pd"][i]:
            drift.append(("inherited_table", c, rec["inh_pd"][i], obs["inherited"][i]))
        if obs["page"][i] != rec["page_pd"][i]:
            drift.append(("page_tables", c, rec["page_pd"][i], obs["page"][i]))
        if not nested and obs["overrides"][i] != rec["ovr_pd"][i]:
            drift.append(("overrides_note", c, rec["ovr_pd"][i], obs["overrides"][i]))
        if c in early_classes(rec) and obs["early"][i] != (rec["early_base_pd" if nested else "early_pd"][i] or -1):
            drift.append(("early_lookup", c, rec["early_pd"][i], obs["early"][i]))
        want_first = [rec["born"][b - 1] < rec["born"][i] for b in rec["bases"][i]]
        if obs["first"][i] != want_first:
            drift.append(("first_pass", c, want_first, obs["first"][i]))
    return failed, drift


def evaluate_names(rec: Dict[str, Any], obs: Dict[str, Any]) -> Tuple[List[Tuple[str, int, Any, Any]], List[Tuple[str, int, Any, Any]]]:
    """variant "names" (member = nested class / alias in the class body): the order, what `C.f` written after the classes
    designates (first binding along the MRO) and what a bare `f` in the body of C designates (C's own binding, else the
    module's f = 200)."""
    failed: List[Tuple[str, int, Any, Any]] = []
    drift: List[Tuple[str, int, Any, Any]] = []
    member = rec["member"]
    tgt = lambda b: binding_target(member, b) if b else 200
    for c in range(1, rec["n"] + 1):
        i = c - 1
        ref, real = rec["c3"][i], obs["mro"][i]
        if not real:
            failed.append(("StillDocumented", c, "class", real))
            continue
        if ref not in (BAD, CYCLIC):
            if real != ref or obs["warn"][i] != "none":
                failed.append(("MroIsC3", c, ref, {"mro": real, "warn": obs["warn"][i]}))
            if c in early_classes(rec) and obs["early"][i] != tgt(rec["find_ref"][i]):
                failed.append(("NameThroughClassIsLookup", c, tgt(rec["find_ref"][i]), obs["early"][i]))
        if obs["body"][i] != tgt(rec["body_ref"][i]):
            failed.append(("ClassBodyLookupIsLexical", c, tgt(rec["body_ref"][i]), obs["body"][i]))
        if real != rec["mro"][i] or obs["warn"][i] != rec["warn"][i]:
            drift.append(("mro", c, rec["mro"][i], real))
        if c in early_classes(rec) and obs["early"][i] != tgt(rec["early_pd"][i]):
            drift.append(("name_through_class", c, tgt(rec["early_pd"][i]), obs["early"][i]))
        if obs["body"][i] != tgt(rec["body_pd"][i]):
            drift.append(("class_body_lookup", c, tgt(rec["body_pd"][i]), obs["body"][i]))
    return failed, drift


def evaluate_raised(rec: Dict[str, Any], obs: Dict[str, Any]) -> List[Tuple[str, int, Any, Any]]:
    """pydoctor raised on this case, alone in its System.  Wherever the reference has an answer there is nothing to compare
    it with: a class Python accepts has no linearisation (MroIsC3), a class Python rejects is not reported / documented
    (InconsistentReported), a class derived from a rejected one is not documented (StillDocumented).  Only a case all of
    whose classes are on or above a cycle (not a Python program) is left to conformance."""
    what = f"pydoctor raised {obs['raised']['type']} at {obs['raised']['where']}"
    failed: List[Tuple[str, int, Any, Any]] = []
    for c in range(1, rec["n"] + 1):
        ref = rec["c3"][c - 1]
        if ref == CYCLIC:
            continue
        if ref != BAD:
            failed.append(("MroIsC3", c, ref, what))
        elif rec["own"][c - 1]:
            failed.append(("InconsistentReported", c, "warning of section 'mro' at the class, class documented", what))
        else:
            failed.append(("StillDocumented", c, "class with its members", what))
    order = {"MroIsC3": 0, "InconsistentReported": 1, "StillDocumented": 2}
    return sorted(failed, key=lambda f: order[f[0]])


def judge_case(ctx: Ctx, rec: Dict[str, Any], obs: Dict[str, Any], origin: str) -> Tuple[int, int]:
    if "raised" in obs:
        failed = evaluate_raised(rec, obs)
        if not failed:
            ctx.drift_note({"origin": origin, "bases": rec["bases"], "member": rec["member"], "born": rec["born"],
                            "diff": [{"what": "raised", "class": 0, "model": rec["mro"], "real": obs["raised"]}]})
            return (0, 1)
        ctx.violation({"invariant": failed[0][0], "origin": origin,
                       "failed": [{"invariant": a, "class": b, "expected": e, "observed": o} for a, b, e, o in failed],
                       "case": {k: rec[k] for k in ("n", "bases", "member", "born", "early", "lay") if k in rec} | {"layout": rec.get("layout"), "h": obs["h"]},
                       "reference": {"c3": rec["c3"], "own": rec["own"], "find_ref": rec["find_ref"], "inh_ref": rec["inh_ref"], "ovr_ref": rec["ovr_ref"], "page_ref": rec["page_ref"],
                                     "src_ref": rec["src_ref"], "doc_ref": rec["doc_ref"]},
                       "observed": {"raised": obs["raised"]},
                       "model": {"mro": rec.get("mro"), "warn": rec.get("warn"), "late": rec.get("late")},
                       "key": f"{origin}:raised:{obs['raised']['type']}:{rec['bases']}:{(rec.get('lay') or {}).get('back', '')}"[:300]})
        return (1, 0)
    failed, drift = evaluate_case(rec, obs)
    if failed:
        inv = failed[0][0]
        ctx.violation({"invariant": inv, "origin": origin,
                       "failed": [{"invariant": a, "class": b, "expected": e, "observed": o} for a, b, e, o in failed],
                       "case": {k: rec[k] for k in ("n", "bases", "member", "born", "early", "lay") if k in rec} | {"layout": rec.get("layout"), "h": obs["h"]},
                       "reference": {"c3": rec["c3"], "own": rec["own"], "find_ref": rec["find_ref"], "inh_ref": rec["inh_ref"], "ovr_ref": rec["ovr_ref"], "page_ref": rec["page_ref"],
                                     "src_ref": rec["src_ref"], "doc_ref": rec["doc_ref"]},
                       "observed": {k: obs[k] for k in ("mro", "warn", "find", "src", "doc", "inherited", "overrides", "early", "render", "page", "body")},
                       "model": {"early_pd": rec.get("early_pd"), "early_base_pd": rec.get("early_base_pd"), "late": rec.get("late"),
                                 "body_pd": rec.get("body_pd"), "body_ref": rec.get("body_ref")},
                       "key": f"{origin}:{sorted(set(a for a, _, _, _ in failed))}:{rec['bases']}:{rec['member'] if origin != 'enum' else ''}"[:300]})
    if drift and (not failed or any(d[0] == "early_lookup" for d in drift)):
        ctx.drift_note({"origin": origin, "bases": rec["bases"], "member": rec["member"], "born": rec["born"],
                        "diff": [{"what": a, "class": b, "model": e, "real": o} for a, b, e, o in drift[:4]]})
    return (1 if failed else 0, 1 if (drift and (not failed or any(d[0] == "early_lookup" for d in drift))) else 0)


def depth_first_owner(bases: List[List[int]], member: List[str], c: int) -> int:
    """first definition of the member in depth-first, left-to-right order over the bases (Class.allbases)"""
    if member[c - 1] != "absent":
        return c
    for b in bases[c - 1]:
        o = depth_first_owner(bases, member, b)
        if o:
            return o
    return 0


def kf_early_lookup_depth_first(w: Dict[str, Any]) -> bool:
    """Python twin of MRO!KF_EarlyLookupDepthFirst: every failed clause is an EARLY lookup through a class whose answer is
    the first definition in depth-first order over the bases instead of the first along the MRO."""
    if not w.get("failed"):
        return False
    case = w["case"]
    for f in w["failed"]:
        if f["invariant"] not in ("EarlyAliasIsLookup", "EarlyBaseIsLookup"):
            return False
        if f["observed"] == f["expected"] or f["observed"] != depth_first_owner(case["bases"], case["member"], f["class"]):
            return False
    return True


def kf_early_lookup_before_base_resolved(w: Dict[str, Any]) -> bool:
    """Python twin of MRO!KF_EarlyLookupBeforeBaseResolved: every failed clause is an EARLY lookup through a class above
    which some base is resolved only in the second pass (LateAbove, evaluated by TLC), and the answer is exactly what the
    spec's model of the early linearisation (PdEarlyFind, evaluated by TLC) predicts."""
    if not w.get("failed") or "model" not in w:
        return False
    for f in w["failed"]:
        if f["invariant"] not in ("EarlyAliasIsLookup", "EarlyBaseIsLookup"):
            return False
        i = f["class"] - 1
        if not w["model"]["late"][i] or f["observed"] == f["expected"]:
            return False
        want = w["model"]["early_base_pd" if f["invariant"] == "EarlyBaseIsLookup" else "early_pd"][i]
        if f["observed"] != (want if want else -1):        # model 0 = nothing found: the name stays unresolved (-1)
            return False
    return True


def sort_key(rec: Dict[str, Any]) -> str:
    return json.dumps([rec["bases"], rec["member"], rec.get("cid", 0)])


# ------------------------------------------------------------------------------------- random larger cases
def random_cases(rng: random.Random, count: int, docstates: List[str]) -> List[Dict[str, Any]]:
    out = []
    for _ in range(count):
        n = rng.randint(8, 10)
        bases: List[List[int]] = []
        for c in range(1, n + 1):
            k = min(c - 1, rng.choice([0, 1, 1, 1, 2, 2, 2, 3]))
            if c > 1 and k == 0 and rng.random() < 0.7:
                k = 1
            # mostly "sensible" orders (later classes first), sometimes arbitrary: inconsistent hierarchies
            pick = rng.sample(range(1, c), k)
            if rng.random() < 0.75:
                pick.sort(reverse=True)
            bases.append(pick)
        member = [rng.choice(docstates + ["absent"]) for _ in range(n)]
        cuts = sorted(rng.randint(0, n) for _ in range(4))
        form = {k: rng.choice(["from", "import"]) for k in ("12", "13", "21", "23", "31", "32")}
        out.append({"n": n, "bases": bases, "member": member, "layout": {"kind": "segments", "cuts": cuts, "form": form}})
    return out


def random_graphs(rng: random.Random, count: int) -> List[Dict[str, Any]]:
    out = []
    for _ in range(count):
        n = rng.randint(4, 6)
        bases = []
        for c in range(1, n + 1):
            others = [x for x in range(1, n + 1) if x != c]
            bases.append(rng.sample(others, rng.choice([0, 1, 1, 2, 2, 3])))
        out.append({"n": n, "bases": bases, "member": ["absent"] * n, "born": [], "layout": {"kind": "graph"}})
    return out


def cpython_import_check(ctx: Ctx, recs: List[Dict[str, Any]], first_h: int) -> int:
    """The multi-module programs are real Python: import them in a subprocess and compare __mro__ with the spec's C3."""
    d = ctx.scratch / "pyproj"
    d.mkdir(exist_ok=True)
    todo = []
    for off, rec in enumerate(recs):
        if any(x in (BAD, CYCLIC) for x in rec["c3"]):
            continue
        h = first_h + off
        r = render_segments(h, rec, python=True)
        for mname, lines in r["modules"]:
            (d / f"{mname}.py").write_text("\n".join(lines) + "\n")
        todo.append((h, rec))
    if not todo:
        return 0
    script = ("import sys, json, importlib\nsys.path.insert(0, sys.argv[1])\nout = {}\n"
              "for h, n in json.loads(sys.argv[2]):\n"
              "    importlib.import_module(f's{h}_m1')\n"
              "    cl = {}\n"
              "    for m in (1, 2, 3):\n"
              "        cl.update({k: v for k, v in vars(sys.modules[f's{h}_m{m}']).items() if k.startswith(f'K{h}_') and isinstance(v, type)})\n"
              "    out[h] = {k: [x.__name__ for x in v.__mro__[:-1]] for k, v in cl.items()}\n"
              "print(json.dumps(out))\n")
    p = subprocess.run([sys.executable, "-c", script, str(d), json.dumps([(h, rec["n"]) for h, rec in todo])],
                       capture_output=True, text=True, timeout=600, env={**os.environ, "PYTHONDONTWRITEBYTECODE": "1"})
    if p.returncode != 0:
        raise MachineryError(f"generated multi-module program is not legal Python: {p.stderr[-800:]}")
    got = json.loads(p.stdout)
    for h, rec in todo:
        for c in range(1, rec["n"] + 1):
            want = [f"K{h}_{x}" for x in rec["c3"][c - 1]]
            if got[str(h)].get(f"K{h}_{c}") != want:
                raise MachineryError(f"spec C3 disagrees with imported program s{h}: class {c} {want} vs {got[str(h)].get(f'K{h}_{c}')}")
    return len(todo)


# ------------------------------------------------------------------------------------------------- check
def tlc_cases(ctx: Ctx, source: str, maxn: int, docstates: List[str], out: Dict[str, Any], **kw: Any) -> None:
    key = kw.pop("key", source)
    try:
        r = ctx.tlc("MRO", cfg_text(source, maxn, docstates, invariants=True, late_orders=kw.pop("late_orders", "all"),
                                       late_backs=kw.pop("late_backs", "upto1"), split_sample=kw.pop("split_sample", "all")),
                    workers=kw.pop("workers", 5), check=True, timeout=1500, java_opts=("-XX:ParallelGCThreads=2",), cfg_name=f"MRO_{key}.cfg", **kw)
        out[key] = r
    except BaseException as e:            # re-raised in the main thread
        out[key] = e


def run(ctx: Ctx) -> int:
    ctx.register_matcher(KF_EARLY, kf_early_lookup_depth_first)
    ctx.register_matcher(KF_LATE, kf_early_lookup_before_base_resolved)
    ctx.extra["model_early_order"] = early_order()
    rng = random.Random(ctx.seed)
    docstates = ["absent", "nodoc", "doc"] if ctx.quick else ["absent", "nodoc", "doc", "empty"]
    results: Dict[str, Any] = {}
    threads = [threading.Thread(target=tlc_cases, args=(ctx, "enum", 5, docstates, results), kwargs={"coverage": bool(os.environ.get("VERIF_COVERAGE"))}),
               threading.Thread(target=tlc_cases, args=(ctx, "members", 4, docstates, results)),
               threading.Thread(target=tlc_cases, args=(ctx, "graph", 3, docstates, results), kwargs={"workers": 1}),
               # quick: member states {absent, doc} for the one-class-per-module source, thorough: all of them
               threading.Thread(target=tlc_cases, args=(ctx, "late", 3, ["absent", "doc"] if ctx.quick else docstates, results),
                                kwargs={"workers": 2}),
               # two TYPE_CHECKING imports: a subclass can be created (and post-processed) before its base
               threading.Thread(target=tlc_cases, args=(ctx, "late", 3, ["absent", "doc"], results),
                                kwargs={"workers": 2, "key": "late2", "late_backs": "two",
                                        "late_orders": "two" if ctx.quick else "all"})]
    # members excluded from the documentation by the privacy rules (state "hidden") in the member-attribution model
    threads.append(threading.Thread(target=tlc_cases, args=(ctx, "members", 3 if ctx.quick else 4,
                                                            ["absent", "nodoc", "doc", "hidden"] if ctx.quick else ["absent", "doc", "hidden"], results),
                                    kwargs={"workers": 1, "key": "hidden"}))
    # @implementer classes in the docstring-inheritance universe; the last of 5 classes post-processed before its bases
    threads.append(threading.Thread(target=tlc_cases, args=(ctx, "zope", 3, docstates, results), kwargs={"workers": 1}))
    threads.append(threading.Thread(target=tlc_cases, args=(ctx, "split", 5, docstates, results),
                                    kwargs={"workers": 2, "split_sample": "quick" if ctx.quick else "all"}))
    if not ctx.quick:
        threads.append(threading.Thread(target=tlc_cases, args=(ctx, "late", 4, ["absent", "doc"], results),
                                        kwargs={"workers": 4, "key": "late4", "late_orders": "two"}))
    ctx.spec_dir()                      # stage once, before the concurrent TLC runs
    for t in threads:
        t.start()
    for t in threads:
        t.join()
    for v in results.values():
        if isinstance(v, BaseException):
            raise v
    design = {s_: list(results[s_].violated) for s_ in results}
    enum = sorted(results["enum"].printed, key=sort_key)
    members = sorted(results["members"].printed, key=sort_key)
    graph = sorted(results["graph"].printed, key=sort_key)
    for g in graph:
        g["layout"] = {"kind": "graph"}
    late = sorted(results["late"].printed, key=lambda r: json.dumps([r["bases"], r["member"], r["lay"]]))
    nlate = 10 * (2 if ctx.quick else len(docstates)) ** 3 * 6 * 7
    if len(late) != nlate:
        raise MachineryError(f"TLC emitted {len(late)} late cases, expected {nlate}")
    late2 = sorted(results["late2"].printed, key=lambda r: json.dumps([r["bases"], r["member"], r["lay"]]))
    nlate2 = 10 * 8 * (2 if ctx.quick else 6) * 18
    if len(late2) != nlate2:
        raise MachineryError(f"TLC emitted {len(late2)} late (two imports) cases, expected {nlate2}")
    late += late2
    if "late4" in results:
        late4 = sorted(results["late4"].printed, key=lambda r: json.dumps([r["bases"], r["member"], r["lay"]]))
        if len(late4) != 160 * 16 * 2 * 13:
            raise MachineryError(f"TLC emitted {len(late4)} late (4 classes) cases, expected {160 * 16 * 2 * 13}")
        late += late4
    for g in late:
        g["layout"] = {"kind": "late"}
    hidden = sorted(results["hidden"].printed, key=sort_key)
    if len(hidden) != (10 * 4 ** 3 if ctx.quick else 160 * 3 ** 4):
        raise MachineryError(f"TLC emitted {len(hidden)} hidden-member cases")
    zope = sorted(results["zope"].printed, key=lambda r: json.dumps([r["bases"], r["member"], sorted(r["lay"]["impl"])]))
    split = sorted(results["split"].printed, key=lambda r: json.dumps([r["bases"], r["lay"]["split"]]))
    for g in split:
        g["layout"] = {"kind": "split"}
    if len(zope) != 10 * len(docstates) ** 3 * 8:
        raise MachineryError(f"TLC emitted {len(zope)} zope cases, expected {10 * len(docstates) ** 3 * 8}")
    def hsum(b: List[List[int]]) -> int:          # MRO.tla HSum
        return sum(i * sum(j * x for j, x in enumerate(bs, 1)) for i, bs in enumerate(b, 1))
    if ctx.quick:       # the stratified sample: at least two second-pass bases, fixed third by hash
        want_split = sum(1 for r in enum for sp in range(0, 4)
                         if len([x for x in r["bases"][4] if x > sp]) >= 2 and (hsum(r["bases"]) + sp) % 3 == 0)
    else:               # split points below the highest base of class 5
        want_split = sum(max(r["bases"][4], default=0) for r in enum)
    if len(split) != want_split:
        raise MachineryError(f"TLC emitted {len(split)} split cases, expected {want_split}")
    want = {"enum": 10400, "members": 160 * len(docstates) ** 4, "graph": 125, "late": len(late)}
    for name, recs in (("enum", enum), ("members", members), ("graph", graph), ("late", late)):
        if len(recs) != want[name]:
            raise MachineryError(f"TLC emitted {len(recs)} {name} cases, expected {want[name]}")
    ctx.exhaustive = True

    file_cases: List[Dict[str, Any]] = []
    file_graphs: List[Dict[str, Any]] = []
    if not ctx.quick:
        raw = random_cases(rng, 3000, [d for d in docstates if d != "absent"])
        base_h = len(enum) + len(members) + len(graph)
        for off, rc in enumerate(raw):
            rc["born"] = segments_plan(base_h + off, rc)["born"]
        rawg = random_graphs(rng, 1500)
        for name, lst, dst in (("seg", raw, file_cases), ("graph", rawg, file_graphs)):
            for part in chunks(lst, 500):
                f = ctx.scratch / f"cases_{name}.json"
                f.write_text(json.dumps([{"bases": x["bases"], "born": x["born"], "member": x["member"]} for x in part]))
                r = ctx.tlc("MRO", cfg_text("file", 0, docstates, invariants=True), workers=8, check=True, timeout=1500,
                            env={"CASE_FILE": str(f)}, cfg_name="MRO_file.cfg")
                got = {x["cid"]: x for x in r.printed}
                if len(got) != len(part):
                    raise MachineryError(f"TLC returned {len(got)} of {len(part)} file cases")
                design.setdefault("file", [])
                design["file"] += [v for v in r.violated if v not in design["file"]]
                for i, x in enumerate(part, 1):
                    got[i]["layout"] = x["layout"]
                    dst.append(got[i])

    # the member placements twice more with early dotted lookups through the classes (alias statements / a nested
    # class used as a base), which pydoctor evaluates during analysis, before any MRO exists
    # quick: each case gets ONE of the two early-lookup variants (alternating in the sorted order), thorough: both
    pick = (lambda lst, par: [r for i, r in enumerate(lst) if i % 2 == par]) if ctx.quick else (lambda lst, par: lst)
    pick4 = (lambda lst, par: [r for i, r in enumerate(lst) if i % 4 == par]) if ctx.quick else (lambda lst, par: lst)
    m_alias = [dict(r, early="alias") for r in pick4(members, 0)]
    m_nested = [dict(r, early="nested") for r in pick4(members, 2)]
    # names: the member as a nested class / an alias in the class body, `C.f` and a bare `f` in class bodies resolved
    m_names = [dict(r, early="names") for r in pick4(members, 1)]
    # shadow: bases imported by name and the name bound again afterwards, where the second pass resolves them
    l_shadow = [dict(r, early="shadow") for r in late[::2]]         # every other case in both tiers
    l_alias = [dict(r, early="alias") for r in pick(late, 0)]
    l_nested = [dict(r, early="nested") for r in pick(late, 1)]
    all_cases = enum + members + graph + file_cases + file_graphs + m_alias + m_nested + l_alias + l_nested + zope + split + hidden + m_names + l_shadow
    origins = (["enum"] * len(enum) + ["members"] * len(members) + ["graph"] * len(graph)
               + ["modules"] * len(file_cases) + ["graph-random"] * len(file_graphs)
               + ["members-alias"] * len(m_alias) + ["members-nested"] * len(m_nested)
               + ["late-alias"] * len(l_alias) + ["late-nested"] * len(l_nested)
               + ["zope"] * len(zope) + ["split"] * len(split) + ["hidden"] * len(hidden)
               + ["members-names"] * len(m_names) + ["late-shadow"] * len(l_shadow))
    # ---- the spec's reference against CPython (machinery)
    quirk = cross_check_cpython(ctx, enum + members + file_cases + late + zope + split + hidden)
    ctx.extra["cpython_type_cross_checked_cases"] = len(enum) + len(members) + len(file_cases) + len(late) + len(zope) + len(split)
    ctx.extra["inspect_getdoc_differs_from_mro_lookup"] = quirk
    if file_cases:
        ctx.extra["multi_module_programs_imported_by_cpython"] = cpython_import_check(
            ctx, file_cases, len(enum) + len(members) + len(graph))

    # ---- spec -> code
    obs = observe_all(all_cases, 400)
    if len(obs) != len(all_cases):
        raise MachineryError("lost observations")
    nviol = ndrift = 0
    per_origin: Dict[str, int] = {}
    second_pass = 0
    for rec, o, origin in zip(all_cases, obs, origins):
        ctx.traces += 1
        v, d = judge_case(ctx, rec, o, origin)
        nviol += v
        ndrift += d
        per_origin[origin] = per_origin.get(origin, 0) + 1
        second_pass += sum(1 for fl in o.get("first", []) for x in fl if not x)
        if ctx.traces % 4801 == 1:
            ctx.sample({"origin": origin, "bases": rec["bases"], "member": rec["member"], "c3": rec["c3"],
                        "real_mro": o["mro"], "real_warn": o["warn"], "real_find": o["find"], "real_docsources": o["src"]})
    ctx.extra["cases_per_origin"] = per_origin
    ctx.extra["bases_resolved_only_in_second_pass"] = second_pass
    ctx.extra["cases_violating"] = nviol
    ctx.extra["cases_drifting"] = ndrift
    ctx.extra["design_level_invariants_violated"] = design
    cls_total = sum(r["n"] for r in all_cases)
    ctx.extra["classes_built"] = cls_total
    ctx.extra["classes_python_rejects"] = sum(1 for r in all_cases for c in range(r["n"]) if r["c3"][c] == BAD and r["own"][c])
    ctx.extra["classes_on_a_cycle_or_above_one"] = sum(1 for r in all_cases for c in range(r["n"]) if r["c3"][c] == CYCLIC)
    cov = results["enum"].coverage
    if cov:
        ctx.extra["action_coverage"] = {a: c for a, c in cov.items() if a in ("AddClass", "Built", "PostStep", "PostDone", "Init")}
        never = [a for a in ("AddClass", "Built", "PostStep", "PostDone") if cov.get(a, 0) == 0]
        ctx.extra["actions_never_taken"] = never

    # ---- negative control: a corrupted observation must be flagged, a corrupted reference too
    nc = {"swapped_mro_flagged": False, "dropped_warning_flagged": False, "wrong_find_flagged": False}
    for rec, o in zip(all_cases, obs):
        if "raised" in o:
            continue
        i = next((i for i in range(rec["n"]) if rec["c3"][i] not in (BAD, CYCLIC) and len(rec["c3"][i]) >= 3), None)
        if i is not None and not nc["swapped_mro_flagged"]:
            o2 = json.loads(json.dumps(o))
            o2["mro"][i][1], o2["mro"][i][2] = o2["mro"][i][2], o2["mro"][i][1]
            nc["swapped_mro_flagged"] = bool(evaluate_case(rec, o2)[0])
        j = next((i for i in range(rec["n"]) if rec["c3"][i] == BAD and rec["own"][i]), None)
        if j is not None and not nc["dropped_warning_flagged"]:
            o2 = json.loads(json.dumps(o))
            o2["warn"][j] = "none"
            nc["dropped_warning_flagged"] = bool(evaluate_case(rec, o2)[0])
        if all(nc[k] for k in ("swapped_mro_flagged", "dropped_warning_flagged")):
            break
    for rec, o in zip(members, obs[len(enum):len(enum) + len(members)]):
        i = next((i for i in range(rec["n"]) if rec["c3"][i] not in (BAD, CYCLIC) and rec["find_ref"][i] not in (0, i + 1)), None)
        if i is not None and "raised" not in o:
            o2 = json.loads(json.dumps(o))
            o2["find"][i] = i + 1
            nc["wrong_find_flagged"] = bool(evaluate_case(rec, o2)[0])
            break
    ctx.extra["negative_control"] = nc
    if not all(nc.values()):
        raise MachineryError(f"negative control failed: {nc}")
    if ndrift > 0.1 * len(all_cases):
        raise MachineryError(f"model drift on {ndrift} of {len(all_cases)} cases: coverage claim void")

    ctx.assumptions += [
        "bases are documented classes written as names, dotted names or subscripted names (B[int] counts as B)",
        "a class derived from a class Python rejects is outside Python's semantics: only 'still documented' is demanded of it",
        "a hierarchy with a cycle is not a Python program: compared with the model of pydoctor only (conformance)",
        "the 'mro' warning names the class by module:line of the class statement",
        "an empty docstring documents nothing (pydoctor: undocumented; CPython: '')",
    ]
    nontrivial = sum(1 for r in all_cases if any(len(b) >= 2 for b in r["bases"]))
    return ctx.finish(
        rule="cases = hierarchies enumerated by TLC from MRO.tla (AddClass builder: bases[i] any repetition-free sequence over "
             "earlier classes; 5 classes; 4 classes x every member/docstring placement; 3 one-class modules x any base graph) "
             "[thorough: + random 8-10 class hierarchies over 3 modules with import cycles and random 4-6 class graphs, "
             "evaluated by TLC from a case file]; each built by the real pydoctor; distinct = distinct (bases, member) cases; "
             "non-trivial = some class has >= 2 bases",
        distinct_nontrivial=nontrivial)


def replay(ctx: Ctx, path: str) -> int:
    ctx.register_matcher(KF_EARLY, kf_early_lookup_depth_first)
    ctx.register_matcher(KF_LATE, kf_early_lookup_before_base_resolved)
    w = json.load(open(path))
    case = w["case"]
    ob = w["observed"]
    g = lambda k, d: ob.get(k) or [d] * case["n"]          # a witness "pydoctor raised" carries no observed fields
    rec = {"n": case["n"], "bases": case["bases"], "member": case["member"], "born": case["born"], **w["reference"],
           # model fields are irrelevant for the verdict
           "mro": g("mro", []), "warn": g("warn", "none"), "find_pd": g("find", 0),
           "src_pd": g("src", []), "doc_pd": g("doc", 0), "inh_pd": g("inherited", []), "page_pd": g("page", []),
           "ovr_pd": g("overrides", 0), "early_pd": g("early", 0)}
    if case.get("early"):
        rec["early"] = case["early"]
    if case.get("lay"):
        rec["lay"] = case["lay"]
    rec["late"] = (w.get("model") or {}).get("late") or [False] * case["n"]
    for k in ("early_pd", "early_base_pd"):
        rec[k] = (w.get("model") or {}).get(k) or w["observed"].get("early", [])
    for k in ("body_pd", "body_ref"):
        rec[k] = (w.get("model") or {}).get(k) or [0] * case["n"]
    if case.get("layout"):
        rec["layout"] = case["layout"]
    obs = observe_safe([(case["h"], rec)])[0]
    n0 = len(ctx.violations)
    judge_case(ctx, rec, obs, w.get("origin", "replay"))
    bad = len(ctx.violations) > n0
    if bad:
        print("replay: still violated:", json.dumps(ctx.violations[-1]["failed"][:3]))
        print(f"VIOLATION property=C05 replay={path}")
    elif ctx.known_seen:
        for k, ex in ctx.known_example.items():
            print(f"KNOWN-FINDING: property=C05 {k}: {json.dumps(ex['failed'][:3])}")
        print("replay: only the known finding remains")
    else:
        print("replay: holds now")
    ctx.cleanup()
    return 1 if bad else 0
