"""
C15 - a displayed value or expression means the same as the source expression.

spec -> code : TLC enumerates from spec/Expr.tla every depth-2 tree (context x form) and every depth-3 operator
               chain, computes Required (Python's grammar), the reference source text, the transcription of
               _OperatorDelimiter / _colorize_ast (ImplText) and the design-level verdict (Bad).  Every case is
               (a) used to validate the reference itself against ast.parse (soundness, and necessity of every
                   required pair of parentheses) - a disagreement is a machinery error;
               (b) rendered by the real colorize_inline_pyval; the shown text is parsed again and compared with
                   the source tree modulo the documented spellings            -> verdict;
               (c) compared with ImplText (astor placeholders filled in)       -> model drift.
               spec/ExprStr.tla does the same for string / bytes literals (escape function vs Python's literal
               reader), spec/ExprLayout.tla for the line wrapping / truncation machinery (linelen, maxlines).
code -> spec : random deeper trees generated here are handed to TLC (Mode = "file"), which recomputes reference and
               transcription for them; outputs of colorize_pyval recorded for all (linelen, maxlines) settings are
               handed to TLC, which evaluates the truncation contract on the OBSERVED text.
"""
from __future__ import annotations

import ast
import json
import random
from typing import Any, Dict, List, Optional, Tuple

from ..core import Ctx, MachineryError, chunks, load_known_findings, tla

# ----------------------------------------------------------------------------------- tree <-> ast
UN = {"-": ast.USub, "+": ast.UAdd, "~": ast.Invert, "not": ast.Not}
BIN = {"+": ast.Add, "-": ast.Sub, "*": ast.Mult, "/": ast.Div, "//": ast.FloorDiv, "%": ast.Mod, "@": ast.MatMult,
       "**": ast.Pow, "<<": ast.LShift, ">>": ast.RShift, "|": ast.BitOr, "^": ast.BitXor, "&": ast.BitAnd}
BOOL = {"and": ast.And, "or": ast.Or}
CMP = {"==": ast.Eq, "!=": ast.NotEq, "<": ast.Lt, "<=": ast.LtE, ">": ast.Gt, ">=": ast.GtE, "is": ast.Is,
       "is not": ast.IsNot, "in": ast.In, "not in": ast.NotIn}
LIT = {"int": "1", "bigint": "123456789012345678901234567890", "float": "1.5", "inf": "1e999", "cplx": "2j",
       "str": "'s'", "bytes": "b's'", "None": "None", "True": "True", "Ellipsis": "...",
       "hugehex": "0x" + "f" * 4000}      # > 4300 decimal digits: only a hexadecimal literal can denote it


def huge(text: str) -> str:
    """Expr.tla writes the huge hexadecimal literal as the token 0xHUGE."""
    return text.replace("0xHUGE", LIT["hugehex"])
ALL_CMP = sorted(CMP)
FEW_CMP = ["<", "in", "is not"]
ASTOR_CLASS = "astor-fallback-unfaithful"
FINDINGS = ["equal-precedence-right-operand", "singleton-tuple-comma", "subscript-tuple-index", "slice-bound-tuple",
            ASTOR_CLASS, "nonfinite-float-as-name", "string-annotation-no-parent"]


def kids_of(t: Dict[str, Any]) -> List[Dict[str, Any]]:
    k = t.get("kids") or []
    return list(k) if isinstance(k, list) else [k[str(i)] for i in range(1, len(k) + 1)]


def to_ast(t: Dict[str, Any]) -> Any:
    """The Python twin of the tree encoding of Expr.tla."""
    k, op, kids = t["k"], t["op"], kids_of(t)
    sub = [to_ast(x) for x in kids]
    L = ast.Load()
    if k == "Name":
        return ast.Name(op, L)
    if k == "Const":
        return ast.parse(LIT[op], mode="eval").body
    if k in ("Absent", "NoKey"):
        return None
    if k == "Unary":
        return ast.UnaryOp(UN[op](), sub[0])
    if k == "Bin":
        return ast.BinOp(sub[0], BIN[op](), sub[1])
    if k == "Bool":
        return ast.BoolOp(BOOL[op](), sub)
    if k == "Cmp":
        return ast.Compare(sub[0], [CMP[op]() for _ in sub[1:]], sub[1:])
    if k == "IfExp":
        return ast.IfExp(sub[1], sub[0], sub[2])
    if k == "Lambda":
        return ast.Lambda(ast.arguments(posonlyargs=[], args=[], vararg=None, kwonlyargs=[], kw_defaults=[],
                                        kwarg=None, defaults=[]), sub[0])
    if k == "Named":
        return ast.NamedExpr(ast.Name(op, ast.Store()), sub[0])
    if k == "Await":
        return ast.Await(sub[0])
    if k == "List":
        return ast.List(sub, L)
    if k == "Tuple":
        return ast.Tuple(sub, L)
    if k == "Set":
        return ast.Set(sub)
    if k == "Dict":
        return ast.Dict(sub[0::2], sub[1::2])
    if k == "Attr":
        return ast.Attribute(sub[0], op, L)
    if k == "Sub":
        return ast.Subscript(sub[0], sub[1], L)
    if k == "Slice":
        return ast.Slice(sub[0], sub[1], sub[2])
    if k == "Call":
        return ast.Call(sub[0], [x for x in sub[1:] if not isinstance(x, ast.keyword)],
                        [x for x in sub[1:] if isinstance(x, ast.keyword)])
    if k in ("Starred", "StarArg"):
        return ast.Starred(sub[0], L)
    if k == "Kw":
        return ast.keyword(op, sub[0])
    if k == "KwStar":
        return ast.keyword(None, sub[0])
    if k in ("ListComp", "GenExp"):
        comp = ast.comprehension(ast.Name("v", ast.Store()), sub[1], [sub[2]], 0)
        return (ast.ListComp if k == "ListComp" else ast.GeneratorExp)(sub[0], [comp])
    if k == "FStr":
        return ast.JoinedStr([ast.FormattedValue(sub[0], -1, None), ast.Constant("x")])
    if k == "Quoted":                       # part of an annotation written as a string: what it means
        return sub[0]
    raise MachineryError(f"unknown node kind {k}")


def mk_ast(t: Dict[str, Any]) -> ast.expr:
    return ast.fix_missing_locations(ast.Expression(to_ast(t))).body


def subtree(t: Dict[str, Any], path: str) -> Dict[str, Any]:
    for ch in path:
        t = kids_of(t)[int(ch) - 1]
    return t


class _Norm(ast.NodeTransformer):
    """Documented spelling changes, applied to BOTH sides before comparing."""

    def visit_Set(self, node: ast.Set) -> Any:                 # {a, b}  is shown as  set([a, b])
        self.generic_visit(node)
        return ast.Call(ast.Name("set", ast.Load()), [ast.List(node.elts, ast.Load())], [])

    def visit_Call(self, node: ast.Call) -> Any:               # re.compile(p, flags=f) is shown as re.compile(p, f)
        self.generic_visit(node)
        f = node.func
        if (isinstance(f, ast.Attribute) and f.attr == "compile" and isinstance(f.value, ast.Name) and f.value.id == "re"
                and len(node.args) == 1 and len(node.keywords) == 1 and node.keywords[0].arg == "flags"):
            node.args = node.args + [node.keywords[0].value]
            node.keywords = []
        return node

    def visit_BoolOp(self, node: ast.BoolOp) -> Any:           # a or (b or c) == a or b or c (same evaluation)
        self.generic_visit(node)
        vals: List[ast.expr] = []
        for v in node.values:
            if isinstance(v, ast.BoolOp) and type(v.op) is type(node.op):
                vals.extend(v.values)
            else:
                vals.append(v)
        node.values = vals
        return node


def _fields_copy(node: Any) -> Any:
    """Copy of an AST over its _fields only.  (copy.deepcopy would follow the `parent` attributes pydoctor's Parentage
    leaves on nodes - also on the Load() instance that ast.parse shares between all trees - into whole modules.)"""
    if isinstance(node, ast.AST):
        return type(node)(**{f: _fields_copy(getattr(node, f, None)) for f in node._fields})
    if isinstance(node, list):
        return [_fields_copy(x) for x in node]
    if type(node) is int and node.bit_length() > 14000:      # repr() of such an int raises (int max str digits)
        return "<int %s>" % hex(node)
    return node


def adump(e: Any) -> str:
    return ast.dump(_fields_copy(e))


def canon(e: ast.AST) -> str:
    return ast.dump(_Norm().visit(_fields_copy(e)))


def parse_expr(src: str) -> Optional[ast.expr]:
    try:
        return ast.parse(src, mode="eval").body
    except (SyntaxError, ValueError):
        return None


def same_expr(shown: str, tree_ast: ast.expr) -> Tuple[bool, str]:
    got = parse_expr(shown)
    if got is None:
        return False, "shown text is not a Python expression"
    if canon(got) != canon(tree_ast):
        try:
            other = ast.unparse(got)
        except ValueError:
            other = "(not printable)"
        return False, "shown text parses to a different expression: " + other
    return True, ""


# ------------------------------------------------------------------------------------ real renderer
def shown_inline(e: ast.AST) -> Tuple[str, bool, List[str]]:
    from pydoctor.epydoc.markup._pyval_repr import colorize_inline_pyval
    from pydoctor import node2stan
    d = colorize_inline_pyval(e)
    return "".join(node2stan.gettext(d.to_node())), d.is_complete, list(d.warnings)


def astor_text(e: ast.AST) -> str:
    """The environment function of the specs: the text pydoctor obtains for a sub-tree it does not render itself, i.e.
    what the real _colorize_ast_generic emits for that sub-tree alone, with no limits (astor.to_source with whatever
    options pydoctor passes; '??' if astor has no handler)."""
    from pydoctor.epydoc.markup import _pyval_repr as P
    from pydoctor import node2stan
    col = P.PyvalColorizer(linelen=None, maxlines=0, linebreakok=True)
    st = P._ColorizerState()
    col._colorize_ast_generic(e, st)
    return "".join(node2stan.gettext(st.result))


def model_text(rec: Dict[str, Any]) -> Tuple[str, bool]:
    """ImplText of the spec with the environment (astor) placeholders filled in, and the inline-mode cut:
    linebreakok = False (colorize_inline_pyval), so at the first newline (astor wraps long source lines) _output
    raises _Linebreak; every enclosing _OperatorDelimiter.__exit__ still appends its ')' while the exception
    propagates; colorize() then drops the last 3 characters and appends the ellipsis (_pyval_repr.py:316-325)."""
    out: List[str] = []
    open_ops = 0
    for tok in rec["impl"]:
        if tok == "<(":
            open_ops += 1
            out.append("(")
        elif tok == ")>":
            open_ops -= 1
            out.append(")")
        elif tok.startswith("$"):
            txt = astor_text(mk_ast(subtree(rec["t"], tok[1:])))
            if "\n" in txt:
                out.append(txt.split("\n", 1)[0])
                out.append(")" * open_ops)
                return "".join(out)[:-3] + "...", False
            out.append(txt)
        else:
            out.append(huge(tok))
    return "".join(out), True


def astor_unfaithful(rec: Dict[str, Any]) -> List[str]:
    """Environment assumption of Expr.tla (EnvSelfDelimited / 'astor renders its sub-tree faithfully'), checked per
    case: the sub-trees handed to astor whose astor text, taken alone, does not parse back to the sub-tree."""
    out = []
    for tok in rec["impl"]:
        if tok.startswith("$"):
            st = subtree(rec["t"], tok[1:])
            txt = astor_text(mk_ast(st))
            if st["k"] == "Slice":
                ok = same_expr("x[" + txt + "]", ast.Subscript(ast.Name("x", ast.Load()), mk_ast(st), ast.Load()))[0]
            else:
                ok = same_expr(txt, mk_ast(st))[0]
            if not ok:
                out.append(tok[1:])
    return out


def check_astor_table(ctx: Ctx) -> None:
    """AstorPrec in Expr.tla is a literal copy of astor.op_util's table: compare with the installed astor."""
    from astor.op_util import get_op_precedence as P
    want = {"or": 31, "and": 33, "not": 35, "|": 39, "^": 41, "&": 43, "<<": 45, ">>": 45, "+": 47, "-": 47, "*": 49,
            "/": 49, "//": 49, "%": 49, "@": 49, "u": 53, "**": 55}
    got = {"or": P(ast.Or()), "and": P(ast.And()), "not": P(ast.Not()), "u": P(ast.USub()),
           **{o: P(c()) for o, c in BIN.items()}}
    if got != want or P(ast.UAdd()) != 53 or P(ast.Invert()) != 53:
        ctx.drift_note({"astor precedence table differs from Expr.tla!AstorPrec": got})


# --------------------------------------------------------------------------------------- the cases
def expr_cfg(mode: str, cmp_used: List[str], open_ids: List[str], fixed_ids: List[str],
             ann_ops: Tuple[str, ...] = ()) -> str:
    return (f'SPECIFICATION Spec\nCONSTANTS Mode = "{mode}"\n          CmpUsed = {tla(set(cmp_used))}\n'
            f'          AnnOps = {tla(set(ann_ops))}\n'
            f'          Open = {tla(set(open_ids))}\n          Fixed = {tla(set(fixed_ids))}\n'
            'CONSTRAINT Emit\nINVARIANT DesignKnown\n')


PROBES = {"equal-precedence-right-operand": "a-(b-c)", "singleton-tuple-comma": "(a,)",
          "subscript-tuple-index": "x[()]", "slice-bound-tuple": "x[(a,):b]", "nonfinite-float-as-name": "1e999"}
LIT_PROBES = {"bytes-single-quote": b"'", "str-nul-dropped": "\0"}


def finding_status() -> Tuple[List[str], List[str]]:
    """(open, fixed) finding ids.  The transcriptions in Expr*.tla have a switch per finding and follow the
    repaired code for `fixed` ids, so the model stays in step once a proposed fix is applied.  An id counts as
    fixed when known_findings.json says so, when VERIF_C15_FIXED names it, or when the canonical witness of the
    finding no longer reproduces on the tree under test (one probe per finding; every other case of the class is
    then checked against the repaired transcription)."""
    import os
    fs = load_known_findings("C15")
    fixed = {f["id"] for f in fs if f.get("status") == "fixed"}
    fixed |= {x for x in os.environ.get("VERIF_C15_FIXED", "").split(",") if x}
    for fid, src in PROBES.items():
        e = ast.parse(src, mode="eval").body
        if same_expr(shown_inline(ast.parse(src, mode="eval").body)[0], e)[0]:
            fixed.add(fid)
    if quoted_probe_fixed():
        fixed.add("string-annotation-no-parent")
    for fid, val in LIT_PROBES.items():
        got = literal_value(shown_pyval(ast.Constant(val), 0, 0, False)[0])
        if type(got) is type(val) and got == val:
            fixed.add(fid)
    open_ids = [f["id"] for f in fs if f.get("status") == "open" and f["id"] not in fixed]
    return open_ids, sorted(fixed)


def judge_tree(ctx: Ctx, rec: Dict[str, Any], origin: str, stats: Dict[str, int],
               real: Optional[Tuple[str, bool]] = None) -> None:
    """One enumerated tree: validate the reference, run the real colorizer, verdict + drift.
    `real` = (shown, is_complete) when the text was obtained another way (annotations: through the real builder)."""
    tree = rec["t"]
    want = mk_ast(tree)
    ref_src = huge("".join(rec["ref"]))
    # (a) the reference against CPython
    got = parse_expr(ref_src)
    if got is None or (real is None and adump(got) != adump(want)):
        raise MachineryError(f"Expr.tla!Required is unsound: reference text {ref_src!r} does not parse back to {tree}")
    nopar = huge("".join(rec.get("nopar") or []))
    if nopar and nopar != ref_src:
        g2 = parse_expr(nopar)
        stats["necessity_checked"] += 1
        if g2 is not None and adump(g2) == adump(want):
            raise MachineryError(f"Expr.tla!Required demands parentheses that Python does not need: {ref_src!r} vs {nopar!r}")
    # (b) the real code
    shown, complete = real if real is not None else shown_inline(mk_ast(tree))[:2]
    ctx.traces += 1
    model, model_complete = model_text(rec)
    drift = shown != model or complete != model_complete
    if drift:
        stats["drift"] += 1
        ctx.drift_note({"source": ref_src, "model": model, "real": shown})
    classes = sorted({b["cls"] for b in rec["bad"]} | ({ASTOR_CLASS} if astor_unfaithful(rec) else set()))
    if classes:
        stats["design_bad"] += 1
    ok, why = same_expr(shown, want) if complete else (shown.endswith("..."), "cut without the ellipsis marker")
    if not complete:
        stats["incomplete"] += 1
    if not ok:
        stats["violations"] += 1
        vk = f"{origin}:{'+'.join(classes) or 'UNEXPLAINED'}:{'drift' if drift else 'as-modelled'}"
        byclass = ctx.extra.setdefault("violations_by_class", {})
        byclass[vk] = byclass.get(vk, 0) + 1
        ctx.extra.setdefault("violation_examples", {}).setdefault(vk, f"{ref_src}  ->  {shown}")
        ctx.violation({"invariant": "RoundTrip", "origin": origin, "input": ref_src, "tree": tree,
                       "observed": {"shown": shown, "is_complete": complete}, "why": why,
                       "expected": "ast.parse(shown) == ast.parse(input) modulo documented spellings",
                       "design_classes": classes, "model_text": model, "drift": drift,
                       "other": huge("".join(rec.get("other") or [])), "n": rec.get("n"),
                       "key": f"rt:{origin}:{classes}:{ref_src if not classes or drift else ''}"})
    elif classes and not drift and complete:
        # the model predicts a wrong text, the real text equals the model's, and yet it parses back fine:
        # the design-level check demands more than the property (e.g. a or (b or c))
        stats["design_bad_but_real_ok"] += 1
        ctx.extra.setdefault("design_bad_but_real_ok_examples", [])
        if len(ctx.extra["design_bad_but_real_ok_examples"]) < 40:
            ctx.extra["design_bad_but_real_ok_examples"].append(f"{classes} {ref_src}  ->  {shown}")
    if stats["seen"] % 1500 == 0:
        ctx.sample({"source": ref_src, "shown": shown, "design_classes": classes})
    stats["seen"] += 1


def kf_matcher(fid: str, open_ids: List[str]):
    """A RoundTrip violation is the known finding `fid` iff the spec's transcription predicts exactly the text
    that was observed (no drift), the design-level check blames only open known classes, and `fid` is one."""
    def match(w: Dict[str, Any]) -> bool:
        cl = w.get("design_classes") or []
        return (w.get("invariant") == "RoundTrip" and not w.get("drift") and fid in cl
                and all(c in open_ids for c in cl))
    return match


# --------------------------------------------------------------- annotations partly written as strings
def shown_annotations(sources: List[str]) -> List[Tuple[str, bool]]:
    """Build ONE module `v<n>: <annotation> = 0` with the real builder (which parses the quoted parts:
    astutils.unstring_annotation) and colorize each variable's annotation the way type2stan does."""
    from pydoctor import model
    from pydoctor.epydoc.markup._pyval_repr import colorize_inline_pyval
    from pydoctor import node2stan
    system = model.System()
    system.options.verbosity = -3
    builder = system.systemBuilder(system)
    builder.addModuleString("".join(f"v{n}: {src} = 0\n" for n, src in enumerate(sources)), modname="annmod")
    builder.buildModules()
    mod = system.allobjects["annmod"]
    out = []
    for n, src in enumerate(sources):
        attr = mod.contents.get(f"v{n}")
        if attr is None or getattr(attr, "annotation", None) is None:
            raise MachineryError(f"the builder kept no annotation for v{n}: {src}")
        d = colorize_inline_pyval(attr.annotation)
        out.append(("".join(node2stan.gettext(d.to_node())), d.is_complete))
    return out


AUG = {"+": "+=", "-": "-=", "*": "*=", "/": "/=", "//": "//=", "%": "%=", "@": "@=", "**": "**=", "<<": "<<=", ">>": ">>=",
       "|": "|=", "^": "^=", "&": "&="}


class _CodeText:
    """Text of the <code> elements of a piece of written HTML (tolerant reader: html.parser, entities decoded)."""

    def __init__(self, markup: str):
        from html.parser import HTMLParser
        out: List[str] = []
        depth = [0]

        class P(HTMLParser):
            def handle_starttag(self, tag: str, attrs: Any) -> None:
                depth[0] += tag == "code"

            def handle_endtag(self, tag: str) -> None:
                depth[0] -= tag == "code"

            def handle_data(self, data: str) -> None:
                if depth[0]:
                    out.append(data)
        p = P(convert_charrefs=True)
        p.feed(markup)
        p.close()
        self.text = "".join(out)


def constant_pages(lines: List[str], names: List[str]) -> List[Tuple[str, str]]:
    """Build ONE module from `lines` with the real builder and return, for each name, (kind, text of the value as
    written into the 'Value' table of its page by epydoc2stan.format_constant_value, read back from the HTML)."""
    from pydoctor import model, epydoc2stan
    from pydoctor.stanutils import flatten
    system = model.System()
    system.options.verbosity = -3
    builder = system.systemBuilder(system)
    builder.addModuleString("from typing import TypeAlias\n" + "".join(ln + "\n" for ln in lines), modname="valmod")
    builder.buildModules()
    mod = system.allobjects["valmod"]
    out = []
    for nm in names:
        attr = mod.contents.get(nm)
        if attr is None or getattr(attr, "value", None) is None:
            raise MachineryError(f"the builder kept no value for {nm}")
        out.append((attr.kind.name if attr.kind else "?", _CodeText(flatten(epydoc2stan.format_constant_value(attr))).text))
    return out


LIT_COMPAT = "from pkg import engine\nfrom typing import Literal, Optional, Annotated\n\ndef describe(e: 'engine.K', how: Literal['x'] = 'x') -> str: ...\n"


def shown_literal_annotations(setup: int, sources: List[str]) -> List[Tuple[str, bool]]:
    """Annotations `v<n>: <annotation> = 0` of the module pkg.engine, built by the real builder in the project set-up
    `setup` of Expr.tla's Mode "lit"; the annotation is colourized the way type2stan does."""
    from pydoctor import model, node2stan
    from pydoctor.epydoc.markup._pyval_repr import colorize_inline_pyval
    head = {1: "import typing as t\n", 2: "from pkg import compat as t\n", 3: "from pkg import compat as t\n",
            4: "from typing import Literal, Optional, Annotated\n"}[setup]
    engine = head + "class K: 'doc'\n" + "".join(f"v{n}: {src} = 0\n" for n, src in enumerate(sources))
    system = model.System()
    system.options.verbosity = -3
    builder = system.systemBuilder(system)
    builder.addModuleString("", "pkg", is_package=True)
    mods = [("engine", engine), ("compat", LIT_COMPAT)]
    if setup == 3:
        mods.reverse()                                   # the re-exporting module is given (and analysed) first
    for name, text in mods:
        builder.addModuleString(text, name, parent_name="pkg")
    builder.buildModules()
    mod = system.allobjects["pkg.engine"]
    out = []
    for n, src in enumerate(sources):
        attr = mod.contents.get(f"v{n}")
        if attr is None or getattr(attr, "annotation", None) is None:
            raise MachineryError(f"the builder kept no annotation for v{n}: {src}")
        d = colorize_inline_pyval(attr.annotation)
        out.append(("".join(node2stan.gettext(d.to_node())), d.is_complete))
    return out


def quoted_probe_fixed() -> bool:
    shown, complete = shown_annotations(['"a|b" & c'])[0]
    return same_expr(shown, ast.parse("(a|b) & c", mode="eval").body)[0]


# ------------------------------------------------------------------------- string / bytes literals
SYM = {"sq": "'", "dq": '"', "bs": "\\", "nl": "\n", "tab": "\t", "cr": "\r", "ff": "\f", "vt": "\v", "nul": "\0",
       "esc": "\x1b", "soh": "\x01", "uni": "\xe9", "sur": "\ud800", "nbsp": "\xa0", "ffff": "\uffff"}
# quick alphabets; "1" and "b" are hexadecimal digits (what follows a \xNN escape matters), soh / esc / nul are C0 controls
STR_ALPHABET = ["a", "b", "1", " ", "sq", "dq", "bs", "nl", "cr", "nul", "esc", "soh", "uni", "sur", "nbsp", "ffff"]
FALLBACK_SYMBOLS = {"nbsp", "ffff"}
STR_ALPHABET_MORE = ["tab", "ff", "vt", "&"]
BYTES_ALPHABET = ["a", "1", " ", "sq", "dq", "bs", "nl", "tab", "cr", "nul", "esc", "uni"]
C0_SYMBOLS = {"nul", "esc", "soh", "vt"}
STR_FINDINGS = ["str-nul-dropped", "bytes-single-quote"]


def sym_text(seq: List[str]) -> str:
    # "xNN" is ExprStr.tla's generic symbol for the code point NN
    return "".join(SYM.get(x) or (chr(int(x[1:], 16)) if len(x) == 3 and x[0] == "x" else x) for x in seq)


def shown_html(e: Any, lbok: bool) -> str:
    """The value as it reaches the page: to_stan() (docutils HTML -> stanutils.html2stan), flattened to HTML, and the
    text of that HTML."""
    from pydoctor.epydoc.markup._pyval_repr import colorize_pyval
    from pydoctor.stanutils import flatten
    from pydoctor.test import NotFoundLinker
    d = colorize_pyval(e, linelen=0, maxlines=0, linebreakok=lbok)
    return _CodeText(flatten(d.to_stan(NotFoundLinker()))).text


def shown_pyval(e: Any, linelen: int, maxlines: int, lbok: bool) -> Tuple[str, bool]:
    from pydoctor.epydoc.markup._pyval_repr import colorize_pyval
    from pydoctor import node2stan
    d = colorize_pyval(e, linelen=linelen, maxlines=maxlines, linebreakok=lbok)
    return "".join(node2stan.gettext(d.to_node())), d.is_complete


def literal_value(text: str) -> Any:
    try:
        return ast.literal_eval(text)
    except (SyntaxError, ValueError):
        return _INVALID


_INVALID = object()


def strings_cfg(ctx: Ctx, open_ids: List[str], fixed_ids: List[str]) -> str:
    maxlen = 3 if ctx.quick else 4
    str_alphabet = STR_ALPHABET if ctx.quick else STR_ALPHABET + STR_ALPHABET_MORE
    return (f"SPECIFICATION Spec\nCONSTANTS StrAlphabet = {tla(set(str_alphabet))}\n"
            f"          BytesAlphabet = {tla(set(BYTES_ALPHABET))}\n          MaxLen = {maxlen}\n"
            f"          Open = {tla(set(open_ids))}\n          Fixed = {tla(set(fixed_ids))}\n"
            "CONSTRAINT Emit\nINVARIANT DesignKnown\n")


def run_strings(ctx: Ctx, open_ids: List[str], fixed_ids: List[str], stats: Dict[str, int]) -> None:
    cfg = strings_cfg(ctx, open_ids, fixed_ids)
    r = ctx.tlc("ExprStr", cfg, workers="auto", extra=["-continue"], timeout=900)
    if r.errors or (r.rc != 0 and not r.violated):
        raise MachineryError(f"TLC failed on ExprStr: {r.errors[:3]}\n" + "\n".join(r.out.splitlines()[-25:]))
    if len(r.printed) != r.distinct:
        raise MachineryError(f"ExprStr: {r.distinct} cases but {len(r.printed)} records")
    ctx.extra["string_design_level_invariants_violated"] = sorted(set(r.violated))

    def wants_html(rec: Dict[str, Any]) -> bool:
        # quick: every value up to 2 characters - a control character followed by a hex digit / another character /
        # the end, alone or next to a character that sends the value down the fallback path; thorough: also every
        # longer value containing a C0 control character
        v = list(rec["val"])
        if not rec["lbok"] and any(c in FALLBACK_SYMBOLS for c in v):
            return False              # one-line presentation (parameter default): pydoctor shows (...) for the whole signature
        return len(v) <= 2 or (not ctx.quick and len(v) <= 3 and any(c in C0_SYMBOLS for c in v))

    def value_of(rec: Dict[str, Any]) -> Any:
        t = sym_text(list(rec["val"]))
        return t.encode("latin-1") if rec["by"] else t

    # the page of a constant (line breaks allowed): one module with all the values, built by the real builder
    paged = [i for i, rec in enumerate(r.printed) if rec["lbok"] and wants_html(rec)]
    pages = dict(zip(paged, constant_pages([f"S{i} = {value_of(r.printed[i])!r}" for i in paged], [f"S{i}" for i in paged])))
    for ri, rec in enumerate(r.printed):
        by, lbok = rec["by"], rec["lbok"]
        val_s = sym_text(list(rec["val"]))
        value: Any = val_s.encode("latin-1") if by else val_s
        model = sym_text(list(rec["shown"]))
        # the reference reader against CPython (on the model's text)
        py = literal_value(model)
        ref_dec = rec["dec"]
        ref_val: Any = _INVALID if list(ref_dec) == ["INVALID"] else (
            sym_text(list(ref_dec)).encode("latin-1") if by else sym_text(list(ref_dec)))
        if not (py is ref_val or (type(py) is type(ref_val) and py == ref_val)):
            raise MachineryError(f"ExprStr.tla!PyDecode disagrees with ast.literal_eval on {model!r}: {ref_val!r} vs {py!r}")
        shown, complete = shown_pyval(ast.Constant(value), 0, 0, lbok)
        ctx.traces += 1
        stats["strings"] += 1
        drift = shown != model
        if drift:
            stats["drift"] += 1
            ctx.drift_note({"value": repr(value), "lbok": lbok, "model": model, "real": shown})
        got = literal_value(shown)
        ok = complete and type(got) is type(value) and got == value
        classes = sorted(rec["cls"])
        # second observation point: the text of the HTML written for the value
        vsyms = list(rec["val"])
        if ok and wants_html(rec):
            hmodel = sym_text(list(rec["html"]))
            hdec = rec["dech"]
            href: Any = _INVALID if list(hdec) == ["INVALID"] else (
                sym_text(list(hdec)).encode("latin-1") if by else sym_text(list(hdec)))
            hpy = literal_value(hmodel)
            if not (hpy is href or (type(hpy) is type(href) and hpy == href)):
                raise MachineryError(f"ExprStr.tla!PyDecode disagrees with ast.literal_eval on {hmodel!r}: {href!r} vs {hpy!r}")
            hshown = pages[ri][1] if ri in pages else shown_html(ast.Constant(value), lbok)
            stats["strings_html"] += 1
            hdrift = hshown != hmodel
            if hdrift:
                stats["drift"] += 1
                ctx.drift_note({"value": repr(value), "lbok": lbok, "html_model": hmodel, "html_real": hshown})
            hgot = literal_value(hshown)
            if not (type(hgot) is type(value) and hgot == value):
                stats["violations"] += 1
                ctx.violation({"invariant": "LiteralValue", "origin": "literal-html", "input": repr(value), "linebreakok": lbok,
                               "observed": {"shown": hshown, "is_complete": complete, "colorizer_text": shown,
                                            "reads_back_as": "not a literal" if hgot is _INVALID else repr(hgot)},
                               "expected": "ast.literal_eval(text of the rendered HTML) == value",
                               "design_classes": classes, "model_text": hmodel, "drift": hdrift,
                               "key": f"lit-html:{classes}:{[c for c in vsyms if c in C0_SYMBOLS]}:{hgot is _INVALID}"})
        if not ok:
            stats["violations"] += 1
            vk = f"literal:{'+'.join(classes) or 'UNEXPLAINED'}:{'drift' if drift else 'as-modelled'}"
            byclass = ctx.extra.setdefault("violations_by_class", {})
            byclass[vk] = byclass.get(vk, 0) + 1
            ctx.extra.setdefault("violation_examples", {}).setdefault(vk, f"{value!r}  ->  {shown!r}")
            ctx.violation({"invariant": "LiteralValue", "origin": "literal", "input": repr(value), "linebreakok": lbok,
                           "observed": {"shown": shown, "is_complete": complete,
                                        "reads_back_as": "not a literal" if got is _INVALID else repr(got)},
                           "expected": "ast.literal_eval(shown) == value", "design_classes": classes,
                           "model_text": model, "drift": drift,
                           "key": f"lit:{classes}:{repr(value) if not classes or drift else ''}"})
        if stats["strings"] % 2000 == 7:
            ctx.sample({"value": repr(value), "linebreakok": lbok, "shown": shown})


def kf_literal(fid: str, open_ids: List[str]):
    def match(w: Dict[str, Any]) -> bool:
        cl = w.get("design_classes") or []
        return (w.get("invariant") == "LiteralValue" and not w.get("drift") and fid in cl
                and all(c in open_ids for c in cl))
    return match


# ----------------------------------------------------------------- line wrapping / truncation (ExprLayout.tla)
LAYOUT_SOURCES = ["alpha", "12345678901234", "'hello world'", "'ab\\ncd'", "alpha+beta*gamma", "(alpha+beta)*gamma",
                  "[alpha, beta, 123]", "[alpha, [beta, 'x\\ny'], gamma]", "func(alpha, beta, key=value)",
                  "-(alpha and beta or gamma)", "(alpha, beta)", "f(k=(a+b)*c)", "[]", "f()",
                  "[(aa+bb)*cc, 'it\\'s', f(x, y=[1, 2])]", "not (a or 'p\\nq')",
                  # dict / set displays: one line first, one entry per line when that does not fit
                  "{'alpha': 1, 'beta': [2, 3], 'gamma': 3}", "{'k': {'inner': aa+bb, 'other': 2}, **rest}",
                  "f(d={'a': 1, **more, 'b': x or y})", "{1, 22, 333}", "{}",
                  # several lines, the LAST one much longer than a line: it cannot fit in what maxlines leaves
                  "'ab\\ncdefghijklmnopqrstuvwxyz0123456789'", "['x\\ny', 'p\\nabcdefghijklmnopqrstuvw']"]
# values whose astor rendering (comparison chain, conditional, lambda, comprehension) spans several lines: ONE _output
# call then carries text with embedded newlines, and a non-last line may need wrapping
LAYOUT_LONG_SOURCES = [
    "alpha_alpha_alpha_alpha < beta_beta_beta_beta_beta < gamma_gamma_gamma_gamma_gamma < delta_delta_delta_delta_delta "
    "< epsilon_epsilon_epsilon",
    "dict(configuration=value_when_true_is_long_name if some_condition_that_is_long(argument_one, argument_two) "
    "else value_when_false_is_long_name_too_xx)",
    "[start, lambda first_argument, second_argument, third_argument: first_argument + second_argument + third_argument "
    "+ 123456789 + 987654321]",
    "f(k=[some_function_name(element_value, other_value) for element_value in a_rather_long_iterable_name "
    "if element_value is not None and other])",
]
L_UN = {ast.USub: "-", ast.Not: "not", ast.Invert: "~", ast.UAdd: "+"}
L_BIN = {ast.Add: "+", ast.Sub: "-", ast.Mult: "*", ast.Pow: "**", ast.FloorDiv: "//", ast.Div: "/", ast.BitOr: "|"}
L_SYM = {"NL": "\n", "WRAP": chr(8629), "ELL": "...", "sq": "'", "bs": "\\", "nl": "\n"}
L_CHR = {"\n": "NL", chr(8629): "WRAP", "'": "sq", "\\": "bs"}


def layout_tree(e: ast.AST) -> Dict[str, Any]:
    """ast -> the tree encoding of ExprLayout.tla (texts are sequences of one-character strings)."""
    N = lambda k, op, kids: {"k": k, "op": op, "kids": kids}
    if isinstance(e, ast.Name):
        return N("Name", list(e.id), [])
    if isinstance(e, ast.Constant) and isinstance(e.value, str):
        return N("Str", [{"\n": "nl", "'": "sq", "\\": "bs"}.get(c, c) for c in e.value], [])
    if isinstance(e, ast.Constant) and type(e.value) is int:
        return N("Num", list(str(e.value)), [])
    if isinstance(e, ast.UnaryOp):
        return N("Unary", L_UN[type(e.op)], [layout_tree(e.operand)])
    if isinstance(e, ast.BinOp):
        return N("Bin", L_BIN[type(e.op)], [layout_tree(e.left), layout_tree(e.right)])
    if isinstance(e, ast.BoolOp):
        return N("Bool", "and" if isinstance(e.op, ast.And) else "or", [layout_tree(v) for v in e.values])
    if isinstance(e, (ast.List, ast.Tuple, ast.Set)):
        return N(type(e).__name__, "", [layout_tree(v) for v in e.elts])
    if isinstance(e, ast.Dict):
        kids: List[Dict[str, Any]] = []
        for k, v in zip(e.keys, e.values):
            kids += [N("NoKey", "", []) if k is None else layout_tree(k), layout_tree(v)]
        return N("Dict", "", kids)
    if isinstance(e, ast.Call):
        return N("Call", "", [layout_tree(e.func)] + [layout_tree(v) for v in e.args]
                 + [N("Kw", list(k.arg or ""), [layout_tree(k.value)]) for k in e.keywords])
    if isinstance(e, (ast.Compare, ast.IfExp, ast.Lambda, ast.ListComp, ast.GeneratorExp)):
        # environment: the text astor gives for the sub-tree, handed to _output in one piece
        return N("Text", [{"\n": "nl", "'": "sq", "\\": "bs"}.get(c, c) for c in astor_text(e)], [])
    raise MachineryError("layout_tree: form outside ExprLayout.tla: " + adump(e))


def _walk(t: Dict[str, Any]):
    yield t
    for k in t["kids"]:
        yield from _walk(k)


def gen_layout_source(rng: random.Random, depth: int) -> str:
    name = lambda: rng.choice(["a", "bb", "ccc", "delta", "epsilon7", "x.y.z".replace(".", "_")])
    if depth <= 0 or rng.random() < 0.2:
        r = rng.random()
        if r < 0.55:
            return name()
        if r < 0.75:
            return str(rng.choice([0, 7, 42, 123456, 98765432101234]))
        return repr(rng.choice(["s", "two words", "l1\nl2", "q'q", "b\\s", "", "a\n\nb", "l1\nsecond line that is long"]))
    g = lambda: gen_layout_source(rng, depth - 1)
    r = rng.random()
    if r < 0.25:
        # left operand only: the right-operand grouping defect is C15's other finding, not this contract's
        return f"({g()}){rng.choice(['+', '-', '*', '**', '//', '|'])}{name()}"
    if r < 0.33:
        return f"{rng.choice(['-', 'not ', '~'])}({g()})"
    if r < 0.37:
        return rng.choice([f"{name()} < {name()} <= 42", f"({name()} if {name()} else {name()})", f"(lambda q: {name()})"])
    if r < 0.43:
        return "(" + rng.choice([" and ", " or "]).join(f"({g()})" for _ in range(rng.choice([2, 3]))) + ")"
    if r < 0.55:
        return "[" + ", ".join(g() for _ in range(rng.choice([0, 1, 2, 3, 4]))) + "]"
    if r < 0.63:
        ents = [f"**{name()}" if rng.random() < 0.2 else f"{g()}: {g()}" for _ in range(rng.choice([0, 1, 2, 3]))]
        return "{" + ", ".join(ents) + "}"
    if r < 0.75:
        return "(" + ", ".join(g() for _ in range(rng.choice([0, 2, 3]))) + ")"
    args = [g() for _ in range(rng.choice([0, 1, 2]))] + [f"{rng.choice(['k', 'key'])}={g()}" for _ in range(rng.choice([0, 0, 1, 2]))]
    return f"{name()}({', '.join(args)})"


def to_symbols(text: str, complete: bool) -> List[str]:
    body = text[:-3] if (not complete and text.endswith("...")) else text
    return [L_CHR.get(ch, ch) for ch in body] + (["ELL"] if (not complete and text.endswith("...")) else [])


def essence_py(sym: List[str]) -> List[str]:
    """Python twin of ExprLayout.tla!Essence."""
    out: List[str] = []
    i = 0
    while i < len(sym):                                   # Unwrap
        if sym[i] == "WRAP":
            i += 2 if i + 1 < len(sym) and sym[i + 1] == "NL" else 1
        else:
            out.append(sym[i]); i += 1
    sym, out, i = out, [], 0
    while i < len(sym):                                   # Canon
        if sym[i] == "," and i + 1 < len(sym) and sym[i + 1] == "NL":
            out += [",", " "]; i += 2
            while i < len(sym) and sym[i] == " ":
                i += 1
        else:
            out.append(sym[i]); i += 1
    sym, out, i = out, [], 0
    while i < len(sym):                                   # Quotes
        if sym[i:i + 3] == ["sq", "sq", "sq"]:
            out.append("sq"); i += 3
        elif sym[i] == "NL":
            out += ["bs", "n"]; i += 1
        else:
            out.append(sym[i]); i += 1
    return out


def marked_py(full: List[str], shown: List[str], complete: bool) -> bool:
    if complete:
        return essence_py(shown) == essence_py(full) and "ELL" not in shown
    return bool(shown) and shown[-1] == "ELL"


def layout_cfg(source: str, maxll: int, maxml: int, fixed_ids: List[str], extra_ll: Tuple[int, ...] = (),
               segmax: int = 0, colmax: int = 0) -> str:
    return (f'SPECIFICATION Spec\nCONSTANTS Source = "{source}"\n          MaxLineLen = {maxll}\n'
            f'          MaxMaxLines = {maxml}\n          ExtraLineLen = {tla(set(extra_ll))}\n'
            f'          SegMax = {segmax}\n          ColMax = {colmax}\n'
            f'          Fixed = {tla(set(fixed_ids))}\nCONSTRAINT Emit\n'
            + ("INVARIANT DesignMarked\n" if source == "enum" else "")
            + ("INVARIANT DesignOrderKept\n" if source == "segs" else "")
            + ("INVARIANT HistoryIndependent\n" if source == "hist" else ""))


def real_output(ll: int, ml: int, col: int, text: str) -> Tuple[str, int, int, str]:
    """The real PyvalColorizer._output fed with a prefix of `col` characters and then ONE (multi-line) text."""
    from pydoctor.epydoc.markup import _pyval_repr as P
    from pydoctor import node2stan
    c = P.PyvalColorizer(linelen=ll, maxlines=ml, linebreakok=True)
    st = P._ColorizerState()
    exc = "none"
    try:
        c._output("p" * col, None, st)
        c._output(text, None, st)
    except P._Maxlines:
        exc = "Maxlines"
    except P._Linebreak:
        exc = "Linebreak"
    return "".join(node2stan.gettext(st.result)), st.charpos, st.lineno, exc


def segs_cfg(ctx: Ctx, fixed_ids: List[str]) -> str:
    ll, segmax, colmax = (6, 5, 3) if ctx.quick else (8, 6, 4)
    return layout_cfg("segs", ll, 2, fixed_ids, segmax=segmax, colmax=colmax)


def hist_cfg(ctx: Ctx, fixed_ids: List[str]) -> str:
    maxll, maxml = (12, 2) if ctx.quick else (16, 3)
    return layout_cfg("hist", maxll, maxml, fixed_ids)


def run_segments(ctx: Ctx, fixed_ids: List[str], stats: Dict[str, int]) -> None:
    """ExprLayout.tla, Source = "segs": every (linelen, maxlines, starting column, <= 3 line lengths)."""
    r = ctx.tlc("ExprLayout", segs_cfg(ctx, fixed_ids), workers="auto",
                extra=["-continue"], env={"LAYOUT_FILE": "/nonexistent"}, timeout=900)
    errs = [e for e in r.errors if "The behavior up to this point is" not in e]
    if errs or (r.rc != 0 and not r.violated):
        raise MachineryError(f"TLC failed on ExprLayout(segs): {errs[:3]}\n" + "\n".join(r.out.splitlines()[-25:]))
    if len(r.printed) != r.distinct:
        raise MachineryError(f"ExprLayout(segs): {r.distinct} cases but {len(r.printed)} records")
    ctx.extra["segments_design_level_invariants_violated"] = sorted(set(r.violated))
    for rec in r.printed:
        text = "".join(L_SYM.get(x, x) for x in rec["text"])
        out, cp, ln, exc = real_output(rec["ll"], rec["ml"], rec["col"], text)
        ctx.traces += 1
        stats["segments"] += 1
        model = "".join(L_SYM.get(x, x) for x in rec["out"])
        if (out, cp, ln, exc) != (model, rec["cp"], rec["ln"], rec["exc"]):
            stats["drift"] += 1
            ctx.drift_note({"segs": rec["lens"], "linelen": rec["ll"], "maxlines": rec["ml"], "col": rec["col"],
                            "model": [model, rec["cp"], rec["ln"], rec["exc"]], "real": [out, cp, ln, exc]})
        if exc == "none":
            stats["segments_wrapped"] += chr(8629) in out
            if out.replace(chr(8629) + "\n", "") != "p" * rec["col"] + text:
                stats["violations"] += 1
                ctx.violation({"invariant": "OrderKept", "origin": "segs", "input": text, "linelen": rec["ll"],
                               "maxlines": rec["ml"], "col": rec["col"], "observed": {"shown": out},
                               "expected": "reading across the wrap marks gives the text back, every character in place",
                               "key": f"order:{[min(x, rec['ll'] + 1) for x in rec['lens']]}:{rec['col'] > 0}"})
        if stats["segments"] % 9000 == 11:
            ctx.sample({"text": text, "linelen": rec["ll"], "col": rec["col"], "shown": out})


def layout_bounds(ctx: Ctx) -> Tuple[int, int, Tuple[int, ...]]:
    return (12, 3, (40, 80)) if ctx.quick else (24, 4, (40, 80))


def layout_sources(ctx: Ctx, rng: random.Random) -> List[str]:
    sources = list(LAYOUT_SOURCES) + list(LAYOUT_LONG_SOURCES)
    want = 36 if ctx.quick else 80
    while len(sources) < want:
        src = gen_layout_source(rng, rng.choice([2, 3]))
        if len(src) <= 70 and src not in sources:
            sources.append(src)
    return sources


def run_layout(ctx: Ctx, sources: List[str], fixed_ids: List[str], stats: Dict[str, int]) -> None:
    maxll, maxml, extra_ll = layout_bounds(ctx)
    asts = [ast.parse(sx, mode="eval").body for sx in sources]
    trees = [layout_tree(e) for e in asts]
    f = ctx.scratch / "layout_trees.json"
    f.write_text(json.dumps(trees))
    # ---- spec -> code: TLC predicts text + is_complete for every (tree, linelen, maxlines, linebreakok)
    r = ctx.tlc("ExprLayout", layout_cfg("enum", maxll, maxml, fixed_ids, extra_ll), workers="auto", extra=["-continue"],
                env={"LAYOUT_FILE": str(f)}, timeout=900)
    if r.errors or (r.rc != 0 and not r.violated):
        raise MachineryError(f"TLC failed on ExprLayout: {r.errors[:3]}\n" + "\n".join(r.out.splitlines()[-25:]))
    if len(r.printed) != r.distinct:
        raise MachineryError(f"ExprLayout: {r.distinct} cases but {len(r.printed)} records")
    ctx.extra["layout_design_level_invariants_violated"] = sorted(set(r.violated))
    full_cache: Dict[Tuple[int, bool], str] = {}
    observations: List[Dict[str, Any]] = []
    verdicts: List[bool] = []
    for rec in r.printed:
        ti, ll, ml, lbok = rec["ti"] - 1, rec["ll"], rec["ml"], rec["lbok"]
        src = sources[ti]
        shown, complete = shown_pyval(ast.parse(src, mode="eval").body, ll, ml, lbok)
        ctx.traces += 1
        stats["layout"] += 1
        model = "".join(L_SYM.get(x, x) for x in rec["text"])
        if shown != model or complete != rec["complete"]:
            stats["drift"] += 1
            ctx.drift_note({"source": src, "linelen": ll, "maxlines": ml, "linebreakok": lbok,
                            "model": [model, rec["complete"]], "real": [shown, complete]})
        if (ti, lbok) not in full_cache:
            full_cache[(ti, lbok)] = shown_pyval(ast.parse(src, mode="eval").body, 0, 0, lbok)[0]
        full = full_cache[(ti, lbok)]
        # verdict on the REAL text: nothing lost if complete (exact: it parses back to what the unlimited text
        # parses to), ellipsis if not
        if any(t.get("k") == "Text" and "nl" in t["op"] for t in _walk(trees[ti])) and chr(8629) in shown:
            stats["layout_multiline_text"] += 1
        if complete:
            stats["layout_complete"] += 1
            a, b = parse_expr(shown.replace(chr(8629) + "\n", "")), parse_expr(full)
            ok = (a is not None and b is not None and canon(a) == canon(b)) if b is not None else \
                essence_py(to_symbols(shown, True)) == essence_py(to_symbols(full, True))
            if chr(8629) in shown:
                stats["layout_wrapped"] += 1
        else:
            stats["layout_cut"] += 1
            ok = shown.endswith("...")
        obs = {"linelen": ll, "maxlines": ml, "lbok": lbok, "complete": complete,
               "full": to_symbols(full, True), "shown": to_symbols(shown, complete), "src": src}
        observations.append(obs)
        verdicts.append(ok)
        if not ok:
            stats["violations"] += 1
            ctx.violation({"invariant": "Marked", "origin": "layout", "input": src, "linelen": ll, "maxlines": ml,
                           "linebreakok": lbok, "observed": {"shown": shown, "is_complete": complete, "unlimited": full},
                           "expected": "is_complete => the text read across the wrap markers is the whole value; "
                                       "not is_complete => the text ends with the ellipsis",
                           "key": f"marked:{src}:{complete}"})
        if stats["layout"] % 900 == 5:
            ctx.sample({"source": src, "linelen": ll, "maxlines": ml, "linebreakok": lbok, "shown": shown,
                        "is_complete": complete})
    # ---- code -> spec: TLC evaluates the contract on the OBSERVED texts
    tlc_marked: List[bool] = []
    for batch in chunks(observations, 4000):
        g = ctx.scratch / "layout_obs.json"
        g.write_text(json.dumps([{k: v for k, v in o.items() if k != "src"} for o in batch]))
        r2 = ctx.tlc("ExprLayout", layout_cfg("file", 0, 0, fixed_ids), workers="auto", env={"LAYOUT_FILE": str(g)},
                     timeout=900, check=True)
        got = {rec["ti"]: rec["marked"] for rec in r2.printed}
        if len(got) != len(batch):
            raise MachineryError(f"ExprLayout(file): {len(got)} verdicts for {len(batch)} observations")
        tlc_marked += [got[i] for i in range(1, len(batch) + 1)]
    for o, ok, tm in zip(observations, verdicts, tlc_marked):
        ctx.traces += 1
        if tm != marked_py(o["full"], o["shown"], o["complete"]):
            raise MachineryError(f"ExprLayout.tla!Marked and its Python twin disagree on {o}")
        if tm != ok:
            # the structural contract (TLC) and the exact one (ast.parse) differ: not a verdict, worth a look
            ctx.notes.append(f"Marked(TLC)={tm} but parse-based verdict={ok} for {o['src']!r} "
                             f"linelen={o['linelen']} maxlines={o['maxlines']}")
    # ---- negative control: an unmarked cut and a silently shortened text must be rejected by TLC
    whole = next((o for o in observations if o["complete"] and len(o["shown"]) > 4 and "ELL" not in o["shown"]), None)
    nc = {"unmarked_cut_rejected": False, "silently_shortened_rejected": False}
    if whole:
        broken = [dict(whole, complete=False, shown=whole["shown"][:-2]),
                  dict(whole, shown=whole["shown"][:2] + whole["shown"][3:])]
        g = ctx.scratch / "layout_obs.json"
        g.write_text(json.dumps([{k: v for k, v in o.items() if k != "src"} for o in broken]))
        r3 = ctx.tlc("ExprLayout", layout_cfg("file", 0, 0, fixed_ids), workers=1, env={"LAYOUT_FILE": str(g)},
                     timeout=300, check=True, count=False)
        got = {rec["ti"]: rec["marked"] for rec in r3.printed}
        nc = {"unmarked_cut_rejected": got.get(1) is False, "silently_shortened_rejected": got.get(2) is False}
    ctx.extra["negative_control"] = nc
    if not all(nc.values()):
        raise MachineryError(f"negative control failed: {nc}")
    ctx.extra["layout_sources"] = len(sources)


# ----------------------------------------------------------------------- history: shared class-level nodes
PROBE_VALUE = 1234567890


def reset_shared_nodes() -> None:
    """Harness hygiene: give PyvalColorizer a fresh LINEWRAP node (a previous case may have emptied the shared one)."""
    from docutils import nodes
    from pydoctor.epydoc.markup._pyval_repr import PyvalColorizer as C
    C.LINEWRAP = nodes.inline('', chr(8629), classes=[C.LINEWRAP_TAG])


def probe_text() -> str:
    return shown_pyval(ast.Constant(PROBE_VALUE), 4, 0, True)[0]


def run_history(ctx: Ctx, sources: List[str], trees_file: Any, fixed_ids: List[str], open_ids: List[str],
                stats: Dict[str, int]) -> None:
    """ExprLayout.tla, Source = "hist": a value rendered with linebreakok = False and a line length, then an unrelated
    probe in the same process.  What the probe shows must not depend on the first rendering."""
    r = ctx.tlc("ExprLayout", hist_cfg(ctx, fixed_ids), workers="auto", extra=["-continue"],
                env={"LAYOUT_FILE": str(trees_file)}, timeout=900, coverage=False)
    errs = [e for e in r.errors if "The behavior up to this point is" not in e]
    if errs or (r.rc != 0 and not r.violated):
        raise MachineryError(f"TLC failed on ExprLayout(hist): {errs[:3]}\n" + "\n".join(r.out.splitlines()[-25:]))
    ctx.extra["history_design_level_invariants_violated"] = sorted(set(r.violated))
    reset_shared_nodes()
    clean = probe_text()
    for rec in r.printed:
        src = sources[rec["ti"] - 1]
        reset_shared_nodes()
        shown, complete = shown_pyval(ast.parse(src, mode="eval").body, rec["ll"], rec["ml"], False)
        after = probe_text()
        ctx.traces += 1
        stats["histories"] += 1
        m_text = "".join(L_SYM.get(x, x) for x in rec["text"])
        m_probe = "".join(L_SYM.get(x, x) for x in rec["probe"])
        drift = (shown, complete, after) != (m_text, rec["complete"], m_probe)
        if drift:
            stats["drift"] += 1
            ctx.drift_note({"source": src, "linelen": rec["ll"], "maxlines": rec["ml"],
                            "model": [m_text, rec["complete"], m_probe], "real": [shown, complete, after]})
        if after != clean:
            stats["violations"] += 1
            stats["histories_poisoned"] += 1
            ctx.violation({"invariant": "HistoryIndependent", "origin": "history", "input": src, "linelen": rec["ll"],
                           "maxlines": rec["ml"], "observed": {"first": shown, "probe_after": after, "probe_clean": clean},
                           "expected": "the probe shows the same text whatever was rendered before",
                           "design_classes": [], "drift": drift, "key": f"hist:{src}:{rec['ll']}:{rec['ml']}"})
    reset_shared_nodes()


# ----------------------------------------------------------- one object under two spellings (ExprNames.tla)
SPELL = {"short": "Base", "dotted": "base.Base"}
NAMES_CFG = 'SPECIFICATION Spec\nCONSTANTS Mode = "spell"\nCONSTRAINT Emit\nINVARIANT ShownAsWritten\n'
BASES_CFG = 'SPECIFICATION Spec\nCONSTANTS Mode = "bases"\nCONSTRAINT Emit\nINVARIANT ShownAsWritten\n'
BASE_NAME = {"own": "Handler", "local": "Base", "mixin": "Mixin", "foreign": "Other"}


def shown_bases(kinds: List[str]) -> Tuple[str, str]:
    """(source, text shown) of `class Handler(<bases>)` in a module that imports a third-party class called Handler."""
    from pydoctor import model
    from pydoctor.templatewriter import pages
    from pydoctor.stanutils import flatten
    import html as _html
    import re as _re
    bases = ", ".join(BASE_NAME[k] for k in kinds)
    user = ("from thirdparty.handlers import Handler, Other\nfrom pkg.base import Base, Mixin\n\n"
            f"class Handler({bases}):\n    'doc'\n")
    system = model.System()
    system.options.verbosity = -3
    builder = system.systemBuilder(system)
    builder.addModuleString("", "pkg", is_package=True)
    builder.addModuleString("class Base:\n    'doc'\nclass Mixin:\n    'doc'\n", "base", parent_name="pkg")
    builder.addModuleString(user, "user", parent_name="pkg")
    builder.buildModules()
    cls = system.allobjects["pkg.user.Handler"]
    text = _html.unescape(_re.sub(r"<[^>]*>", "", flatten(pages.format_class_signature(cls))))
    return f"class Handler({bases}): ...", "class Handler" + text + ": ..."


def run_bases(ctx: Ctx, stats: Dict[str, int]) -> None:
    r = ctx.tlc("ExprNames", BASES_CFG, workers="auto", extra=["-continue"], timeout=600)
    if r.errors or (r.rc != 0 and not r.violated):
        raise MachineryError(f"TLC failed on ExprNames(bases): {r.errors[:3]}\n" + "\n".join(r.out.splitlines()[-25:]))
    for rec in r.printed:
        kinds = list(rec["order"])
        src, shown = shown_bases(kinds)
        ctx.traces += 1
        stats["base_lists"] += 1
        try:
            same = ast.dump(ast.parse(shown)) == ast.dump(ast.parse(src))
        except SyntaxError:
            same = False
        if not same:
            stats["drift"] += 1
            stats["violations"] += 1
            ctx.drift_note({"bases": kinds, "model": src, "real": shown})
            ctx.violation({"invariant": "ShownAsWritten", "origin": "bases", "bases": kinds, "input": src,
                           "observed": {"shown": shown}, "expected": "every base written is shown, in order",
                           "key": f"bases:{kinds.index('own') if 'own' in kinds else -1}:{len(kinds)}"})


def run_names_history(spell: Dict[str, str], order: List[str]) -> List[Tuple[str, str, str]]:
    """Build pkg.base / pkg.user with the real builder, render the three sites of pkg.user in the given order through
    the real page functions; returns (site, source of the piece, text shown for it)."""
    from pydoctor import model
    from pydoctor.templatewriter import pages
    from pydoctor.stanutils import flatten
    import html as _html
    import re as _re
    f, g, b = (SPELL[spell[k]] for k in ("f", "g", "B"))
    user = (f"from pkg import base\nfrom pkg.base import Base\n\ndef f(x: {f}) -> {f}:\n    'doc'\n\n"
            f"def g(y: {g} = {g}.DEFAULT):\n    'doc'\n\nclass B({b}):\n    'doc'\n")
    system = model.System()
    system.options.verbosity = -3
    builder = system.systemBuilder(system)
    builder.addModuleString("", "pkg", is_package=True)
    builder.addModuleString("class Base:\n    'doc'\n    DEFAULT = None\n", "base", parent_name="pkg")
    builder.addModuleString(user, "user", parent_name="pkg")
    builder.buildModules()
    mod = system.allobjects["pkg.user"]
    text = lambda stan: _html.unescape(_re.sub(r"<[^>]*>", "", flatten(stan)))
    sources = {"f": f"def f(x: {f}) -> {f}: ...", "g": f"def g(y: {g} = {g}.DEFAULT): ...", "B": f"class B({b}): ..."}
    out = []
    for site in order:
        if site == "B":
            shown = "class B" + text(pages.format_class_signature(mod.contents["B"])) + ": ..."
        else:
            shown = f"def {site}" + text(pages.format_signature(mod.contents[site])) + ": ..."
        out.append((site, sources[site], shown))
    return out


def run_names(ctx: Ctx, stats: Dict[str, int]) -> None:
    r = ctx.tlc("ExprNames", NAMES_CFG, workers="auto", extra=["-continue"], timeout=600)
    errs = [e for e in r.errors if "The behavior up to this point is" not in e]
    if errs or (r.rc != 0 and not r.violated):
        raise MachineryError(f"TLC failed on ExprNames: {errs[:3]}\n" + "\n".join(r.out.splitlines()[-25:]))
    ctx.extra["names_design_level_invariants_violated"] = sorted(set(r.violated))
    for rec in r.printed:
        spell, order = dict(rec["spell"]), list(rec["order"])
        ctx.traces += 1
        stats["name_histories"] += 1
        for k, (site, src, shown) in enumerate(run_names_history(spell, order)):
            want = ast.dump(ast.parse(src))
            try:
                same = ast.dump(ast.parse(shown)) == want
            except SyntaxError:
                same = False
            # the model: the site shows the spelling written there (rec["shown"][k].as == spell[site])
            if rec["shown"][k]["as"] != spell[site]:
                raise MachineryError("ExprNames.tla emitted a behaviour that breaks its own contract")
            if not same:
                stats["drift"] += 1
                stats["violations"] += 1
                ctx.drift_note({"spellings": spell, "order": order, "site": site, "model": src, "real": shown})
                ctx.violation({"invariant": "ShownAsWritten", "origin": "names", "spell": spell, "order": order, "site": site,
                               "input": src, "observed": {"shown": shown, "rendered_before": order[:k]},
                               "expected": "the piece reads back as written, whatever was rendered before",
                               "key": f"names:{site}:{spell[site]}:{sorted(set(spell[x] for x in order[:k]))}"})
        if stats["name_histories"] % 20 == 1:
            ctx.sample({"spellings": spell, "order": order})


# --------------------------------------------------------------------- re.compile(<pattern>) (ExprRe.tla)
RE_ATOM_TEXT = {"a": "a", "b_plus": "b+", "a_star": "a*", "a_1_or_more": "a{1,}", "alt": "a|b", "group": "(a)",
                "nc_alt": "(?:a|b)", "set_ab": "[ab]", "set_a_hyphen_z": "[a\\-z]", "set_hyphen_a": "[\\-a]", "range_az": "[a-z]",
                "not_a": "[^a]", "esc_dot": "\\.", "esc_hyphen": "\\-", "dot": ".", "scoped_i": "(?i:a)", "scoped_s": "(?s:.)",
                "named_group": "(?P<n>a)", "cond_group": "(a)?(?(1)b|c)", "open_paren": "("}
RE_ATOMS = sorted(RE_ATOM_TEXT)
_RE_SUBJECTS: List[str] = []


def re_subjects() -> List[str]:
    if not _RE_SUBJECTS:
        import itertools
        for n in range(0, 4):
            _RE_SUBJECTS.extend("".join(t) for t in itertools.product("abzA-.\n", repeat=n))
    return _RE_SUBJECTS


def same_regex(p1: str, p2: str) -> Tuple[bool, str]:
    """Do two patterns denote the same regular expression, as far as Python's `re` can tell on every string of up
    to 3 characters over a small alphabet, plus the groups they define."""
    import re
    try:
        c1, c2 = re.compile(p1), re.compile(p2)
    except re.error as e:
        return False, f"not a pattern: {e}"
    if (c1.groups, c1.groupindex) != (c2.groups, c2.groupindex):
        return False, "different groups"
    for sub in re_subjects():
        if (c1.fullmatch(sub) is None) != (c2.fullmatch(sub) is None):
            return False, f"{'only the source' if c1.fullmatch(sub) else 'only the shown pattern'} matches {sub!r}"
    return True, ""


def shown_regex(pattern: str, func: str = "re.compile") -> str:
    return shown_inline(ast.parse(f"{func}({pattern!r})", mode="eval").body)[0]


def judge_regex(pattern: str) -> Tuple[Optional[str], str, str]:
    """(pattern shown inside re.compile(r'...') or None, the whole text, why not)"""
    shown = shown_regex(pattern)
    e = parse_expr(shown)
    if not (isinstance(e, ast.Call) and len(e.args) == 1 and not e.keywords and isinstance(e.args[0], ast.Constant)
            and isinstance(e.args[0].value, str) and ast.unparse(e.func) == "re.compile"):
        return None, shown, "the shown text is not re.compile(<string>)"
    return e.args[0].value, shown, ""


def regex_cfg(ctx: Ctx, open_ids: List[str], fixed_ids: List[str]) -> str:
    return (f"SPECIFICATION Spec\nCONSTANTS Atoms = {tla(set(RE_ATOMS))}\n          MaxAtoms = {2 if ctx.quick else 3}\n"
            f"          Open = {tla(set(open_ids))}\n          Fixed = {tla(set(fixed_ids))}\n"
            "CONSTRAINT Emit\nINVARIANT DesignKnown\n")


def run_regex(ctx: Ctx, open_ids: List[str], fixed_ids: List[str], stats: Dict[str, int]) -> None:
    import re
    r = ctx.tlc("ExprRe", regex_cfg(ctx, open_ids, fixed_ids), workers="auto", extra=["-continue"], timeout=900)
    if r.errors or (r.rc != 0 and not r.violated):
        raise MachineryError(f"TLC failed on ExprRe: {r.errors[:3]}\n" + "\n".join(r.out.splitlines()[-25:]))
    if len(r.printed) != r.distinct:
        raise MachineryError(f"ExprRe: {r.distinct} cases but {len(r.printed)} records")
    for rec in r.printed:
        pattern = "".join(RE_ATOM_TEXT[x] for x in rec["pat"])
        try:
            re.compile(pattern)
            valid = True
        except re.error:
            valid = False
        if valid != rec["ispattern"]:
            raise MachineryError(f"ExprRe.tla!IsPattern disagrees with re.compile on {pattern!r}")
        ctx.traces += 1
        stats["regexes"] += 1
        classes = sorted(rec["cls"])
        got, shown, why = judge_regex(pattern)
        if not rec["presented"]:
            # ordinary call rendering, from a clean slate: what the same call of another function looks like
            want = "re" + shown_regex(pattern, "xx.compile")[2:]
            ok, why = shown == want, f"expected the ordinary call rendering {want!r}"
            drift = not ok
        else:
            stats["regexes_presented"] += 1
            drift = got is None
            ok, why = (False, why) if got is None else same_regex(pattern, got)
        if drift:
            stats["drift"] += 1
            ctx.drift_note({"pattern": pattern, "model": "presented" if rec["presented"] else "ordinary call", "real": shown})
        if not ok:
            stats["violations"] += 1
            vk = f"regex:{'+'.join(classes) or 'UNEXPLAINED'}:{'drift' if drift else 'as-modelled'}"
            byclass = ctx.extra.setdefault("violations_by_class", {})
            byclass[vk] = byclass.get(vk, 0) + 1
            ctx.extra.setdefault("violation_examples", {}).setdefault(vk, f"{pattern!r}  ->  {shown}")
            ctx.violation({"invariant": "RegexMeaning", "origin": "regex", "input": pattern,
                           "observed": {"shown": shown, "pattern_shown": got}, "why": why,
                           "expected": "the pattern shown denotes the same regular expression (or the ordinary call rendering)",
                           "design_classes": classes, "drift": drift,
                           "key": f"re:{classes}:{pattern if not classes or drift else ''}"})
        elif classes:
            stats["design_bad_but_real_ok"] += 1
        if stats["regexes"] % 150 == 3:
            ctx.sample({"pattern": pattern, "shown": shown})


# ------------------------------------------------------------------------------ random deeper trees
def gen_tree(rng: random.Random, depth: int) -> Dict[str, Any]:
    N = lambda k, op, kids: {"k": k, "op": op, "kids": kids}
    if depth <= 0 or rng.random() < 0.12:
        if rng.random() < 0.3:
            kd = rng.choice(sorted(LIT))
            return N("Const", "int" if kd == "hugehex" and rng.random() < 0.85 else kd, [])   # rare: astor cannot print it
        return N("Name", rng.choice("abcdefgh"), [])
    g = lambda: gen_tree(rng, depth - 1)
    r = rng.random()
    if r < 0.30:
        return N("Bin", rng.choice(sorted(BIN)), [g(), g()])
    if r < 0.40:
        return N("Unary", rng.choice(sorted(UN)), [g()])
    if r < 0.48:
        return N("Bool", rng.choice(sorted(BOOL)), [g() for _ in range(rng.choice([2, 2, 3]))])
    if r < 0.55:
        return N("Cmp", rng.choice(ALL_CMP), [g() for _ in range(rng.choice([2, 2, 3]))])
    if r < 0.60:
        return N("IfExp", "", [g(), g(), g()])
    if r < 0.63:
        return N("Lambda", "", [g()])
    if r < 0.68:
        k = rng.choice(["List", "Tuple", "Set"])
        n = rng.choice([1, 1, 2, 3]) if k == "Set" else rng.choice([0, 1, 2, 3])
        elts = [g() for _ in range(n)]
        if elts and rng.random() < 0.2:
            elts[-1] = N("Starred", "", [g()])
        return N(k, "", elts)
    if r < 0.72:
        kids: List[Dict[str, Any]] = []
        for _ in range(rng.choice([0, 1, 2])):
            kids += [N("NoKey", "", []), g()] if rng.random() < 0.25 else [g(), g()]
        return N("Dict", "", kids)
    if r < 0.78:
        return N("Attr", rng.choice(["n", "m"]), [g()])
    if r < 0.88:
        s = rng.random()
        if s < 0.4:
            sl = g()
        elif s < 0.6:
            sl = N("Slice", "", [g() if rng.random() < 0.7 else N("Absent", "", []) for _ in range(3)])
        else:
            sl = N("Tuple", "", [g() if rng.random() < 0.7 else
                                 N("Slice", "", [g(), N("Absent", "", []), N("Absent", "", [])])
                                 for _ in range(rng.choice([0, 1, 2, 3]))])
        return N("Sub", "", [g(), sl])
    if r < 0.97:
        args = [g() for _ in range(rng.choice([0, 1, 2]))]
        if rng.random() < 0.25:
            args.append(N("StarArg", "", [g()]))
        if rng.random() < 0.4:
            args.append(N("Kw", rng.choice(["x", "y"]), [g()]))
        if rng.random() < 0.15:
            args.append(N("KwStar", "", [g()]))
        return N("Call", "", [g()] + args)
    return N("Await", "", [g()])


# ------------------------------------------------------------------------------------------- check
class Prefetch:
    """The TLC runs whose input is known at the start (all but the one that judges observed outputs) are started
    together (a JVM start costs seconds) and consumed where the sequential code asks for them: ctx.tlc is replaced by a
    look-up keyed by (module, cfg text, environment) that falls back to a normal run."""

    def __init__(self, ctx: Ctx):
        from concurrent.futures import ThreadPoolExecutor
        self.ctx, self.orig, self.futs = ctx, ctx.tlc, {}
        self.pool = ThreadPoolExecutor(max_workers=6)
        ctx.spec_dir()
        ctx.tlc = self                                     # type: ignore[method-assign]

    @staticmethod
    def key(module: str, cfg: str, env: Optional[Dict[str, str]]) -> Any:
        return (module, cfg, tuple(sorted((env or {}).items())))

    def submit(self, module: str, cfg: str, **kw: Any) -> None:
        from ..core import run_tlc
        kw = {k: v for k, v in kw.items() if k != "count"}
        kw["workers"] = 4
        self.futs[self.key(module, cfg, kw.get("env"))] = self.pool.submit(run_tlc, self.ctx.scratch, module, cfg, **kw)

    def __call__(self, module: str, cfg: str, **kw: Any) -> Any:
        fut = self.futs.pop(self.key(module, cfg, kw.get("env")), None)
        if fut is None:
            return self.orig(module, cfg, **kw)
        r = fut.result()
        if kw.get("count", True):
            self.ctx.states += r.distinct
            self.ctx.transitions += r.generated
        self.ctx.tlc_runs.append({"module": module, **r.summary()})
        return r

    def close(self) -> None:
        for k, fut in self.futs.items():
            fut.cancel()
            self.ctx.notes.append(f"prefetched TLC run never asked for: {k[0]} {k[1][:60]!r}")
        self.pool.shutdown(wait=False)
        self.ctx.tlc = self.orig                           # type: ignore[method-assign]


def run(ctx: Ctx) -> int:
    rng = random.Random(ctx.seed)
    open_ids, fixed_ids = finding_status()
    for fid in FINDINGS:
        ctx.register_matcher(fid, kf_matcher(fid, open_ids))
    for fid in STR_FINDINGS:
        ctx.register_matcher(fid, kf_literal(fid, open_ids))
    check_astor_table(ctx)
    stats = {k: 0 for k in ("seen", "drift", "design_bad", "violations", "incomplete", "necessity_checked",
                            "design_bad_but_real_ok", "strings", "layout", "layout_complete", "layout_wrapped",
                            "layout_cut", "layout_multiline_text", "segments", "segments_wrapped",
                            "strings_html", "histories", "histories_poisoned", "regexes", "regexes_presented", "name_histories", "base_lists", "annotation_pairs")}
    design_violated: List[str] = []
    # ---- inputs that do not depend on the code under test, then all TLC runs that only need those
    ntrees = 1500 if ctx.quick else 30000
    trees = [gen_tree(rng, rng.choice([3, 4, 5])) for _ in range(ntrees)]
    tree_files = []
    for bi, batch in enumerate(chunks(trees, 5000)):
        f = ctx.scratch / f"trees_{bi}.json"
        f.write_text(json.dumps(list(batch)))
        tree_files.append(f)
    lsources = layout_sources(ctx, rng)
    (ctx.scratch / "layout_trees.json").write_text(json.dumps([layout_tree(ast.parse(sx, mode="eval").body) for sx in lsources]))
    hf = ctx.scratch / "hist_trees.json"
    hf.write_text(json.dumps([layout_tree(ast.parse(sx, mode="eval").body) for sx in LAYOUT_SOURCES]))
    ann_cmp = ["<"] if ctx.quick else FEW_CMP
    ann_ops = ("+", "|", "**") if ctx.quick else ("+", "*", "|", "**", "<<")
    d3_cmp = FEW_CMP if ctx.quick else ALL_CMP
    pre = Prefetch(ctx)
    ex = dict(extra=["-continue"], timeout=900)
    pre.submit("Expr", expr_cfg("d2", ALL_CMP, open_ids, fixed_ids), **ex)
    pre.submit("Expr", expr_cfg("d3", d3_cmp, open_ids, fixed_ids), **ex)
    for f in tree_files:
        pre.submit("Expr", expr_cfg("file", ALL_CMP, open_ids, fixed_ids), env={"CASE_FILE": str(f)}, **ex)
    pre.submit("Expr", expr_cfg("ann", ann_cmp, open_ids, fixed_ids, ann_ops), **ex)
    pre.submit("Expr", expr_cfg("aug", d3_cmp, open_ids, fixed_ids), **ex)
    pre.submit("Expr", expr_cfg("lit", d3_cmp, open_ids, fixed_ids), **ex)
    pre.submit("ExprStr", strings_cfg(ctx, open_ids, fixed_ids), **ex)
    pre.submit("ExprRe", regex_cfg(ctx, open_ids, fixed_ids), **ex)
    pre.submit("ExprNames", NAMES_CFG, **ex)
    pre.submit("ExprNames", BASES_CFG, **ex)
    pre.submit("Expr", expr_cfg("ann2", ann_cmp, open_ids, fixed_ids), **ex)
    maxll, maxml, extra_ll = layout_bounds(ctx)
    pre.submit("ExprLayout", layout_cfg("enum", maxll, maxml, fixed_ids, extra_ll),
               env={"LAYOUT_FILE": str(ctx.scratch / "layout_trees.json")}, **ex)
    pre.submit("ExprLayout", segs_cfg(ctx, fixed_ids), env={"LAYOUT_FILE": "/nonexistent"}, **ex)
    pre.submit("ExprLayout", hist_cfg(ctx, fixed_ids), env={"LAYOUT_FILE": str(hf)}, **ex)

    def tlc_cases(mode: str, cmp_used: List[str], env: Optional[Dict[str, str]] = None,
                  ann_ops: Tuple[str, ...] = ()) -> List[Dict[str, Any]]:
        r = ctx.tlc("Expr", expr_cfg(mode, cmp_used, open_ids, fixed_ids, ann_ops), workers="auto", env=env,
                    extra=["-continue"], timeout=900, coverage=False)
        if r.errors or (r.rc != 0 and not r.violated):
            raise MachineryError(f"TLC failed on Expr ({mode}): {r.errors[:3]}\n" + "\n".join(r.out.splitlines()[-25:]))
        design_violated.extend(sorted({f"{mode}:{v}" for v in r.violated}))
        if len(r.printed) != r.distinct:
            raise MachineryError(f"Expr ({mode}): {r.distinct} cases but {len(r.printed)} records")
        return r.printed

    # ---- every depth-2 tree
    d2 = tlc_cases("d2", ALL_CMP)
    for rec in d2:
        judge_tree(ctx, rec, "d2", stats)
    ctx.extra["depth2_trees"] = len(d2)
    # ---- every depth-3 operator chain
    d3 = tlc_cases("d3", d3_cmp)
    for rec in d3:
        judge_tree(ctx, rec, "d3", stats)
    ctx.extra["depth3_chains"] = len(d3)
    ctx.exhaustive = True
    # ---- random deeper trees, reference and transcription recomputed by TLC
    nfile = 0
    for f in tree_files:
        for rec in tlc_cases("file", ALL_CMP, env={"CASE_FILE": str(f)}):
            judge_tree(ctx, rec, "random", stats)
            nfile += 1
    ctx.extra["random_deeper_trees"] = nfile
    # ---- annotations with a quoted part: source -> real builder (unstring_annotation) -> colorizer
    ann = tlc_cases("ann", ann_cmp, ann_ops=ann_ops)
    shown_ann = shown_annotations([huge("".join(rec["ref"])) for rec in ann])
    for rec, real in zip(ann, shown_ann):
        judge_tree(ctx, rec, "annotation", stats, real=real)
    ctx.extra["annotations_with_quoted_part"] = len(ann)
    # ---- the same quoted string in two annotations of one module, in both orders (the comment makes the string of
    #      each pair unique: whatever might be shared between equal strings is shared within the pair only)
    import re as _re
    ann2 = tlc_cases("ann2", ann_cmp)
    pair_sources: List[str] = []
    for i, rec in enumerate(ann2):
        uniq = lambda text: _re.sub(r'"([^"]*)"', lambda m: f'"{m.group(1)} #{i}"', huge(text))
        a, b = uniq("".join(rec["ref"])), uniq("".join(rec["other"]))
        pair_sources += [a, b] if rec["n"] == 1 else [b, a]
    shown_pairs = shown_annotations(pair_sources)
    for i, rec in enumerate(ann2):
        real = shown_pairs[2 * i] if rec["n"] == 1 else shown_pairs[2 * i + 1]
        stats["annotation_pairs"] += 1
        judge_tree(ctx, rec, f"annotation-pair:{'first' if rec['n'] == 1 else 'second'}", stats, real=real)
    # ---- the arguments of Literal[...] stay strings, however the qualifier is bound and in whichever order the modules
    #      of the import cycle are analysed
    lit = tlc_cases("lit", d3_cmp)
    for setup in (1, 2, 3, 4):
        recs = [rec for rec in lit if rec["n"] == setup]
        for rec, real in zip(recs, shown_literal_annotations(setup, ["".join(rec["ref"]) for rec in recs])):
            judge_tree(ctx, rec, f"literal-annotation:setup{setup}", stats, real=real)
    ctx.extra["literal_annotations"] = len(lit)
    # ---- values built by two statements (V = form; V op= rhs), through the real builder, read back from the page
    aug = tlc_cases("aug", d3_cmp)
    lines, names = [], []
    for i, rec in enumerate(aug):
        first, rhs = (huge("".join(x)) for x in rec["parts"])
        lines += [f"A{i}: TypeAlias = {first}", f"A{i} {AUG[rec['t']['op']]} {rhs}"]
        names.append(f"A{i}")
    kinds: Dict[str, int] = {}
    for rec, (kind, text) in zip(aug, constant_pages(lines, names)):
        kinds[kind] = kinds.get(kind, 0) + 1
        judge_tree(ctx, rec, "augmented", stats, real=(text, True))
    ctx.extra["values_built_by_augmented_assignment"] = {"cases": len(aug), "kinds": kinds}
    # ---- string / bytes literals (ExprStr.tla)
    run_strings(ctx, open_ids, fixed_ids, stats)
    # ---- one class named under two spellings at three sites of a module, rendered in every order (ExprNames.tla)
    run_names(ctx, stats)
    run_bases(ctx, stats)
    # ---- re.compile(<pattern>): presented or ordinary call, same regular expression (ExprRe.tla)
    run_regex(ctx, open_ids, fixed_ids, stats)
    # ---- line length / line count: wrapping, truncation, is_complete (ExprLayout.tla)
    run_layout(ctx, lsources, fixed_ids, stats)
    run_segments(ctx, fixed_ids, stats)
    # ---- history: what one representation leaves behind for the next (shared class-level nodes)
    run_history(ctx, list(LAYOUT_SOURCES), hf, fixed_ids, open_ids, stats)
    pre.close()
    ctx.extra["expr_stats"] = stats
    ctx.extra["design_level_invariants_violated"] = design_violated
    ctx.extra["known_finding_ids"] = {"open": open_ids, "fixed": fixed_ids}
    ctx.assumptions += [
        "sub-trees pydoctor hands to astor.to_source (comparisons, conditionals, lambdas, comprehensions, f-strings, "
        "await, walrus, attribute of a non-name) are an environment function: not modelled, but every shown text "
        "including astor's part is parsed back",
        "the regular-expression colouriser (re.compile(...) calls) is a different mechanism and not covered",
        "documented spellings: quote style, str() of finite numbers, set([...]) for set displays, "
        "redundant parentheses, nested same-operator and/or flattened",
    ]
    return ctx.finish(
        rule="cases = every (context, form) pair = all depth-2 expression trees, every operator chain "
             "ctx1[ctx2[form]] over unary/binary/boolean/comparison/conditional operators, and random trees of depth "
             "3-5, all enumerated or re-evaluated by TLC from Expr.tla and rendered by the real colorize_inline_pyval; "
             "non-trivial = the tree contains at least one edge where Python's grammar requires parentheses or a "
             "tuple special case",
        distinct_nontrivial=sum(1 for rec in d2 + d3 if "(" in "".join(rec["ref"])))


def replay(ctx: Ctx, path: str) -> int:
    w = json.load(open(path))
    bad = False
    if w.get("invariant") == "RoundTrip" and "tree" in w:
        want = mk_ast(w["tree"])
        org = str(w.get("origin"))
        def _pair() -> Tuple[str, bool]:
            import re as _re
            uq = lambda text: _re.sub(r'"([^"]*)"', lambda m: f'"{m.group(1)} #0"', text)
            a, b = uq(w["input"]), uq(w["other"])
            res = shown_annotations([a, b] if w["n"] == 1 else [b, a])
            return res[0] if w["n"] == 1 else res[1]
        shown, complete = (_pair() if org.startswith("annotation-pair")
                           else shown_annotations([w["input"]])[0] if org == "annotation"
                           else shown_literal_annotations(int(org[-1]), [w["input"]])[0] if org.startswith("literal-annotation")
                           else shown_inline(mk_ast(w["tree"]))[:2])
        ok, why = same_expr(shown, want) if complete else (shown.endswith("..."), "cut without marker")
        print(f"replay: input {w['input']!r} shown {shown!r} ->", "holds now" if ok else f"still violated ({why})")
        bad = not ok
    elif w.get("invariant") == "LiteralValue" and w.get("origin") == "literal-html":
        value = ast.literal_eval(w["input"])
        shown = (constant_pages([f"S0 = {value!r}"], ["S0"])[0][1] if w["linebreakok"]
                 else shown_html(ast.Constant(value), False))
        got = literal_value(shown)
        bad = not (type(got) is type(value) and got == value)
        print(f"replay: value {w['input']} in the rendered HTML {shown!r} ->", "still violated" if bad else "holds now")
    elif w.get("invariant") == "LiteralValue":
        value = ast.literal_eval(w["input"])
        shown, complete = shown_pyval(ast.Constant(value), 0, 0, w["linebreakok"])
        got = literal_value(shown)
        bad = not (complete and type(got) is type(value) and got == value)
        print(f"replay: value {w['input']} shown {shown!r} ->", "still violated" if bad else "holds now")
    elif w.get("invariant") == "ShownAsWritten" and w.get("origin") == "bases":
        src, shown = shown_bases(w["bases"])
        try:
            bad = ast.dump(ast.parse(shown)) != ast.dump(ast.parse(src))
        except SyntaxError:
            bad = True
        print(f"replay: {src} shown as {shown!r} ->", "still violated" if bad else "holds now")
    elif w.get("invariant") == "ShownAsWritten":
        res = run_names_history(w["spell"], w["order"])
        bad = False
        for site, src, shown in res:
            try:
                bad = bad or ast.dump(ast.parse(shown)) != ast.dump(ast.parse(src))
            except SyntaxError:
                bad = True
        print(f"replay: spellings {w['spell']} rendered in the order {w['order']} ->", [x[2] for x in res],
              "still violated" if bad else "holds now")
    elif w.get("invariant") == "RegexMeaning":
        got, shown, why = judge_regex(w["input"])
        ok = got is not None and same_regex(w["input"], got)[0]
        if not ok:
            ok = shown == "re" + shown_regex(w["input"], "xx.compile")[2:]
        bad = not ok
        print(f"replay: re.compile({w['input']!r}) shown {shown!r} ->", "still violated" if bad else "holds now")
    elif w.get("invariant") == "HistoryIndependent":
        reset_shared_nodes()
        clean = probe_text()
        shown_pyval(ast.parse(w["input"], mode="eval").body, w["linelen"], w["maxlines"], False)
        after = probe_text()
        reset_shared_nodes()
        bad = after != clean
        print(f"replay: {w['input']!r} at linelen {w['linelen']} (one line), then the probe -> {after!r}:",
              "still violated" if bad else "holds now")
    elif w.get("invariant") == "OrderKept":
        out, cp, ln, exc = real_output(w["linelen"], w["maxlines"], w["col"], w["input"])
        bad = exc == "none" and out.replace(chr(8629) + "\n", "") != "p" * w["col"] + w["input"]
        print(f"replay: _output({w['input']!r}) at column {w['col']} linelen {w['linelen']} -> {out!r}:",
              "still violated" if bad else "holds now")
    elif w.get("invariant") == "Marked":
        src, lbok = w["input"], w["linebreakok"]
        shown, complete = shown_pyval(ast.parse(src, mode="eval").body, w["linelen"], w["maxlines"], lbok)
        full = shown_pyval(ast.parse(src, mode="eval").body, 0, 0, lbok)[0]
        if complete:
            a, b = parse_expr(shown.replace(chr(8629) + "\n", "")), parse_expr(full)
            ok = (a is not None and canon(a) == canon(b)) if b is not None else \
                essence_py(to_symbols(shown, True)) == essence_py(to_symbols(full, True))
        else:
            ok = shown.endswith("...")
        bad = not ok
        print(f"replay: {src!r} linelen={w['linelen']} maxlines={w['maxlines']} shown {shown!r} is_complete={complete} ->",
              "still violated" if bad else "holds now")
    if bad:
        print(f"VIOLATION property=C15 replay={path}")
    ctx.cleanup()
    return 1 if bad else 0
